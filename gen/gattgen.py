#!/usr/bin/env python3
"""gattgen.py -- generator of bluetoe server declarations (C++ source) together with an independent description of the
declared GATT database (DESIGN.md 3.2).

  spec = gen_spec(random.Random(seed), profile)     resolved description of one declaration (plain JSON data)
  emit_cpp(spec)                                     adapter translation unit (bluetoe declaration + vg::ServerIf + vg::Db)

The database description (handles, permissions, encryption requirement, ...) is computed here from the *declaration text*
and bluetoe's documentation (sequential handle rule, option cascade), never from bluetoe's meta programs.
Pure function of the seed; the spec (compact JSON, no spaces) is the replay unit.
"""
import hashlib
import json
import random
import sys

BASE128 = (0x8C8B4094, 0x0DE2, 0x499F, 0xA28A, 0x4EED5BC73C00)


def u128_args(k):
    return (BASE128[0], BASE128[1], BASE128[2], BASE128[3], BASE128[4] + k)


def u128_le(k):
    a, b, c, d, e = u128_args(k)
    be = a.to_bytes(4, 'big') + b.to_bytes(2, 'big') + c.to_bytes(2, 'big') + d.to_bytes(2, 'big') + e.to_bytes(6, 'big')
    return list(reversed(be))


def uuid_le(u):
    kind, v = u
    if kind == 16:
        return [v & 0xff, v >> 8]
    return u128_le(v)


# ------------------------------------------------------------------------------------------------ spec generation
PROFILES = {
    # weights / switches per check; 'default' is the broad grammar
    'default': {},
    'handles': {'p_fixed_svc': 0.6, 'p_fixed_chr': 0.5, 'p_include': 0.5},
    'discovery': {'p_fixed_svc': 0.6, 'p_fixed_chr': 0.4, 'p_include': 0.3, 'p_secondary': 0.4},
    'secondary': {'p_secondary': 0.5, 'min_services': 2},
    'enc': {'p_enc': 0.8, 'p_queue': 0.6, 'p_notify': 0.6},
    'queue': {'p_queue': 1.0, 'p_enc': 0.3},
    'mtu': {'p_mtu': 1.0, 'big_values': True, 'p_notify': 0.7},
    'cccd': {'p_notify': 0.9, 'min_chars': 3, 'p_prio': 0.5, 'p_queue': 0.5, 'p_cccd_cb': 0.8, 'max_cccd': 9},
    'notify': {'p_notify': 0.9, 'min_chars': 2, 'p_prio': 0.7, 'max_cccd': 8, 'p_dup_uuid': 0.3, 'min_services': 2},
    'adv': {'adv': True},
    'nogap': {'p_nogap': 1.0},
}

MTUS = [23, 24, 27, 48, 65, 158, 247, 300]


def gen_spec(r, profile='default', exclude=()):
    P = dict(p_fixed_svc=0.3, p_fixed_chr=0.25, p_include=0.2, p_secondary=0.25, p_enc=0.4, p_queue=0.5, p_mtu=0.6,
             p_notify=0.5, p_prio=0.3, p_nogap=0.3, p_cccd_cb=0.3, min_services=1, min_chars=0, big_values=False, adv=False, max_cccd=6, p_dup_uuid=0.1)
    P.update(PROFILES.get(profile, {}))
    no_mixed_uuid = 'mixed-uuid' in exclude

    nsvc = r.randint(max(1, P['min_services']), 4)
    server = {
        'mtu': r.choice(MTUS) if r.random() < P['p_mtu'] else 0,
        'queue': r.choice([16, 24, 40, 64, 100, 200]) if r.random() < P['p_queue'] else 0,
        'gap': r.random() >= P['p_nogap'],
        'enc': r.choice(['req', 'noreq', 'may']) if r.random() < P['p_enc'] * 0.5 else None,
        'cccd_cb': r.random() < P['p_cccd_cb'],
        'name': None, 'appearance': None, 'adv_appearance': False, 'adv16': None, 'adv128': None, 'range': None,
        'custom_adv': None, 'custom_scan': None, 'prio': [],
    }
    if r.random() < (0.8 if P['adv'] else 0.3):
        server['name'] = ''.join(r.choice('ABCDEFGHIJKLMNOPQRSTUVWXYZabcdefghijklmnopqrstuvwxyz0123456789') for _ in range(r.choice([0, 1, 2, 5, 8, 12, 20, 26, 29, 31, 40])))
    if r.random() < (0.6 if P['adv'] else 0.2):
        server['appearance'] = r.choice([0x0000, 0x0040, 0x0341, 0x03C1, 0x1444])
        server['adv_appearance'] = r.random() < 0.7
    elif P['adv'] and r.random() < 0.3:
        server['adv_appearance'] = True
    if P['adv'] and r.random() < 0.4:
        server['range'] = r.choice([[6, 3200], [0xFFFF, 0xFFFF], [0x10, 0x20], [6, 0xFFFF], [0xFFFF, 0xC80]])
    if P['adv'] and r.random() < 0.2:
        server['custom_adv'] = [r.randrange(256) for _ in range(r.choice([0, 1, 3, 10, 31]))]
    if P['adv'] and r.random() < 0.3:
        server['custom_scan'] = [r.randrange(256) for _ in range(r.choice([0, 1, 3, 10, 31]))]

    all16 = no_mixed_uuid and r.random() < 0.5
    all128 = no_mixed_uuid and not all16
    services = []
    uuid_ctr = [0]
    chr16 = [0x2A10]

    def fresh128():
        uuid_ctr[0] += 1
        return [128, uuid_ctr[0]]

    def fresh16chr():
        chr16[0] += 1
        return [16, chr16[0]]

    var_ctr = [0]
    cccd_ctr = [0]
    earlier_notifying = []
    for si in range(nsvc):
        is128 = (r.random() < 0.4 or all128) and not all16
        svc = {
            'uuid': fresh128() if is128 else [16, 0x1810 + si],
            'secondary': r.random() < P['p_secondary'],
            'fixed': r.random() < P['p_fixed_svc'],
            'enc': r.choice(['req', 'noreq', 'may']) if r.random() < P['p_enc'] * 0.5 else None,
            'includes': [], 'prio': [], 'chars': [],
        }
        nch = r.randint(P['min_chars'], 5 if not P['big_values'] else 3)
        for ci in range(nch):
            k = r.random()
            if all16:
                uuid = fresh16chr()
            elif all128:
                uuid = fresh128()
            else:
                uuid = fresh16chr() if k < 0.55 else fresh128()
            vk = r.choice(['var', 'var', 'var', 'var', 'scalar', 'constvar', 'fixed', 'cstr', 'blob', 'hblob', 'hraw', 'hwronly', 'hrdonly'])
            c = {'uuid': uuid, 'vk': vk, 'size': 0, 'fixed': None, 'var': -1,
                 'no_read': False, 'no_write': False, 'notify': False, 'indicate': False, 'wwr': False, 'owwr': False,
                 'name': None, 'desc': None, 'enc': None, 'handles': None}
            if vk == 'var':
                c['size'] = r.choice([1, 2, 3, 4, 7, 16, 20, 21, 22, 23, 30, 60]) if not P['big_values'] else r.choice([20, 22, 23, 40, 64, 100, 180, 300])
            elif vk == 'scalar':
                c['size'] = r.choice([1, 2, 4])
            elif vk == 'constvar':
                c['size'] = 4
            elif vk == 'fixed':
                c['size'] = r.choice([1, 2, 4])
                c['fixed'] = [r.randrange(256) for _ in range(c['size'])]
            elif vk == 'cstr':
                c['fixed'] = [ord(r.choice('ABCDEFGHIJKLMNOPQRSTUVWXYZabcdefghijklmnopqrstuvwxyz0123456789 _-+*/=<>!#$%&()[]{}.,;:')) for _ in range(r.choice([0, 1, 5, 21, 22, 23, 40]))]
            elif vk == 'blob':
                c['fixed'] = [r.randrange(256) for _ in range(r.choice([1, 5, 21, 22, 23, 40]))]
            elif vk in ('hblob', 'hraw', 'hwronly', 'hrdonly'):
                c['size'] = r.choice([4, 10, 22, 30, 50])  # capacity of the handler store
            if vk in ('var', 'scalar', 'constvar', 'hblob', 'hraw', 'hwronly', 'hrdonly'):
                c['var'] = var_ctr[0]
                var_ctr[0] += 1
            can_notify = vk in ('var', 'scalar', 'constvar', 'fixed', 'hblob', 'hraw', 'hrdonly')
            # bluetoe's compile time grows exponentially with the number of CCCDs (12: one minute, 16: > 7 minutes)
            if can_notify and r.random() < P['p_notify'] and cccd_ctr[0] < P['max_cccd']:
                cccd_ctr[0] += 1
                c['notify'] = r.random() < 0.7
                c['indicate'] = r.random() < 0.5 or not c['notify']
                # the same characteristic UUID in two services: "if multiple characteristics exist with the given UUID, the first
                # characteristic will be notified" (server::notify<UUID>() documentation)
                if earlier_notifying and r.random() < P['p_dup_uuid'] and not no_mixed_uuid:
                    c['uuid'] = list(r.choice(earlier_notifying))
                    c['dup'] = True
            if vk in ('var', 'scalar', 'constvar', 'hblob', 'hraw') and r.random() < 0.2 and 'noread-handler' not in exclude:
                c['no_read'] = True
            elif vk in ('var', 'scalar', 'constvar') and r.random() < 0.2:
                c['no_read'] = True
            if vk in ('var', 'scalar') and r.random() < 0.2:
                c['no_write'] = True
            if vk in ('var', 'scalar', 'hblob', 'hraw', 'hwronly') and not c['no_write']:
                x = r.random()
                if x < 0.15:
                    c['wwr'] = True
                elif x < 0.25:
                    c['owwr'] = True
            if r.random() < 0.25:
                c['name'] = ''.join(r.choice('abcdefghijklmnopqrstuvwxyz') for _ in range(r.choice([1, 4, 21, 22, 23, 30])))
            if r.random() < 0.2:
                c['desc'] = {'uuid': r.choice([0x2904, 0x2906, 0x290B]), 'value': [r.randrange(256) for _ in range(r.choice([1, 3, 7, 22, 25]))]}
            if r.random() < P['p_enc'] * 0.5:
                c['enc'] = r.choice(['req', 'req', 'noreq', 'may'])
            if r.random() < P['p_fixed_chr']:
                c['handles'] = r.choice(['one', 'three', 'three0'])
            svc['chars'].append(c)
        earlier_notifying += [x['uuid'] for x in svc['chars'] if (x['notify'] or x['indicate']) and not x.get('dup')]
        with_cccd = [i for i, c in enumerate(svc['chars']) if c['notify'] or c['indicate']]
        if with_cccd and r.random() < P['p_prio']:
            svc['prio'] = r.sample(with_cccd, r.randint(1, len(with_cccd)))
        services.append(svc)
    if nsvc > 1 and 'include' not in exclude:
        for si in range(nsvc):
            if r.random() < P['p_include']:
                others = [x for x in range(nsvc) if x != si]
                services[si]['includes'] = r.sample(others, r.randint(1, min(2, len(others))))
    # a characteristic UUID that occurs twice in the server is not named in a priority list (the list is resolved by UUID; a level
    # without a matching CCCD characteristic instantiates an empty queue, which is outside of the domain - section 3.2 (2))
    all_uuids = [tuple(c['uuid']) for s in services for c in s['chars']]
    for s in services:
        s['prio'] = [i for i in s['prio'] if all_uuids.count(tuple(s['chars'][i]['uuid'])) == 1]
    cand = [i for i, s in enumerate(services) if any(c['notify'] or c['indicate'] for c in s['chars'])]
    if cand and r.random() < P['p_prio']:
        server['prio'] = r.sample(cand, r.randint(1, len(cand)))
    if P['adv'] and r.random() < 0.4:
        s16 = sorted(set([s['uuid'][1] for s in services if s['uuid'][0] == 16] + [0x180F, 0x1822]))   # no duplicates in an explicit list
        server['adv16'] = r.sample(s16, r.randint(0, min(len(s16), 4))) if r.random() < 0.8 else []
    if P['adv'] and r.random() < 0.3:
        s128 = sorted(set([s['uuid'][1] for s in services if s['uuid'][0] == 128] + [90, 91]))
        server['adv128'] = r.sample(s128, r.randint(0, min(len(s128), 2)))

    # ---- resolve handles by the documented sequential rule; fixed handles are placed with random gaps
    h = 1
    for s in services:
        if s['fixed']:
            # also: start a few handles in front of a multiple of 0x100, so that the service spans the boundary (16 bit handle arithmetic)
            h += r.choice([0, 1, 2, 5, 16, 0x100 - (h % 0x100), 0x100 - (h % 0x100) - r.choice([1, 2, 3]) if (h % 0x100) < 0xf0 else 0])
            s['handle'] = h
        else:
            s['handle'] = 0
        h += 1 + len(s['includes'])
        for c in s['chars']:
            has_cccd = c['notify'] or c['indicate']
            extra = (1 if c['name'] is not None else 0) + (1 if c['desc'] else 0)
            mode = c['handles']
            if mode == 'one':
                h += r.choice([0, 1, 3, 8])
                c['handles'] = ['one', h]
                h += 2 + (1 if has_cccd else 0) + extra
            elif mode in ('three', 'three0'):
                d = h + r.choice([0, 1, 4])
                v = d + r.choice([1, 1, 2, 5])
                if has_cccd and mode == 'three':
                    cc = v + r.choice([1, 1, 2, 4])
                    c['handles'] = ['three', d, v, cc]
                    h = cc + 1 + extra
                else:
                    c['handles'] = ['three', d, v, 0]
                    h = v + 1 + (1 if has_cccd else 0) + extra
            else:
                c['handles'] = None
                h += 2 + (1 if has_cccd else 0) + extra
    spec = {'server': server, 'services': services}
    return spec


def spec_id(spec):
    return hashlib.sha256(json.dumps(spec, sort_keys=True, separators=(',', ':')).encode()).hexdigest()[:12]


# ------------------------------------------------------------------------------------------------ database description
A_SERVICE, A_INCLUDE, A_CHARDECL, A_VALUE, A_CCCD, A_USERDESC, A_DESCRIPTOR = range(7)
VK = {'var': 0, 'scalar': 0, 'constvar': 1, 'fixed': 2, 'cstr': 3, 'blob': 4, 'hblob': 5, 'hraw': 6, 'hwronly': 7, 'hrdonly': 8}


def cascade(*levels):
    """documented cascade: the innermost level that says 'req' or 'noreq' wins; 'may' and None inherit"""
    val = False
    for l in levels:
        if l == 'req':
            val = True
        elif l == 'noreq':
            val = False
    return val


def build_db(spec):
    server = spec['server']
    attrs, chrs, svcs = [], [], []
    h = 0

    def add(kind, type_le, service, chr_=-1, incl=-1, fixed=None, handle=0):
        nonlocal h
        h = handle if handle else h + 1
        attrs.append(dict(kind=kind, handle=h, type=type_le, service=service, chr=chr_, incl=incl, fixed=fixed or [], fixed_handle=bool(handle)))
        return len(attrs) - 1

    services = list(spec['services'])
    gap = None
    if server['gap']:
        name = server['name'] if server['name'] is not None else 'Bluetoe-Server'
        app = server['appearance'] if server['appearance'] is not None else 0
        gap = {'uuid': [16, 0x1800], 'secondary': False, 'handle': 0, 'enc': None, 'includes': [], 'prio': [], 'gap': True, 'chars': [
            dict(uuid=[16, 0x2A00], vk='cstr', size=0, fixed=[ord(x) for x in name], var=-1, no_read=False, no_write=False, notify=False,
                 indicate=False, wwr=False, owwr=False, name=None, desc=None, enc=None, handles=None),
            dict(uuid=[16, 0x2A01], vk='fixed', size=2, fixed=[app & 0xff, app >> 8], var=-1, no_read=False, no_write=False, notify=False,
                 indicate=False, wwr=False, owwr=False, name=None, desc=None, enc=None, handles=None)]}
        services = services + [gap]
    for si, s in enumerate(services):
        first = add(A_SERVICE, [0x01, 0x28] if s['secondary'] else [0x00, 0x28], si, handle=s.get('handle', 0))
        for inc in s['includes']:
            add(A_INCLUDE, [0x02, 0x28], si, incl=inc)
        for c in s['chars']:
            ci = len(chrs)
            hd = c['handles']
            d_h = hd[1] if hd else 0
            v_h = hd[2] if hd and hd[0] == 'three' else 0
            c_h = hd[3] if hd and hd[0] == 'three' else 0
            decl = add(A_CHARDECL, [0x03, 0x28], si, ci, handle=d_h)
            val = add(A_VALUE, uuid_le(c['uuid']), si, ci, handle=v_h)
            cccd = -1
            if c['notify'] or c['indicate']:
                cccd = add(A_CCCD, [0x02, 0x29], si, ci, handle=c_h)
            if c['name'] is not None:
                add(A_USERDESC, [0x01, 0x29], si, ci, fixed=[ord(x) for x in c['name']])
            if c['desc']:
                add(A_DESCRIPTOR, [c['desc']['uuid'] & 0xff, c['desc']['uuid'] >> 8], si, ci, fixed=c['desc']['value'])
            in_gap = bool(s.get('gap'))
            enc = cascade(server['enc'], s['enc'], c['enc'])
            if in_gap and server['enc'] in ('req',):
                enc_code = 2
            else:
                enc_code = 1 if enc else 0
            chrs.append(dict(service=si, uuid=uuid_le(c['uuid']), vk=VK[c['vk']], var=c['var'], size=c['size'], fixed=c['fixed'] or [],
                             no_read=c['no_read'], no_write=c['no_write'], notify=c['notify'], indicate=c['indicate'], wwr=c['wwr'],
                             only_wwr=c['owwr'], enc=enc_code, decl_attr=decl, value_attr=val, cccd_attr=cccd,
                             by_uuid=not in_gap, in_gap=in_gap, scalar=c['vk'] == 'scalar'))
        svcs.append(dict(primary=not s['secondary'], uuid=uuid_le(s['uuid']), first_attr=first, last_attr=len(attrs) - 1,
                         includes=list(s['includes']), is_gap=bool(s.get('gap'))))
    adv = dict(
        automatic_adv=server['custom_adv'] is None, automatic_scan=server['custom_scan'] is None,
        name=server['name'] or '', has_name=server['name'] is not None,
        has_appearance=server['adv_appearance'], appearance=server['appearance'] or 0,
        uuids16=[[u & 0xff, u >> 8] for u in (server['adv16'] if server['adv16'] is not None else [s['uuid'][1] for s in spec['services'] if s['uuid'][0] == 16])],
        uuids128=[u128_le(u) for u in (server['adv128'] if server['adv128'] is not None else [s['uuid'][1] for s in spec['services'] if s['uuid'][0] == 128])],
        explicit16=server['adv16'] is not None, explicit128=server['adv128'] is not None,
        has_range=server['range'] is not None, range=server['range'] or [0, 0],
        custom_adv=server['custom_adv'] or [], custom_scan=server['custom_scan'] or [])
    n_vars = 1 + max([c['var'] for s in spec['services'] for c in s['chars']] + [-1])
    return dict(attrs=attrs, chrs=chrs, svcs=svcs, max_mtu=server['mtu'] or 23, queue=server['queue'], n_vars=n_vars,
                cccd_cb=server['cccd_cb'], adv=adv)


# ------------------------------------------------------------------------------------------------ C++ emission
def cpp_uuid(u, kind):
    if u[0] == 16:
        return 'bluetoe::%s_uuid16< 0x%04X >' % (kind, u[1])
    a, b, c, d, e = u128_args(u[1])
    return 'bluetoe::%s_uuid< 0x%08X, 0x%04X, 0x%04X, 0x%04X, 0x%012X >' % (kind, a, b, c, d, e)


def cbytes(v):
    return '{ ' + ', '.join('0x%02x' % x for x in v) + ' }' if v else '{}'


ENC = {'req': 'bluetoe::requires_encryption', 'noreq': 'bluetoe::no_encryption_required', 'may': 'bluetoe::may_require_encryption'}


def emit_cpp(spec, order_seed=0):
    """returns the adapter TU for the spec. order_seed permutes the order of options where the documentation says it is free."""
    sid = spec_id(spec)
    r = random.Random(order_seed or int(sid, 16))
    server = spec['server']
    db = build_db(spec)
    pre = []     # declarations before the server type
    ns = 'decl_' + sid
    # variables and handler stores
    var_decl = {}
    for s in spec['services']:
        for c in s['chars']:
            if c['var'] < 0:
                continue
            k = c['var']
            if c['vk'] == 'var':
                pre.append('std::uint8_t var%d[ %d ];' % (k, c['size']))
                var_decl[k] = ('var%d' % k, c['size'], 'mem')
            elif c['vk'] == 'scalar':
                t = {1: 'std::uint8_t', 2: 'std::uint16_t', 4: 'std::uint32_t'}[c['size']]
                pre.append('%s var%d;' % (t, k))
                var_decl[k] = ('var%d' % k, c['size'], 'mem')
            elif c['vk'] == 'constvar':
                pre.append('extern const std::uint32_t var%d = 0x%08xu;' % (k, 0x10203040 + k))
                var_decl[k] = ('var%d' % k, 4, 'const')
            else:
                var_decl[k] = ('store%d' % k, c['size'], 'store')
    n_vars = db['n_vars']

    svc_strs = []
    notify_cases = []
    chr_index = 0
    for si, s in enumerate(spec['services']):
        opts_head = [cpp_uuid(s['uuid'], 'service')]
        others = []
        if s['secondary']:
            others.append('bluetoe::is_secondary_service')
        if s['handle']:
            others.append('bluetoe::attribute_handle< 0x%04X >' % s['handle'])
        if s['enc']:
            others.append(ENC[s['enc']])
        incl = ['bluetoe::include_service< %s >' % cpp_uuid(spec['services'][i]['uuid'], 'service') for i in s['includes']]
        if s['prio']:
            others.append('bluetoe::higher_outgoing_priority< %s >' % ', '.join(cpp_uuid(s['chars'][i]['uuid'], 'characteristic') for i in s['prio']))
        chars = []
        for ci, c in enumerate(s['chars']):
            co = [cpp_uuid(c['uuid'], 'characteristic')]
            k = c['var']
            vk = c['vk']
            if vk == 'var':
                co.append('bluetoe::bind_characteristic_value< decltype( var%d ), &var%d >' % (k, k))
            elif vk == 'scalar':
                t = {1: 'std::uint8_t', 2: 'std::uint16_t', 4: 'std::uint32_t'}[c['size']]
                co.append('bluetoe::bind_characteristic_value< %s, &var%d >' % (t, k))
            elif vk == 'constvar':
                co.append('bluetoe::bind_characteristic_value< const std::uint32_t, &var%d >' % k)
            elif vk == 'fixed':
                val = sum(b << (8 * i) for i, b in enumerate(c['fixed']))
                co.append('bluetoe::fixed_uint%d_value< 0x%x >' % (c['size'] * 8, val))
            elif vk == 'cstr':
                pre.append('extern const char cstr_%d_%d[] = "%s";' % (si, ci, ''.join(chr(x) for x in c['fixed'])))
                co.append('bluetoe::cstring_value< cstr_%d_%d >' % (si, ci))
            elif vk == 'blob':
                pre.append('extern const std::uint8_t blob_%d_%d[] = %s;' % (si, ci, cbytes(c['fixed'])))
                co.append('bluetoe::fixed_blob_value< blob_%d_%d, %d >' % (si, ci, len(c['fixed'])))
            elif vk == 'hblob':
                co += ['bluetoe::free_read_blob_handler< &rd_blob< %d > >' % k, 'bluetoe::free_write_blob_handler< &wr_blob< %d > >' % k]
            elif vk == 'hraw':
                co += ['bluetoe::free_read_handler< &rd_raw< %d > >' % k, 'bluetoe::free_raw_write_handler< &wr_raw< %d > >' % k]
            elif vk == 'hwronly':
                co += ['bluetoe::free_raw_write_handler< &wr_raw< %d > >' % k]
            elif vk == 'hrdonly':
                co += ['bluetoe::free_read_handler< &rd_raw< %d > >' % k]
            for flag, text in (('no_read', 'bluetoe::no_read_access'), ('no_write', 'bluetoe::no_write_access'), ('notify', 'bluetoe::notify'),
                               ('indicate', 'bluetoe::indicate'), ('wwr', 'bluetoe::write_without_response'), ('owwr', 'bluetoe::only_write_without_response')):
                if c[flag]:
                    co.append(text)
            if c['name'] is not None:
                pre.append('extern const char cname_%d_%d[] = "%s";' % (si, ci, c['name']))
                co.append('bluetoe::characteristic_name< cname_%d_%d >' % (si, ci))
            if c['desc']:
                pre.append('extern const std::uint8_t desc_%d_%d[] = %s;' % (si, ci, cbytes(c['desc']['value'])))
                co.append('bluetoe::descriptor< 0x%04X, desc_%d_%d, %d >' % (c['desc']['uuid'], si, ci, len(c['desc']['value'])))
            if c['enc']:
                co.append(ENC[c['enc']])
            if c['handles']:
                if c['handles'][0] == 'one':
                    co.append('bluetoe::attribute_handle< 0x%04X >' % c['handles'][1])
                else:
                    co.append('bluetoe::attribute_handles< 0x%04X, 0x%04X, 0x%04X >' % tuple(c['handles'][1:4]))
            head, rest = co[0], co[1:]
            r.shuffle(rest)
            pos = r.randint(0, len(rest))
            rest.insert(pos, head)
            chars.append('bluetoe::characteristic<\n            ' + ',\n            '.join(rest) + ' >')
            # notification dispatch
            if c['notify'] or c['indicate']:
                uu = cpp_uuid(c['uuid'], 'characteristic')
                byvar = vk in ('var', 'scalar', 'constvar')
                lines = ['            case %d:' % chr_index]
                dup = bool(c.get('dup'))   # a later characteristic with the UUID of an earlier one can not be named by UUID
                if c['notify']:
                    if byvar:
                        lines.append('                if ( mode == 0 ) return srv->notify( var%d );' % k)
                    if not dup:
                        lines.append('                if ( mode == 1 ) return srv->template notify< %s >();' % uu)
                if c['indicate']:
                    if byvar:
                        lines.append('                if ( mode == 2 ) return srv->indicate( var%d );' % k)
                    if not dup:
                        lines.append('                if ( mode == 3 ) return srv->template indicate< %s >();' % uu)
                lines.append('                return -1;')
                notify_cases.append('\n'.join(lines))
            chr_index += 1
        r.shuffle(others)
        cut = r.randint(0, len(others))
        # include declarations keep their relative order (their attribute order is declaration order)
        body = others[:cut] + incl + chars + others[cut:]
        pos = r.randint(0, len(others[:cut]))
        body.insert(pos, opts_head[0])
        svc_strs.append('bluetoe::service<\n        ' + ',\n        '.join(body) + ' >')

    sopts = []
    if server['mtu']:
        sopts.append('bluetoe::max_mtu_size< %d >' % server['mtu'])
    if server['queue']:
        sopts.append('bluetoe::shared_write_queue< %d >' % server['queue'])
    if not server['gap']:
        sopts.append('bluetoe::no_gap_service_for_gatt_servers')
    if server['enc']:
        sopts.append(ENC[server['enc']])
    if server['name'] is not None:
        pre.append('extern const char server_name_str[] = "%s";' % server['name'])
        sopts.append('bluetoe::server_name< server_name_str >')
    if server['appearance'] is not None:
        sopts.append('bluetoe::device_appearance< 0x%04X >' % server['appearance'])
    if server['adv_appearance']:
        sopts.append('bluetoe::advertise_appearance')
    if server['adv16'] is not None:
        sopts.append('bluetoe::list_of_16_bit_service_uuids< %s >' % ', '.join('bluetoe::service_uuid16< 0x%04X >' % u for u in server['adv16']))
    if server['adv128'] is not None:
        sopts.append('bluetoe::list_of_128_bit_service_uuids< %s >' % ', '.join(cpp_uuid([128, u], 'service') for u in server['adv128']))
    if server['range']:
        sopts.append('bluetoe::peripheral_connection_interval_range< 0x%04X, 0x%04X >' % tuple(server['range']))
    if server['custom_adv'] is not None:
        n = max(1, len(server['custom_adv']))
        pre.append('extern const std::uint8_t custom_adv_bytes[ %d ] = %s;' % (n, cbytes(server['custom_adv'] or [0])))
        if not server['custom_adv']:
            db['adv']['custom_adv'] = [0]
        sopts.append('bluetoe::custom_advertising_data< %d, custom_adv_bytes >' % n)
    if server['custom_scan'] is not None:
        n = max(1, len(server['custom_scan']))
        pre.append('extern const std::uint8_t custom_scan_bytes[ %d ] = %s;' % (n, cbytes(server['custom_scan'] or [0])))
        if not server['custom_scan']:
            db['adv']['custom_scan'] = [0]
        sopts.append('bluetoe::custom_scan_response_data< %d, custom_scan_bytes >' % n)
    if server['cccd_cb']:
        sopts.append('bluetoe::client_characteristic_configuration_update_callback< cccd_cb_t, cccd_cb >')
    if server['prio']:
        sopts.append('bluetoe::higher_outgoing_priority< %s >' % ', '.join(cpp_uuid(spec['services'][i]['uuid'], 'service') for i in server['prio']))
    r.shuffle(sopts)
    cut = r.randint(0, len(sopts))
    all_opts = sopts[:cut] + svc_strs + sopts[cut:]

    # ---- database as C++ data
    dbl = []
    dbl.append('        d.id = "%s";' % sid)
    dbl.append('        d.spec = R"VGSPEC(%s)VGSPEC";' % json.dumps(spec, sort_keys=True, separators=(',', ':')))
    dbl.append('        d.max_mtu = %d; d.queue_size = %d; d.n_vars = %d; d.cccd_callback = %s;' % (db['max_mtu'], db['queue'], n_vars, 'true' if db['cccd_cb'] else 'false'))
    for a in db['attrs']:
        dbl.append('        d.attrs.push_back( vg::Attr{ %d, 0x%04x, %s, %d, %d, %d, %s, %s } );' % (
            a['kind'], a['handle'], cbytes(a['type']), a['service'], a['chr'], a['incl'], cbytes(a['fixed']), 'true' if a['fixed_handle'] else 'false'))
    for c in db['chrs']:
        dbl.append('        d.chrs.push_back( vg::Chr{ %d, %s, %d, %d, %d, %s, %s, %s, %s, %s, %s, %s, %d, %d, %d, %d, %s, %s } );' % (
            c['service'], cbytes(c['uuid']), c['vk'], c['var'], c['size'], cbytes(c['fixed']),
            *[('true' if c[k] else 'false') for k in ('no_read', 'no_write', 'notify', 'indicate', 'wwr', 'only_wwr')],
            c['enc'], c['decl_attr'], c['value_attr'], c['cccd_attr'], 'true' if c['by_uuid'] else 'false', 'true' if c['in_gap'] else 'false'))
    for s in db['svcs']:
        dbl.append('        d.svcs.push_back( vg::Svc{ %s, %s, %d, %d, { %s }, %s } );' % (
            'true' if s['primary'] else 'false', cbytes(s['uuid']), s['first_attr'], s['last_attr'], ', '.join(str(i) for i in s['includes']),
            'true' if s['is_gap'] else 'false'))
    a = db['adv']
    dbl.append('        d.adv.automatic_adv = %s; d.adv.automatic_scan = %s; d.adv.name = "%s"; d.adv.has_name = %s;' % (
        'true' if a['automatic_adv'] else 'false', 'true' if a['automatic_scan'] else 'false', a['name'], 'true' if a['has_name'] else 'false'))
    dbl.append('        d.adv.has_appearance = %s; d.adv.appearance = 0x%04x; d.adv.has_interval_range = %s; d.adv.interval_min = 0x%04x; d.adv.interval_max = 0x%04x;' % (
        'true' if a['has_appearance'] else 'false', a['appearance'], 'true' if a['has_range'] else 'false', a['range'][0], a['range'][1]))
    for u in a['uuids16']:
        dbl.append('        d.adv.uuids16.push_back( vg::bytes%s );' % cbytes(u))
    for u in a['uuids128']:
        dbl.append('        d.adv.uuids128.push_back( vg::bytes%s );' % cbytes(u))
    dbl.append('        d.adv.custom_adv = vg::bytes%s; d.adv.custom_scan = vg::bytes%s;' % (cbytes(a['custom_adv']), cbytes(a['custom_scan'])))
    dbl.append('        d.adv_explicit16 = %s; d.adv_explicit128 = %s;' % ('true' if a['explicit16'] else 'false', 'true' if a['explicit128'] else 'false'))

    get_cases, set_cases, init_lines = [], [], []
    for k, (name, size, how) in sorted(var_decl.items()):
        if how == 'mem':
            get_cases.append('            case %d: return vg::bytes( reinterpret_cast< const std::uint8_t* >( &%s ), reinterpret_cast< const std::uint8_t* >( &%s ) + %d );' % (k, name, name, size))
            set_cases.append('            case %d: std::memcpy( reinterpret_cast< void* >( &%s ), v.data(), std::min< std::size_t >( v.size(), %d ) ); break;' % (k, name, size))
            init_lines.append('        { std::uint8_t* p = reinterpret_cast< std::uint8_t* >( &%s ); std::uint32_t x = %du; for ( int i = 0; i != %d; ++i ) { x = x * 1103515245u + 12345u; p[ i ] = static_cast< std::uint8_t >( x >> 16 ); } }' % (name, 7919 * (k + 1), size))
        elif how == 'const':
            get_cases.append('            case %d: return vg::bytes( reinterpret_cast< const std::uint8_t* >( &%s ), reinterpret_cast< const std::uint8_t* >( &%s ) + 4 );' % (k, name, name))
        else:
            get_cases.append('            case %d: return vg_stores[ %d ].data;' % (k, k))
            set_cases.append('            case %d: vg_stores[ %d ].data = v; if ( vg_stores[ %d ].data.size() > vg_stores[ %d ].capacity ) vg_stores[ %d ].data.resize( vg_stores[ %d ].capacity ); break;' % (k, k, k, k, k, k))
            init_lines.append('        vg_stores[ %d ].capacity = %d; vg_stores[ %d ].data.clear(); { std::uint32_t x = %du; for ( int i = 0; i != %d; ++i ) { x = x * 1103515245u + 12345u; vg_stores[ %d ].data.push_back( static_cast< std::uint8_t >( x >> 16 ) ); } }' % (k, size, k, 104729 * (k + 1), max(1, size // 2), k))

    src = '''// generated by gattgen.py -- declaration %(sid)s
#include <bluetoe/server.hpp>
#include <bluetoe/service.hpp>
#include <bluetoe/characteristic.hpp>
#include <bluetoe/descriptor.hpp>
#include <bluetoe/link_state.hpp>
#include "gatt_if.hpp"
#include <memory>

namespace %(ns)s {

    struct store_t { vg::bytes data; std::size_t capacity = 0; };
    store_t vg_stores[ %(nstores)d ];
    std::vector< vg::HandlerCall > vg_handler_calls;
    std::vector< vg::CccdCall >    vg_cccd_calls;
    int vg_current_conn = 0;

    template < int K >
    std::uint8_t rd_blob( std::size_t offset, std::size_t read_size, std::uint8_t* out, std::size_t& out_size )
    {
        vg_handler_calls.push_back( vg::HandlerCall{ K, 0, int( offset ), int( read_size ), out == nullptr } );
        store_t& s = vg_stores[ K ];
        if ( offset > s.data.size() ) return bluetoe::error_codes::invalid_offset;
        out_size = std::min( read_size, s.data.size() - offset );
        std::copy( s.data.begin() + offset, s.data.begin() + offset + out_size, out );
        return bluetoe::error_codes::success;
    }
    template < int K >
    std::uint8_t wr_blob( std::size_t offset, std::size_t n, const std::uint8_t* v )
    {
        vg_handler_calls.push_back( vg::HandlerCall{ K, 1, int( offset ), int( n ), v == nullptr } );
        store_t& s = vg_stores[ K ];
        if ( offset > s.data.size() ) return bluetoe::error_codes::invalid_offset;
        if ( offset + n > s.capacity ) return bluetoe::error_codes::invalid_attribute_value_length;
        if ( n == 0 ) return bluetoe::error_codes::success;
        if ( s.data.size() < offset + n ) s.data.resize( offset + n );
        std::copy( v, v + n, s.data.begin() + offset );
        return bluetoe::error_codes::success;
    }
    template < int K >
    std::uint8_t rd_raw( std::size_t read_size, std::uint8_t* out, std::size_t& out_size )
    {
        vg_handler_calls.push_back( vg::HandlerCall{ K, 0, 0, int( read_size ), out == nullptr } );
        store_t& s = vg_stores[ K ];
        out_size = std::min( read_size, s.data.size() );
        std::copy( s.data.begin(), s.data.begin() + out_size, out );
        return bluetoe::error_codes::success;
    }
    template < int K >
    std::uint8_t wr_raw( std::size_t n, const std::uint8_t* v )
    {
        vg_handler_calls.push_back( vg::HandlerCall{ K, 1, 0, int( n ), v == nullptr } );
        store_t& s = vg_stores[ K ];
        if ( n > s.capacity ) return bluetoe::error_codes::invalid_attribute_value_length;
        if ( n == 0 ) { s.data.clear(); return bluetoe::error_codes::success; }
        s.data.assign( v, v + n );
        return bluetoe::error_codes::success;
    }

    struct cccd_cb_t
    {
        template < class Server >
        void client_characteristic_configuration_updated( Server&, const bluetoe::details::client_characteristic_configuration& )
        {
            vg_cccd_calls.push_back( vg::CccdCall{ vg_current_conn } );
        }
    } cccd_cb;

    %(pre)s

    using server_t = bluetoe::server<
    %(opts)s
    >;

    using conn_t = server_t::channel_data_t< bluetoe::details::link_state >;

    struct adapter : vg::ServerIf
    {
        std::unique_ptr< server_t > srv;
        std::unique_ptr< conn_t >   con[ 3 ];
        vg::Db                      d;

        adapter()
        {
%(db)s
        }

        const vg::Db& db() const override { return d; }

        static bool notify_cb( const bluetoe::details::notification_data& item, void* that, bluetoe::details::notification_type type )
        {
            adapter& self = *static_cast< adapter* >( that );
            bool result = false;
            bool first  = true;
            if ( type == bluetoe::details::notification_type::confirmation )
            {
                if ( self.con[ vg_current_conn ] )
                    self.con[ vg_current_conn ]->indication_confirmed();
                return true;
            }
            for ( auto& c : self.con )
            {
                if ( !c )
                    continue;
                const bool r = type == bluetoe::details::notification_type::notification
                    ? c->queue_notification( item.client_characteristic_configuration_index() )
                    : c->queue_indication( item.client_characteristic_configuration_index() );
                if ( first )
                    result = r;
                first = false;
            }
            return result;
        }

        void reset() override
        {
            srv.reset( new server_t );
            srv->notification_callback( &notify_cb, this );
            for ( auto& c : con )
                c.reset();
            vg_handler_calls.clear();
            vg_cccd_calls.clear();
            vg_current_conn = 0;
%(init)s
        }

        void connect( int c ) override { con[ c ].reset( new conn_t ); }
        void disconnect( int c ) override
        {
            if ( con[ c ] )
            {
                srv->client_disconnected( *con[ c ] );
                con[ c ].reset();
            }
        }
        void security( int c, int state ) override
        {
            con[ c ]->is_encrypted( state == 2 );
            con[ c ]->pairing_status( state == 0 ? bluetoe::device_pairing_status::no_key : bluetoe::device_pairing_status::unauthenticated_key );
        }
        void l2cap_input( int c, const std::uint8_t* in, std::size_t in_size, std::uint8_t* out, std::size_t& out_size ) override
        {
            vg_current_conn = c;
            srv->l2cap_input( in, in_size, out, out_size, *con[ c ] );
        }
        void l2cap_output( int c, std::uint8_t* out, std::size_t& out_size ) override
        {
            vg_current_conn = c;
            srv->l2cap_output( out, out_size, *con[ c ] );
        }
        int negotiated_mtu( int c ) override { return con[ c ]->negotiated_mtu(); }
        int notify( int chr, int mode ) override
        {
            static_cast< void >( mode );
            switch ( chr )
            {
%(notify)s
            default: break;
            }
            return -1;
        }
        std::size_t advertising_data( std::uint8_t* b, std::size_t n ) override { return srv->advertising_data( b, n ); }
        std::size_t scan_response_data( std::uint8_t* b, std::size_t n ) override { return srv->scan_response_data( b, n ); }
        vg::bytes get_var( int var ) override
        {
            switch ( var )
            {
%(get)s
            default: break;
            }
            return vg::bytes();
        }
        void set_var( int var, const vg::bytes& v ) override
        {
            static_cast< void >( v );
            switch ( var )
            {
%(set)s
            default: break;
            }
        }
        std::vector< vg::HandlerCall >& handler_calls() override { return vg_handler_calls; }
        std::vector< vg::CccdCall >&    cccd_calls() override { return vg_cccd_calls; }
        std::size_t number_of_attributes() override
        {
            std::size_t n = 0;
            while ( n < 2000 && server_t::handle_mapping::handle_by_index( n ) != 0 )
                ++n;
            return n;
        }
        std::uint16_t handle_by_index( std::size_t i ) override { return server_t::handle_mapping::handle_by_index( i ); }
        std::size_t   index_by_handle( std::uint16_t h ) override { return server_t::handle_mapping::index_by_handle( h ); }
        std::size_t   first_index_by_handle( std::uint16_t h ) override { return server_t::handle_mapping::first_index_by_handle( h ); }
    };

    adapter      the_adapter;
    vg::Register the_registration( &the_adapter );
}
''' % dict(sid=sid, ns=ns, nstores=max(1, n_vars), pre='\n    '.join(pre), opts=',\n    '.join('    ' + o for o in all_opts),
           db='\n'.join(dbl), init='\n'.join(init_lines), notify='\n'.join(notify_cases), get='\n'.join(get_cases), set='\n'.join(set_cases))
    return src


def main():
    import argparse
    ap = argparse.ArgumentParser()
    ap.add_argument('--seed', type=int, default=1)
    ap.add_argument('--count', type=int, default=1)
    ap.add_argument('--profile', default='default')
    ap.add_argument('--exclude', default='')
    ap.add_argument('--out', default='.')
    ap.add_argument('--from-spec')
    a = ap.parse_args()
    import os
    os.makedirs(a.out, exist_ok=True)
    specs = []
    if a.from_spec:
        specs = [json.loads(open(a.from_spec).read())]
    else:
        r = random.Random(a.seed * 7919 + sum(ord(c) for c in a.profile))
        for _ in range(a.count):
            specs.append(gen_spec(r, a.profile, tuple(x for x in a.exclude.split(',') if x)))
    for s in specs:
        sid = spec_id(s)
        with open(os.path.join(a.out, 'decl_%s.cpp' % sid), 'w') as f:
            f.write(emit_cpp(s))
        print(sid)


if __name__ == '__main__':
    main()
