// C23 (component level): bluetoe::link_layer::details::peripheral_latency_state<...> against plain integer arithmetic
// (DESIGN.md section 4, C23)
//
// Configurations (index is part of the case): every subset of the five listen_if_* options (32), listen_always, and two
// peripheral_latency_configuration_set<> of three configurations each that are switched at run time.
// Operations (one per line):
//   plan <latency> <flags> <instant|->   plan_next_connection_event(); flags bit0 unacknowledged_data, 1 last_received_not_empty,
//                                        2 last_transmitted_not_empty, 3 last_received_had_more_data, 4 pending_outgoing_data,
//                                        5 error_occured; instant is given as distance from the counter of the event that just ended
//   warp <k>                             k times plan 499 0 -   (moves the 16 bit counter towards its wrap quickly)
//   land <d>                             plans (499 0 - as often as needed, then one exact one) until the counter is 65535-d
//   timeout                              plan_next_connection_event_after_timeout()
//   resched <ok> <events> <offset>       reschedule_on_pending_data() with a toy radio whose disarm_connection_event() answers
//                                        { ok, elapsed } with elapsed = time that certainly passed + events*interval + offset,
//                                        clipped to just before the planned event
//   reset                                reset_connection_state()
//   change <i>                           change_peripheral_latency< i-th configuration >() (configuration sets only)
// Oracle: integers only. n = events advanced by a plan in 1..latency+1; n == 1 if a listen condition of the configuration in
// force held, on error_occured, with listen_always; n <= distance to a pending instant that lies ahead; counter += n (mod 2^16),
// channel index += n (mod 37), time_since_last_event == n*interval (timeouts: += interval). A pull-back moves counter, channel
// index and time back together by k events, never before the first event after the last one that took place and never before the
// time the radio reported; a refused pull-back changes nothing.
#include "verif.hpp"

#include <bluetoe/meta_tools.hpp>
#include <bluetoe/delta_time.hpp>
#include <bluetoe/channel_map.hpp>
#include <bluetoe/peripheral_latency.hpp>

#include <memory>

namespace {
    namespace ll = bluetoe::link_layer;
    using PL     = ll::peripheral_latency;

    // ---------------------------------------------------------------- configurations
    constexpr PL option_at[ 5 ] = { PL::listen_if_pending_transmit_data, PL::listen_if_unacknowledged_data, PL::listen_if_last_received_not_empty,
        PL::listen_if_last_transmitted_not_empty, PL::listen_if_last_received_had_more_data };
    // model side: which bit of the `flags` of a plan op triggers which option bit
    //   option bit 0 pending_transmit_data      <- flags bit 4 (pending_outgoing_data)
    //   option bit 1 unacknowledged_data        <- flags bit 0
    //   option bit 2 last_received_not_empty    <- flags bit 1
    //   option bit 3 last_transmitted_not_empty <- flags bit 2
    //   option bit 4 last_received_had_more_data<- flags bit 3
    constexpr int flag_of_option[ 5 ] = { 4, 0, 1, 2, 3 };

    template < unsigned Mask, unsigned Bit, PL... Acc >
    struct build;
    template < unsigned Mask, unsigned Bit, bool Take, PL... Acc >
    struct build_step;
    template < unsigned Mask, unsigned Bit, PL... Acc >
    struct build_step< Mask, Bit, true, Acc... > : build< Mask, Bit + 1, Acc..., option_at[ Bit ] >
    {
    };
    template < unsigned Mask, unsigned Bit, PL... Acc >
    struct build_step< Mask, Bit, false, Acc... > : build< Mask, Bit + 1, Acc... >
    {
    };
    template < unsigned Mask, unsigned Bit, PL... Acc >
    struct build : build_step< Mask, Bit, ( ( Mask >> Bit ) & 1 ) != 0, Acc... >
    {
    };
    template < unsigned Mask, PL... Acc >
    struct build< Mask, 5, Acc... >
    {
        using type = ll::peripheral_latency_configuration< Acc... >;
    };
    template < unsigned Mask >
    using cfg_of = typename build< Mask, 0 >::type;

    struct toy_radio
    {
        std::pair< bool, ll::delta_time > answer;
        int                               calls = 0;
        std::pair< bool, ll::delta_time > disarm_connection_event()
        {
            ++calls;
            return answer;
        }
    };

    struct st_if
    {
        virtual ~st_if() {}
        virtual void          reset()                                                                                            = 0;
        virtual void          plan( std::uint16_t, ll::connection_event_events, ll::delta_time, std::pair< bool, std::uint16_t > ) = 0;
        virtual void          timeout( ll::delta_time )                                                                          = 0;
        virtual bool          resched( toy_radio&, ll::delta_time )                                                              = 0;
        virtual void          change( int )                                                                                      = 0;
        virtual unsigned      chan() const                                                                                       = 0;
        virtual std::uint16_t counter() const                                                                                    = 0;
        virtual std::uint32_t tsl() const                                                                                        = 0;
    };

    template < class Config >
    struct st_single : st_if
    {
        ll::details::peripheral_latency_state< Config > s;
        void          reset() override { s.reset_connection_state(); }
        void          plan( std::uint16_t l, ll::connection_event_events e, ll::delta_time i, std::pair< bool, std::uint16_t > p ) override { s.plan_next_connection_event( l, e, i, p ); }
        void          timeout( ll::delta_time i ) override { s.plan_next_connection_event_after_timeout( i ); }
        bool          resched( toy_radio& r, ll::delta_time i ) override { return s.reschedule_on_pending_data( r, i ); }
        void          change( int ) override {}
        unsigned      chan() const override { return s.current_channel_index(); }
        std::uint16_t counter() const override { return s.connection_event_counter(); }
        std::uint32_t tsl() const override { return s.time_since_last_event().usec(); }
    };

    template < class C0, class C1, class C2 >
    struct st_set : st_if
    {
        ll::details::peripheral_latency_state< ll::peripheral_latency_configuration_set< C0, C1, C2 > > s;
        void          reset() override { s.reset_connection_state(); }
        void          plan( std::uint16_t l, ll::connection_event_events e, ll::delta_time i, std::pair< bool, std::uint16_t > p ) override { s.plan_next_connection_event( l, e, i, p ); }
        void          timeout( ll::delta_time i ) override { s.plan_next_connection_event_after_timeout( i ); }
        bool          resched( toy_radio& r, ll::delta_time i ) override { return s.reschedule_on_pending_data( r, i ); }
        void          change( int i ) override
        {
            switch ( i % 3 )
            {
            case 0: s.template change_peripheral_latency< C0 >(); break;
            case 1: s.template change_peripheral_latency< C1 >(); break;
            default: s.template change_peripheral_latency< C2 >(); break;
            }
        }
        unsigned      chan() const override { return s.current_channel_index(); }
        std::uint16_t counter() const override { return s.connection_event_counter(); }
        std::uint32_t tsl() const override { return s.time_since_last_event().usec(); }
    };

    constexpr unsigned ALWAYS = 0x100;   // model: listen_always

    struct config
    {
        std::string                                 name;
        std::vector< unsigned >                     masks;   // option mask per sub configuration ( | ALWAYS )
        std::function< std::unique_ptr< st_if >() > make;
    };

    template < unsigned Mask >
    config single()
    {
        return config{ verif::cat( "options=0x", std::hex, Mask ), { Mask }, [] { return std::unique_ptr< st_if >( new st_single< cfg_of< Mask > >() ); } };
    }

    template < unsigned... Masks >
    void add_singles( std::vector< config >& c )
    {
        int dummy[] = { ( c.push_back( single< Masks >() ), 0 )... };
        static_cast< void >( dummy );
    }

    const std::vector< config >& configs()
    {
        static const std::vector< config > c = [] {
            std::vector< config > r;
            add_singles< 0, 1, 2, 3, 4, 5, 6, 7, 8, 9, 10, 11, 12, 13, 14, 15, 16, 17, 18, 19, 20, 21, 22, 23, 24, 25, 26, 27, 28, 29, 30, 31 >( r );
            r.push_back( config{ "listen_always", { ALWAYS }, [] { return std::unique_ptr< st_if >( new st_single< ll::peripheral_latency_ignored >() ); } } );
            // set A: { pending only, {unack, rx-not-empty, md}, ignored }
            r.push_back( config{ "set{0x01,0x16,always}", { 0x01, 0x16, ALWAYS },
                [] { return std::unique_ptr< st_if >( new st_set< cfg_of< 0x01 >, cfg_of< 0x16 >, ll::peripheral_latency_ignored >() ); } } );
            // set B: the three named configurations of the documentation: strict, strict_plus, default
            r.push_back( config{ "set{strict,strict_plus,default}", { 0x11, 0x14, 0x1f },
                [] { return std::unique_ptr< st_if >( new st_set< ll::peripheral_latency_strict, ll::peripheral_latency_strict_plus, ll::periperal_latency_default_configuration >() ); } } );
            // set C: no configuration with listen_if_pending_transmit_data
            r.push_back( config{ "set{0x02,0x0c,0x00}", { 0x02, 0x0c, 0x00 },
                [] { return std::unique_ptr< st_if >( new st_set< cfg_of< 0x02 >, cfg_of< 0x0c >, cfg_of< 0x00 > >() ); } } );
            return r;
        }();
        return c;
    }

    // ---------------------------------------------------------------- case
    enum op_kind { PLAN, WARP, TIMEOUT, RESCHED, RESET, CHANGE, LAND };

    struct Op
    {
        int kind    = PLAN;
        int latency = 0;
        int flags   = 0;
        int inst    = -1;   // -1: none, otherwise distance 0..65535
        int ok      = 0;
        int events  = 0;
        int offset  = 0;
        int arg     = 0;    // warp count / configuration index
    };

    struct Case
    {
        int               cfg      = 0;
        unsigned          interval = 30000;   // us
        std::vector< Op > ops;
    };

    rc::Gen< int > gen_latency()
    {
        return rc::gen::weightedOneOf< int >( { { 4, verif::range< int >( 0, 6 ) }, { 3, verif::range< int >( 0, 499 ) }, { 1, rc::gen::element< int >( 0, 1, 36, 37, 38, 73, 74, 498, 499 ) } } );
    }

    rc::Gen< int > gen_flags()
    {
        return rc::gen::weightedOneOf< int >( { { 5, rc::gen::just( 0 ) }, { 4, rc::gen::element< int >( 1, 2, 4, 8, 16, 32 ) }, { 3, verif::range< int >( 0, 63 ) } } );
    }

    rc::Gen< int > gen_inst()
    {
        return rc::gen::weightedOneOf< int >( { { 8, rc::gen::just( -1 ) }, { 2, rc::gen::element< int >( 1, 2 ) }, { 4, verif::range< int >( 0, 12 ) }, { 2, verif::range< int >( 13, 600 ) },
            { 1, verif::range< int >( 32700, 32800 ) }, { 1, verif::range< int >( 65000, 65535 ) }, { 1, verif::range< int >( 0, 65535 ) } } );
    }

    rc::Gen< Op > gen_op()
    {
        return rc::gen::mapcat( rc::gen::weightedElement< int >( { { 12, PLAN }, { 1, WARP }, { 3, TIMEOUT }, { 8, RESCHED }, { 1, RESET }, { 2, CHANGE }, { 1, LAND } } ), []( int k ) -> rc::Gen< Op > {
            switch ( k )
            {
            case PLAN:
                return rc::gen::build< Op >( rc::gen::set( &Op::kind, rc::gen::just( k ) ), rc::gen::set( &Op::latency, gen_latency() ), rc::gen::set( &Op::flags, gen_flags() ),
                    rc::gen::set( &Op::inst, gen_inst() ) );
            case WARP:
                return rc::gen::build< Op >( rc::gen::set( &Op::kind, rc::gen::just( k ) ),
                    rc::gen::set( &Op::arg, rc::gen::weightedOneOf< int >( { { 1, verif::range< int >( 0, 10 ) }, { 3, verif::range< int >( 125, 131 ) } } ) ) );
            case RESCHED:
                return rc::gen::build< Op >( rc::gen::set( &Op::kind, rc::gen::just( k ) ), rc::gen::set( &Op::ok, rc::gen::weightedElement< int >( { { 4, 1 }, { 1, 0 } } ) ),
                    rc::gen::set( &Op::events, rc::gen::weightedOneOf< int >( { { 5, verif::range< int >( 0, 5 ) }, { 2, verif::range< int >( 0, 500 ) } } ) ),
                    rc::gen::set( &Op::offset, rc::gen::weightedOneOf< int >( { { 2, rc::gen::just( 0 ) }, { 1, rc::gen::just( 1 ) }, { 3, verif::range< int >( 0, 4000000 ) } } ) ) );
            case CHANGE: return rc::gen::build< Op >( rc::gen::set( &Op::kind, rc::gen::just( k ) ), rc::gen::set( &Op::arg, verif::range< int >( 0, 2 ) ) );
            case LAND: return rc::gen::build< Op >( rc::gen::set( &Op::kind, rc::gen::just( k ) ), rc::gen::set( &Op::arg, rc::gen::weightedOneOf< int >( { { 3, verif::range< int >( 0, 3 ) }, { 1, verif::range< int >( 0, 40 ) } } ) ) );
            default: return rc::gen::build< Op >( rc::gen::set( &Op::kind, rc::gen::just( k ) ) );
            }
        } );
    }

    rc::Gen< Case > gen_case()
    {
        return rc::gen::build< Case >(
            // the sets get a larger share than one of 36
            rc::gen::set( &Case::cfg, rc::gen::weightedOneOf< int >( { { 6, verif::range< int >( 0, 32 ) }, { 2, verif::range< int >( 33, static_cast< int >( configs().size() ) - 1 ) },
                                          { 1, rc::gen::element< int >( 1, 17, 31 ) } } ) ),
            rc::gen::set( &Case::interval, rc::gen::weightedOneOf< unsigned >( { { 2, rc::gen::element< unsigned >( 7500u, 30000u, 4000000u ) },
                                               { 1, rc::gen::map( verif::range< unsigned >( 6, 3200 ), []( unsigned u ) { return u * 1250u; } ) } } ) ),
            rc::gen::set( &Case::ops, rc::gen::container< std::vector< Op > >( gen_op() ) ) );
    }

    std::string to_text( const Case& c )
    {
        std::ostringstream os;
        os << "cfg " << c.cfg << " " << c.interval << "  # " << configs()[ c.cfg ].name << " interval_us=" << c.interval << "\n";
        for ( auto& o : c.ops )
        {
            switch ( o.kind )
            {
            case PLAN:
                os << "plan " << o.latency << " " << o.flags << " ";
                if ( o.inst < 0 )
                    os << "-";
                else
                    os << o.inst;
                os << "\n";
                break;
            case WARP: os << "warp " << o.arg << "\n"; break;
            case LAND: os << "land " << o.arg << "\n"; break;
            case TIMEOUT: os << "timeout\n"; break;
            case RESCHED: os << "resched " << o.ok << " " << o.events << " " << o.offset << "\n"; break;
            case RESET: os << "reset\n"; break;
            case CHANGE: os << "change " << o.arg << "\n"; break;
            }
        }
        return os.str();
    }

    Case from_text( const std::string& t )
    {
        Case         c;
        verif::Lines L( t );
        for ( auto& l : L.lines )
        {
            Op o;
            if ( l[ 0 ] == "cfg" )
            {
                c.cfg      = static_cast< int >( verif::tok_int( l, 1 ) ) % static_cast< int >( configs().size() );
                c.interval = static_cast< unsigned >( verif::tok_int( l, 2, 30000 ) );
                if ( c.interval == 0 )
                    c.interval = 30000;
                continue;
            }
            else if ( l[ 0 ] == "plan" )
            {
                o.kind    = PLAN;
                o.latency = static_cast< int >( verif::tok_int( l, 1 ) ) % 500;
                o.flags   = static_cast< int >( verif::tok_int( l, 2 ) ) & 63;
                o.inst    = verif::tok_str( l, 3 ) == "-" ? -1 : static_cast< int >( verif::tok_int( l, 3 ) ) & 0xffff;
            }
            else if ( l[ 0 ] == "warp" )
            {
                o.kind = WARP;
                o.arg  = static_cast< int >( verif::tok_int( l, 1 ) ) % 200;
            }
            else if ( l[ 0 ] == "land" )
            {
                o.kind = LAND;
                o.arg  = static_cast< int >( verif::tok_int( l, 1 ) ) % 500;
            }
            else if ( l[ 0 ] == "timeout" )
                o.kind = TIMEOUT;
            else if ( l[ 0 ] == "resched" )
            {
                o.kind   = RESCHED;
                o.ok     = static_cast< int >( verif::tok_int( l, 1 ) ) & 1;
                o.events = static_cast< int >( verif::tok_int( l, 2 ) ) % 1000;
                o.offset = static_cast< int >( verif::tok_int( l, 3 ) );
            }
            else if ( l[ 0 ] == "reset" )
                o.kind = RESET;
            else if ( l[ 0 ] == "change" )
            {
                o.kind = CHANGE;
                o.arg  = static_cast< int >( verif::tok_int( l, 1 ) ) % 3;
            }
            else
                continue;
            c.ops.push_back( o );
        }
        return c;
    }

    // ---------------------------------------------------------------- run
    void run( const Case& c, verif::Report& rep )
    {
        const config&          cf = configs()[ c.cfg ];
        auto                   st = cf.make();
        const std::uint64_t    I  = c.interval;
        const ll::delta_time   interval( c.interval );
        st->reset();

        // model (plain integers)
        unsigned      counter = 0, chan = 0;
        std::uint64_t tsl     = 0;       // time_since_last_event in us
        std::uint64_t passed  = 0;       // part of tsl that has certainly passed already (timed out events)
        std::uint64_t floor_  = 0;       // earliest position the planned event may be pulled back to
        bool          planned = false;   // there is a planned event (something to reschedule)
        int           current = 0;       // configuration of a set in force
        unsigned      last_latency = 0;  // latency of the last plan

        bool any_pull = false, any_cond_listen = false, any_skip = false, instant_limited = false, wrapped = false, refused_by_radio = false, pull_after_timeout = false,
             second_pull = false, pulled_since_plan = false, error_listen = false;

        V_CHECK( st->counter() == 0 && st->chan() == 0 && st->tsl() == 0, "latency.reset", "state after reset_connection_state() is not 0/0/0" );

        auto observe = [&]( std::size_t step, const char* what ) {
            V_CHECK( st->counter() == ( counter & 0xffff ), "latency.counter", "step ", step, " ", what, ": connection_event_counter() == ", st->counter(), ", expected ", counter & 0xffff );
            V_CHECK( st->chan() == chan, "latency.channel-index", "step ", step, " ", what, ": current_channel_index() == ", st->chan(), ", expected ", chan, " (counter ", counter & 0xffff, ")" );
            V_CHECK( st->tsl() == tsl, "latency.time", "step ", step, " ", what, ": time_since_last_event() == ", st->tsl(), "us, expected ", tsl, "us" );
        };

        auto do_plan = [&]( std::size_t step, int latency, int flags, int inst ) {
            ll::connection_event_events e;
            e.unacknowledged_data         = ( flags & 1 ) != 0;
            e.last_received_not_empty     = ( flags & 2 ) != 0;
            e.last_transmitted_not_empty  = ( flags & 4 ) != 0;
            e.last_received_had_more_data = ( flags & 8 ) != 0;
            e.pending_outgoing_data       = ( flags & 16 ) != 0;
            e.error_occured               = ( flags & 32 ) != 0;

            const unsigned mask       = cf.masks[ cf.masks.size() == 1 ? 0 : current ];
            bool           cond       = ( mask & ALWAYS ) != 0;
            for ( int o = 0; o != 5; ++o )
                if ( ( mask >> o ) & 1 && ( flags >> flag_of_option[ o ] ) & 1 )
                    cond = true;
            const bool must_listen = cond || e.error_occured;

            const bool          has_inst = inst >= 0;
            const std::uint16_t instant  = static_cast< std::uint16_t >( counter + ( has_inst ? inst : 0 ) );
            const unsigned      before   = counter & 0xffff;

            st->plan( static_cast< std::uint16_t >( latency ), e, interval, { has_inst, instant } );

            const unsigned n = ( st->counter() - before ) & 0xffff;
            auto ctx = [&] { return verif::cat( "step ", step, " plan(latency ", latency, ", flags ", flags, ", instant ", has_inst ? verif::cat( "+", inst ) : std::string( "none" ), ") [", cf.name,
                cf.masks.size() > 1 ? verif::cat( " current=", current ) : std::string(), "] at counter ", before, ": " ); };
            V_CHECK( n >= 1, "latency.advance", ctx(), "the event counter did not advance" );
            V_CHECK_SIG( n <= static_cast< unsigned >( latency ) + 1, "latency.skipped-too-many", verif::cat( "n=", n ), ctx(), n, " events advanced, more than latency + 1" );
            V_CHECK_SIG( !must_listen || n == 1, "latency.listen-condition", verif::cat( "flags=", flags, " mask=", mask ), ctx(), n,
                " events advanced although a listen condition held (options mask 0x", std::hex, mask, std::dec, e.error_occured ? ", error_occured" : "", ")" );
            if ( has_inst && inst >= 1 && inst <= 32766 )
                V_CHECK_SIG( n <= static_cast< unsigned >( inst ), "latency.instant-skipped", verif::cat( "dist=", inst ), ctx(), n, " events advanced, the pending instant ", inst,
                    " events ahead was skipped" );

            if ( counter + n > 0xffff )
                wrapped = true;
            counter = ( counter + n ) & 0xffff;
            chan    = ( chan + n ) % 37;
            tsl     = n * I;
            passed  = 0;
            floor_  = I;
            planned = true;
            last_latency      = static_cast< unsigned >( latency );
            pulled_since_plan = false;
            observe( step, "after plan" );

            if ( must_listen && latency > 0 )
            {
                any_cond_listen = true;
                if ( e.error_occured && !cond )
                    error_listen = true;
            }
            if ( n > 1 )
                any_skip = true;
            if ( has_inst && inst >= 1 && inst <= 32766 && static_cast< unsigned >( inst ) <= static_cast< unsigned >( latency ) && !must_listen )
                instant_limited = true;
        };

        for ( std::size_t step = 0; step != c.ops.size(); ++step )
        {
            const Op& o = c.ops[ step ];
            switch ( o.kind )
            {
            case PLAN: do_plan( step, o.latency, o.flags, o.inst ); break;
            case WARP:
                for ( int i = 0; i != o.arg; ++i )
                    do_plan( step, 499, 0, -1 );
                break;
            case LAND: {
                // flags 0 does not force a listen only for configurations without listen_always: the walk is bounded
                const unsigned target = ( 65535u - static_cast< unsigned >( o.arg ) ) & 0xffff;
                for ( int guard = 0; guard != 140 && counter != target; ++guard )
                {
                    const unsigned dist = ( target - counter ) & 0xffff;
                    do_plan( step, dist > 500 ? 499 : static_cast< int >( dist ) - 1, 0, -1 );
                }
            }
            break;
            case TIMEOUT:
                if ( tsl + I > 4000000000ull )
                    break;   // delta_time is 32 bit; no connection lives that long without an event (supervision timeout <= 32 s)
                st->timeout( interval );
                passed = tsl;
                counter = ( counter + 1 ) & 0xffff;
                if ( counter == 0 )
                    wrapped = true;
                chan    = ( chan + 1 ) % 37;
                tsl += I;
                floor_  = tsl;
                planned = true;
                observe( step, "after timeout" );
                break;
            case RESCHED: {
                if ( !planned )
                    break;   // precondition: a connection event is pending on the radio
                std::uint64_t elapsed = passed + static_cast< std::uint64_t >( o.events ) * I + static_cast< std::uint64_t >( o.offset );
                if ( elapsed > tsl - 1 )
                    elapsed = tsl - 1;
                toy_radio radio;
                radio.answer = { o.ok != 0, ll::delta_time( static_cast< std::uint32_t >( elapsed ) ) };

                const bool moved = st->resched( radio, interval );
                const unsigned      counter_before = counter;
                const std::uint64_t tsl_before     = tsl;
                auto ctx = [&] { return verif::cat( "step ", step, " reschedule_on_pending_data(radio answers {", o.ok, ", ", elapsed, "us}) [", cf.name, "] planned event at counter ",
                    counter_before, " in ", tsl_before, "us, interval ", I, "us: " ); };

                V_CHECK( radio.calls <= 1, "latency.pull-back", ctx(), "disarm_connection_event() called ", radio.calls, " times" );
                const bool documented_disarm = cf.masks.size() > 1 || ( cf.masks[ 0 ] & 1 );
                if ( !documented_disarm )
                    V_CHECK( !moved && radio.calls == 0, "latency.pull-back", ctx(), "a configuration without listen_if_pending_transmit_data used the radio / moved the event" );
                if ( radio.calls == 0 || !o.ok )
                    V_CHECK( !moved, "latency.pull-back", ctx(), "returned true although the radio did not disarm the event" );

                if ( !moved )
                {
                    observe( step, "after a refused reschedule" );
                    if ( radio.calls && !o.ok )
                        refused_by_radio = true;
                    if ( pulled_since_plan )
                        second_pull = true;
                    break;
                }

                const unsigned k = ( counter - st->counter() ) & 0xffff;
                V_CHECK_SIG( k <= 499, "latency.pull-back", verif::cat( "k=", k ), ctx(), "the event counter moved by ", static_cast< int >( static_cast< std::int16_t >( st->counter() - counter ) ) );
                V_CHECK_SIG( k * I <= tsl && tsl - k * I >= floor_, "latency.pull-back-too-far", verif::cat( "k=", k ), ctx(), "pulled back by ", k,
                    " events: before the first event that can still take place (", floor_, "us after the last anchor)", pulled_since_plan ? "; the event had been pulled back before" : "" );
                V_CHECK_SIG( tsl - k * I >= elapsed, "latency.pull-back-into-past", verif::cat( "k=", k ), ctx(), "pulled back by ", k, " events to ", tsl - k * I,
                    "us, earlier than the time that already passed" );
                // a pull back that is clearly possible happens (two whole intervals of slack)
                const unsigned mask_now = cf.masks[ cf.masks.size() == 1 ? 0 : current ];
                if ( ( mask_now & 1 ) && passed == 0 && ( elapsed + I - 1 ) / I + 2 <= tsl / I && !pulled_since_plan )
                    V_CHECK( k >= 1, "latency.pull-back-effective", ctx(), "the radio disarmed the event early enough, but the event was not moved" );

                if ( k > counter )
                    wrapped = true;
                counter = ( counter - k ) & 0xffff;
                chan    = ( chan + 37 * 20 - k ) % 37;
                tsl -= k * I;
                observe( step, "after pull-back" );

                if ( k > 0 )
                    any_pull = true;
                if ( passed != 0 )
                    pull_after_timeout = true;
                if ( pulled_since_plan )
                    second_pull = true;
                pulled_since_plan = true;
            }
            break;
            case RESET:
                st->reset();
                counter = chan = 0;
                tsl = passed = floor_ = 0;
                planned = false;
                observe( step, "after reset" );
                break;
            case CHANGE:
                st->change( o.arg );
                if ( cf.masks.size() > 1 )
                    current = o.arg % 3;
                observe( step, "after change_peripheral_latency" );
                break;
            }
        }
        static_cast< void >( last_latency );

        rep.nontrivial = any_skip && ( any_pull || any_cond_listen );
        rep.label( cf.masks.size() > 1 ? "configuration-set" : ( cf.masks[ 0 ] & ALWAYS ) ? "listen_always" : ( cf.masks[ 0 ] & 1 ) ? "single/with-pending-option" : "single/without-pending-option" );
        rep.label_if( any_skip, "events-skipped" );
        rep.label_if( any_pull, "pulled-back(k>0)" );
        rep.label_if( any_cond_listen, "condition-forced-listen(latency>0)" );
        rep.label_if( error_listen, "error-only-forced-listen" );
        rep.label_if( instant_limited, "instant-limits-the-skip" );
        rep.label_if( wrapped, "counter-wrapped" );
        rep.label_if( refused_by_radio, "radio-refused-disarm" );
        rep.label_if( pull_after_timeout, "reschedule-after-timeout" );
        rep.label_if( second_pull, "second-reschedule-of-one-event(refused or moved)" );
    }
}

// a sanitizer report must not look like an oracle failure (exit code 1) to the driver
extern "C" const char* __asan_default_options() { return "exitcode=86"; }

int main( int argc, char** argv )
{
    verif::Harness< Case > h;
    h.gen       = gen_case;
    h.to_text   = to_text;
    h.from_text = from_text;
    h.run       = run;
    return verif::run_main( argc, argv, h );
}
