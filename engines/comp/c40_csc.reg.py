target('c40_csc', 'engines/comp/c40_csc.cpp',
       quick=dict(cases=300000, size=60), thorough=dict(cases=600000, size=120))
prop('C40', ['c40_csc'], 'comp',
     rule='rapidcheck picks one of 4 server configurations with the cycling_speed_and_cadence service (wheel + two sensor locations, the same with '
          'a shared write queue, wheel + one location, crank + two locations) and a sequence (length grows with the rapidcheck size) of control '
          'point writes (well formed procedures of every opcode, every kind of wrong length, unknown opcodes 0..0xff, empty and random values; '
          'by Write Request and by Prepare+Execute Write), CCCD writes for the control point and the measurement, application confirmations of '
          'Set Cumulative Value (inside the callback or later), measurement notifications, output polls, confirmations, Read Requests on the '
          'control point and disconnect/reconnect; the harness plays link layer and client; every case ends with a drain and a probe procedure; '
          'non-trivial: a well formed procedure was accepted after a refused or malformed control point write; distinct = distinct serialised cases',
     technique='model-based property testing (rapidcheck) of the CSC control point against a reference "procedure pending" flag',
     level_text='every Write / Execute Write Response and every PDU polled from the server is compared with the reference: a write is refused while an '
                'accepted procedure waits for its response indication and a well formed write is accepted otherwise (whatever was refused before), '
                'writes without enabled indications or without opcode are refused, each accepted procedure is followed by exactly one indication '
                '`10 <request opcode> <result>` before any other control point indication, nothing is emitted without an accepted procedure, and '
                'after the final drain a probe procedure is accepted. Sampling of histories, not proof.',
     level_note='trusted: the reference model in engines/comp/c40_csc.cpp and its notion of well formed (length 5/2/1 for opcodes 1/3/4, any length for '
                'unknown opcodes); error codes and result codes are not asserted; after the client disables the indications while a response is '
                'pending both answers are accepted until the next accepted procedure (unspecified); link layer and queueing are played by the harness',
     assumptions=COMMON_ASSUME)
