// C31: L2CAP channel multiplexing and signalling -- case description, stacks under test and oracle
// shared by the rapidcheck harness (c31_l2cap.cpp) and the libFuzzer target (c31_l2cap_fuzz.cpp).
//
// Three set-ups behind one interface (Case::setup):
//   0  l2cap< LL, chan_data, stub<4>, signaling_channel<>, stub<6> >     multiplexing oracle + signalling oracle
//   1  l2cap< LL, link_state, server<...>, signaling_channel<>, no_security_manager::impl >     (real channels)
//   2  l2cap< LL, link_state, server<...>, signaling_channel<>, legacy_security_manager::impl > (real channels, toy toolbox)
//      real channels: no assert / sanitizer report, every committed frame lies inside the allocated buffer, carries a
//      consistent length field and the CID of the frame it answers; the signalling oracle runs here as well.
//
// The harness link layer follows the contract of the real link layer (link_layer::allocate_l2cap_output_buffer):
// a request for `size` payload bytes is answered with a buffer of size + 4 (+ slack) bytes or with { 0, nullptr };
// an allocation that is not committed costs nothing. Every buffer is an exact-size heap block (ASan sees a write
// behind it), every input frame is an exact-size heap copy (ASan sees a read behind it).
//
// Oracle sources: Core Vol 3 Part A 3.1 (B-frame: length, CID, payload), 4 (C-frame: code, identifier, length;
// identifier 0x00 is illegal; a different identifier for each successive command, recycled only after all others
// were used), 4.1 (Command Reject echoes the identifier of the rejected command), 4.20/4.21 (Connection Parameter
// Update Request/Response), the interface description in bluetoe/l2cap.hpp and the statement of C31.
#pragma once

#include "verif.hpp"

#include <bluetoe/server.hpp>
#include <bluetoe/l2cap.hpp>
#include <bluetoe/l2cap_signaling_channel.hpp>
#include <bluetoe/link_state.hpp>
#include <bluetoe/security_manager.hpp>
#include <bluetoe/address.hpp>

#include <deque>
#include <memory>

namespace c31 {

    using bytes_t = std::vector< std::uint8_t >;

    // ------------------------------------------------------------------------------------------ the case
    enum kind_t { FRAME, RESP, BUFS, POLL, QOUT, CPU, CYCLE, KINDS };

    struct Op
    {
        int     kind = POLL;
        bytes_t bytes;  // FRAME: the frame as received (header included); RESP: what follows `13 <identifier>`
        int     a = 0;  // FRAME reply length of a stub | RESP identifier mode 0 match, 1 match+b (never equal), 2 absolute b
                        // BUFS buffers that can be committed | QOUT 0 = first channel, 1 = last channel | CPU interval min | CYCLE rounds
        int     b = 0;  // FRAME reply pattern seed | RESP value | BUFS slack octets behind a buffer | QOUT length | CPU interval max
        int     c = 0;  // QOUT pattern seed | CPU latency
        int     d = 0;  // CPU timeout
    };

    struct Case
    {
        int               setup      = 0;
        int               init_bufs  = 1;
        int               init_slack = 0;
        std::vector< Op > ops;
    };

    static const char* const setup_names[] = { "stubs", "real-no-sm", "real-legacy-sm" };
    constexpr int            num_setups    = 3;

    inline std::string to_text( const Case& c )
    {
        std::ostringstream os;
        os << "cfg " << c.setup << " " << c.init_bufs << " " << c.init_slack << "  # " << setup_names[ c.setup % num_setups ]
           << ", buffers, slack\n";
        for ( auto& o : c.ops )
        {
            switch ( o.kind )
            {
            case FRAME: os << "frame " << verif::hex( o.bytes ) << " " << o.a << " " << o.b << "\n"; break;
            case RESP: os << "resp " << ( o.a == 0 ? "m" : o.a == 1 ? "w" : "a" ) << " " << o.b << " " << verif::hex( o.bytes ) << "\n"; break;
            case BUFS: os << "bufs " << o.a << " " << o.b << "\n"; break;
            case POLL: os << "poll\n"; break;
            case QOUT: os << "qout " << o.a << " " << o.b << " " << o.c << "\n"; break;
            case CPU: os << "cpu " << o.a << " " << o.b << " " << o.c << " " << o.d << "\n"; break;
            case CYCLE: os << "cycle " << o.a << "\n"; break;
            }
        }
        return os.str();
    }

    inline Case from_text( const std::string& t )
    {
        Case         c;
        verif::Lines L( t );
        auto         I = []( const std::vector< std::string >& l, std::size_t i ) { return static_cast< int >( verif::tok_int( l, i ) ); };
        for ( auto& l : L.lines )
        {
            Op o;
            if ( l[ 0 ] == "cfg" )
            {
                c.setup      = I( l, 1 ) % num_setups;
                c.init_bufs  = I( l, 2 );
                c.init_slack = I( l, 3 );
                continue;
            }
            else if ( l[ 0 ] == "frame" ) { o.kind = FRAME; o.bytes = verif::unhex( verif::tok_str( l, 1 ) ); o.a = I( l, 2 ); o.b = I( l, 3 ); }
            else if ( l[ 0 ] == "resp" )
            {
                o.kind              = RESP;
                const std::string m = verif::tok_str( l, 1, "m" );
                o.a                 = m == "m" ? 0 : m == "w" ? 1 : 2;
                o.b                 = I( l, 2 );
                o.bytes             = verif::unhex( verif::tok_str( l, 3 ) );
            }
            else if ( l[ 0 ] == "bufs" ) { o.kind = BUFS; o.a = I( l, 1 ); o.b = I( l, 2 ); }
            else if ( l[ 0 ] == "poll" ) { o.kind = POLL; }
            else if ( l[ 0 ] == "qout" ) { o.kind = QOUT; o.a = I( l, 1 ); o.b = I( l, 2 ); o.c = I( l, 3 ); }
            else if ( l[ 0 ] == "cpu" ) { o.kind = CPU; o.a = I( l, 1 ); o.b = I( l, 2 ); o.c = I( l, 3 ); o.d = I( l, 4 ); }
            else if ( l[ 0 ] == "cycle" ) { o.kind = CYCLE; o.a = I( l, 1 ); }
            else
                continue;
            c.ops.push_back( o );
        }
        return c;
    }

    inline void showValue( const Case& c, std::ostream& os ) { os << to_text( c ); }

    inline std::uint16_t le16( const std::uint8_t* p ) { return static_cast< std::uint16_t >( p[ 0 ] | ( p[ 1 ] << 8 ) ); }
    inline std::uint8_t  pattern( int seed, std::size_t i ) { return static_cast< std::uint8_t >( seed * 7 + i * 13 + 1 ); }

    // ------------------------------------------------------------------------------------------ harness side state
    struct event
    {
        enum type_t { stub_in, stub_out, commit } type;
        int         idx;    // stub index / -1
        bytes_t     data;   // stub_in: payload seen; stub_out: bytes produced; commit: the committed octets
        std::size_t given;  // stub_in / stub_out: out_size handed to the channel
        bytes_t     reply;  // stub_in: bytes the stub produced
    };

    struct ctx_t
    {
        std::size_t                       avail = 0, slack = 0;
        std::unique_ptr< std::uint8_t[] > buf;            // the allocation that may be committed next
        std::size_t                       buf_size  = 0;
        std::size_t                       requested = 0;  // payload size asked for by the last allocation
        std::vector< event >              log;
        std::string                       error;          // contract violations seen inside the callbacks
        int                               reply_len = 0, reply_seed = 0;
        std::deque< std::pair< int, int > > pending[ 2 ];  // outputs queued in the stubs (length, seed)
    };

    inline ctx_t*& ctx()
    {
        static ctx_t* c = nullptr;
        return c;
    }

    // the two call backs l2cap<> requires from the link layer
    struct buffer_source
    {
        std::pair< std::size_t, std::uint8_t* > allocate_l2cap_output_buffer( std::size_t size )
        {
            ctx_t& c = *ctx();
            if ( c.avail == 0 )
                return { 0, nullptr };
            c.requested = size;
            c.buf_size  = size + 4 + c.slack;
            c.buf.reset( new std::uint8_t[ c.buf_size ] );
            std::memset( c.buf.get(), 0xEE, c.buf_size );
            return { c.buf_size, c.buf.get() };
        }

        void commit_l2cap_output_buffer( std::pair< std::size_t, std::uint8_t* > b )
        {
            ctx_t& c = *ctx();
            if ( !c.buf || b.second != c.buf.get() )
            {
                c.error = "commit of a buffer that is not the allocated one";
                return;
            }
            if ( b.first > c.buf_size )
            {
                c.error = verif::cat( "commit of ", b.first, " octets in a buffer of ", c.buf_size );
                return;
            }
            if ( c.avail == 0 )
            {
                c.error = "commit without a free buffer";
                return;
            }
            c.log.push_back( event{ event::commit, -1, bytes_t( b.second, b.second + b.first ), 0, {} } );
            c.buf.reset();
            c.buf_size = 0;
            --c.avail;
        }
    };

    // ------------------------------------------------------------------------------------------ set-up 0: stub channels
    struct chan_data
    {
    };

    template < std::uint16_t CID, std::size_t MinMtu, std::size_t MaxMtu, int Index >
    struct stub_channel
    {
        static constexpr std::uint16_t channel_id               = CID;
        static constexpr std::size_t   minimum_channel_mtu_size = MinMtu;
        static constexpr std::size_t   maximum_channel_mtu_size = MaxMtu;

        template < typename ConnectionData >
        void l2cap_input( const std::uint8_t* input, std::size_t in_size, std::uint8_t* output, std::size_t& out_size, ConnectionData& )
        {
            ctx_t&            c = *ctx();
            event             e{ event::stub_in, Index, bytes_t( input, input + in_size ), out_size, {} };
            const std::size_t n = std::min< std::size_t >( static_cast< std::size_t >( c.reply_len ), out_size );
            for ( std::size_t i = 0; i != n; ++i )
                e.reply.push_back( output[ i ] = pattern( c.reply_seed, i ) );
            out_size = n;
            c.log.push_back( e );
        }

        template < typename ConnectionData >
        void l2cap_output( std::uint8_t* output, std::size_t& out_size, ConnectionData& )
        {
            ctx_t& c = *ctx();
            if ( c.pending[ Index ].empty() )
            {
                out_size = 0;
                return;
            }
            const auto        p = c.pending[ Index ].front();
            const std::size_t n = std::min< std::size_t >( static_cast< std::size_t >( p.first ), out_size );
            event             e{ event::stub_out, Index, {}, out_size, {} };
            for ( std::size_t i = 0; i != n; ++i )
                e.data.push_back( output[ i ] = pattern( p.second, i ) );
            c.pending[ Index ].pop_front();
            out_size = n;
            c.log.push_back( e );
        }

        template < class PreviousData >
        using channel_data_t = PreviousData;
    };

    constexpr std::uint16_t cid_a = 4, cid_sig = 5, cid_b = 6;

    struct stack_if
    {
        virtual ~stack_if() {}
        virtual bool        input( const std::uint8_t*, std::size_t )                                      = 0;
        virtual void        poll()                                                                         = 0;
        virtual bool        cpu( std::uint16_t, std::uint16_t, std::uint16_t, std::uint16_t )              = 0;
        virtual void        app_output( int which, int len, int seed )                                     = 0;
        virtual std::size_t max_mtu() const                                                                = 0;
        virtual bool        has_stubs() const                                                              = 0;
    };

    using stub_a = stub_channel< cid_a, 23, 40, 0 >;
    using stub_b = stub_channel< cid_b, 23, 31, 1 >;
    using sig_t  = bluetoe::l2cap::signaling_channel<>;

    struct ll_stubs : bluetoe::details::l2cap< ll_stubs, chan_data, stub_a, sig_t, stub_b >, buffer_source, stack_if
    {
        connection_data_t conn = connection_data_t();

        bool input( const std::uint8_t* p, std::size_t n ) override { return this->handle_l2cap_input( p, n, conn ); }
        void poll() override { this->transmit_pending_l2cap_output( conn ); }
        bool cpu( std::uint16_t a, std::uint16_t b, std::uint16_t c, std::uint16_t d ) override
        {
            return static_cast< sig_t& >( *this ).connection_parameter_update_request( a, b, c, d );
        }
        void        app_output( int which, int len, int seed ) override { ctx()->pending[ which & 1 ].push_back( { len, seed } ); }
        std::size_t max_mtu() const override { return maximum_mtu_size; }
        bool        has_stubs() const override { return true; }
    };

    // ------------------------------------------------------------------------------------------ set-ups 1, 2: real channels
    // deterministic stand-in for the hardware security tool box (the managers are generic over it)
    struct toy_toolbox
    {
        using u128 = bluetoe::details::uint128_t;

        bluetoe::link_layer::device_address local_address() const { return bluetoe::link_layer::public_device_address( { 1, 2, 3, 4, 5, 6 } ); }
        static u128 mix( const u128& a, const u128& b, std::uint8_t salt )
        {
            u128 r;
            for ( int i = 0; i != 16; ++i )
                r[ i ] = static_cast< std::uint8_t >( a[ i ] * 31 + b[ ( i + 5 ) % 16 ] * 17 + salt + i );
            return r;
        }
        u128 create_srand() { return u128{ { 1, 2, 3 } }; }
        bluetoe::details::longterm_key_t create_long_term_key() { return { u128{ { 9, 9 } }, 0x1122334455667788ull, 0x4242 }; }
        u128 c1( const u128& k, const u128& r, const u128& p1, const u128& p2 ) const { return mix( mix( k, r, 1 ), mix( p1, p2, 2 ), 3 ); }
        u128 s1( const u128& k, const u128& a, const u128& b ) { return mix( k, mix( a, b, 4 ), 5 ); }
        u128 create_passkey() { return u128{ { 0x40, 0xe2, 0x01 } }; }
    };

    inline std::uint32_t real_value = 0;  // bound to the characteristic of the real server, reset per case

    using real_server = bluetoe::server< bluetoe::no_gap_service_for_gatt_servers, bluetoe::max_mtu_size< 65 >,
        bluetoe::service< bluetoe::service_uuid16< 0x1815 >,
            bluetoe::characteristic< bluetoe::characteristic_uuid16< 0x2A01 >,
                bluetoe::bind_characteristic_value< std::uint32_t, &real_value >, bluetoe::notify > > >;

    template < class Manager >
    struct ll_real : bluetoe::details::l2cap< ll_real< Manager >, bluetoe::details::link_state, real_server, sig_t,
                         typename Manager::template impl< ll_real< Manager > > >,
                     toy_toolbox,
                     buffer_source,
                     stack_if
    {
        using l2cap_t = bluetoe::details::l2cap< ll_real< Manager >, bluetoe::details::link_state, real_server, sig_t,
            typename Manager::template impl< ll_real< Manager > > >;
        typename l2cap_t::connection_data_t conn;

        ll_real()
            : conn()
        {
            conn.remote_connection_created( bluetoe::link_layer::random_device_address( { 9, 9, 9, 9, 9, 0xc9 } ) );
            static_cast< real_server& >( *this ).notification_callback( &queue_notification, this );
        }

        static bool queue_notification( const bluetoe::details::notification_data& item, void* that, bluetoe::details::notification_type type )
        {
            auto& c = static_cast< ll_real* >( that )->conn;
            switch ( type )
            {
            case bluetoe::details::notification_type::notification: return c.queue_notification( item.client_characteristic_configuration_index() );
            case bluetoe::details::notification_type::indication: return c.queue_indication( item.client_characteristic_configuration_index() );
            case bluetoe::details::notification_type::confirmation: c.indication_confirmed(); return true;
            }
            return false;
        }

        bool input( const std::uint8_t* p, std::size_t n ) override { return this->handle_l2cap_input( p, n, conn ); }
        void poll() override { this->transmit_pending_l2cap_output( conn ); }
        bool cpu( std::uint16_t a, std::uint16_t b, std::uint16_t c, std::uint16_t d ) override
        {
            return static_cast< sig_t& >( *this ).connection_parameter_update_request( a, b, c, d );
        }
        void app_output( int which, int, int seed ) override
        {
            if ( which & 1 )
                return;
            real_value = static_cast< std::uint32_t >( seed ) * 0x01010101u;
            static_cast< real_server& >( *this ).notify( real_value );
        }
        std::size_t max_mtu() const override { return l2cap_t::maximum_mtu_size; }
        bool        has_stubs() const override { return false; }
    };

    inline std::unique_ptr< stack_if > make_stack( int setup )
    {
        switch ( setup % num_setups )
        {
        case 0: return std::unique_ptr< stack_if >( new ll_stubs() );
        case 1: return std::unique_ptr< stack_if >( new ll_real< bluetoe::no_security_manager >() );
        default: return std::unique_ptr< stack_if >( new ll_real< bluetoe::legacy_security_manager >() );
        }
    }

    // ------------------------------------------------------------------------------------------ signalling reference model
    // What a peer can observe of a signalling entity that only ever sends Connection Parameter Update Requests.
    struct sig_model
    {
        enum { idle, queued, outstanding } status = idle;
        bool                       maybe_completed = false;  // outstanding, but a response with the right identifier and a
                                                             // malformed rest was seen: both readings are accepted
        std::uint8_t               out_id = 0;
        std::uint16_t              par[ 4 ] = { 0, 0, 0, 0 };
        std::deque< std::uint8_t > recent;                   // identifiers of the last 254 requests
        std::string                last_nonmatching;         // shape of the last response that must not complete the request
        unsigned                   emitted = 0, completed = 0;

        static bool is_response_code( std::uint8_t code )
        {
            // Command Reject and the response codes of Vol 3 Part A table 4.2: the specification has such packets
            // discarded silently when they are not expected, bluetoe's suite pins a Command Reject; both are accepted
            switch ( code )
            {
            case 0x01: case 0x03: case 0x05: case 0x07: case 0x09: case 0x0b: case 0x0d: case 0x0f: case 0x11: case 0x13:
            case 0x15: case 0x18: case 0x1a:
                return true;
            }
            return false;
        }

        // a frame for the signalling channel was delivered; `reply` is what was committed in answer to it (or nullptr)
        void on_command( const bytes_t& p, const bytes_t* reply, verif::Report& rep )
        {
            const std::size_t n          = p.size();
            const bool        has_hdr    = n >= 4;
            const bool        wellformed = has_hdr && static_cast< std::size_t >( le16( &p[ 2 ] ) ) == n - 4;
            const std::string what       = verif::cat( "command ", verif::hex( p ) );

            // whatever is sent in answer to a command has to be a Command Reject that echoes a non-zero identifier
            if ( reply )
            {
                const bytes_t& r = *reply;
                V_CHECK( r.size() >= 6 && r[ 0 ] == 0x01, "sig.reply-is-not-a-command-reject", what, " answered with ", verif::hex( r ) );
                V_CHECK( static_cast< std::size_t >( le16( &r[ 2 ] ) ) == r.size() - 4, "sig.reject-length-field", what, " answered with ", verif::hex( r ),
                    ": the length field does not match the size of the command" );
                V_CHECK_SIG( r[ 1 ] != 0, "sig.reject-identifier-zero", "shape=reject-id-0", what, " answered with ", verif::hex( r ),
                    ": identifier 0x00 is illegal in any command" );
                V_CHECK( n >= 2 && r[ 1 ] == p[ 1 ], "sig.reject-identifier-echo", what, " answered with ", verif::hex( r ),
                    ": the identifier has to be the one of the rejected command" );
            }

            const bool id_matches = n >= 2 && status == outstanding && p[ 1 ] == out_id;
            if ( n >= 1 && p[ 0 ] == 0x13 && id_matches )
            {
                if ( wellformed && n == 6 )
                {
                    if ( !maybe_completed )
                    {
                        // the usual reason: an earlier response that did not match was taken for the answer
                        V_CHECK_SIG( !reply || last_nonmatching.empty(), "sig.response-accepted-without-match", verif::cat( "resp=", last_nonmatching ), what,
                            " is the response to the outstanding request (identifier ", int( out_id ), ") but was answered with ", verif::hex( *reply ),
                            "; the only response seen before had ", last_nonmatching );
                        V_CHECK( !reply, "sig.matching-response-rejected", what, " is the response to the outstanding request (identifier ",
                            int( out_id ), ") but was answered with ", verif::hex( *reply ) );
                    }
                    status          = idle;
                    maybe_completed = false;
                    ++completed;
                    rep.label( "sig:response-matching" );
                }
                else
                {
                    maybe_completed = true;
                    rep.label( "sig:response-right-identifier-malformed" );
                }
                return;
            }

            // every other command: never completes anything
            if ( n >= 1 && p[ 0 ] == 0x13 )
            {
                const char* shape = n < 2 ? "no-identifier" : status == outstanding ? "wrong-identifier" : status == queued ? "request-not-sent-yet" : "no-request";
                if ( status == outstanding )
                    last_nonmatching = shape;
                rep.label( verif::cat( "sig:response-", shape ) );
                rep.nontrivial = true;
            }
            const bool must_reject = wellformed && p[ 1 ] != 0 && !is_response_code( p[ 0 ] );
            V_CHECK( !must_reject || reply, "sig.command-not-rejected", what, " (well formed, identifier ", int( n > 1 ? p[ 1 ] : 0 ),
                ") was not answered with a Command Reject" );
            if ( must_reject )
                rep.label( "sig:reject-required" );
            else if ( n >= 2 && p[ 1 ] == 0 )
                rep.label( "sig:command-with-identifier-0" );
            else if ( !wellformed )
                rep.label( reply ? "sig:malformed-command-rejected" : "sig:malformed-command-ignored" );
            else
                rep.label( reply ? "sig:unexpected-response-rejected" : "sig:unexpected-response-ignored" );
        }

        // connection_parameter_update_request() was called
        void on_cpu( bool ret, const std::uint16_t ( &p )[ 4 ], verif::Report& rep )
        {
            switch ( status )
            {
            case idle:
                V_CHECK( ret, "sig.request-refused-while-idle", "connection_parameter_update_request() returned false although no request is queued or outstanding",
                    completed ? " (the previous one was completed by a matching response)" : "" );
                break;
            case queued:
                V_CHECK( !ret, "sig.second-request-accepted", "connection_parameter_update_request() returned true while a request is queued" );
                rep.label( "sig:request-refused-while-queued" );
                return;
            case outstanding:
                if ( maybe_completed )
                {
                    maybe_completed = false;
                    if ( !ret )
                        return;
                    ++completed;
                    break;
                }
                V_CHECK_SIG( ret == false || last_nonmatching.empty(), "sig.response-accepted-without-match", verif::cat( "resp=", last_nonmatching ),
                    "connection_parameter_update_request() returned true: the request with identifier ", int( out_id ),
                    " is unanswered, the only response seen since had ", last_nonmatching );
                V_CHECK( !ret, "sig.second-request-accepted", "connection_parameter_update_request() returned true while the request with identifier ",
                    int( out_id ), " is unanswered" );
                rep.label( "sig:request-refused-while-outstanding" );
                return;
            }
            status = queued;
            std::copy( p, p + 4, par );
            last_nonmatching.clear();
        }

        // a frame on the signalling channel that is not the answer to a command
        void on_output( const bytes_t& p, verif::Report& rep )
        {
            const std::string what = verif::cat( "signalling output ", verif::hex( p ) );
            V_CHECK( !p.empty() && p[ 0 ] == 0x12, "sig.unexpected-output", what, " is not a Connection Parameter Update Request" );
            V_CHECK( status != outstanding, "sig.request-sent-twice", what, ": the request with identifier ", int( out_id ), " was sent before and is unanswered" );
            V_CHECK( status == queued, "sig.unexpected-output", what, " although no request is queued" );
            bytes_t expect = { 0x12, p.size() > 1 ? p[ 1 ] : std::uint8_t( 0 ), 8, 0 };
            for ( auto v : par )
            {
                expect.push_back( static_cast< std::uint8_t >( v ) );
                expect.push_back( static_cast< std::uint8_t >( v >> 8 ) );
            }
            V_CHECK( p == expect, "sig.request-content", what, " but the queued request is ", verif::hex( expect ) );
            V_CHECK_SIG( p[ 1 ] != 0, "sig.request-identifier-zero", "shape=request-id-0", what, ": identifier 0x00 is illegal (request number ", emitted + 1, ")" );
            V_CHECK( std::find( recent.begin(), recent.end(), p[ 1 ] ) == recent.end(), "sig.identifier-not-advanced", what, ": identifier ", int( p[ 1 ] ),
                " was used by one of the last ", recent.size(), " requests (the previous one used ", int( recent.empty() ? 0 : recent.back() ), ")" );
            recent.push_back( p[ 1 ] );
            if ( recent.size() > 254 )
                recent.pop_front();
            status = outstanding;
            out_id = p[ 1 ];
            ++emitted;
            rep.label( emitted == 1 ? "sig:request-sent" : emitted < 256 ? "sig:further-request-sent" : "sig:request-sent-after-identifier-wrap" );
        }
    };

    // ------------------------------------------------------------------------------------------ running one case
    // shapes that are left out while a finding is listed as open (KNOWN_FINDINGS.txt, `exclude=`)
    struct exclusions
    {
        bool f31  = false;  // a response that does not match the outstanding request
        bool f31b = false;  // an empty payload for the ATT channel of the real server
    };

    struct runner
    {
        verif::Report&              rep;
        exclusions                  ex;
        ctx_t                       cx;
        std::unique_ptr< stack_if > st;
        sig_model                   sig;
        bool                        anomaly = false;

        runner( const Case& c, verif::Report& r, const exclusions& e )
            : rep( r )
            , ex( e )
        {
            ctx()      = &cx;
            real_value = 0;
            cx.avail   = static_cast< std::size_t >( std::max( 0, c.init_bufs ) );
            cx.slack   = static_cast< std::size_t >( std::max( 0, c.init_slack ) );
            st         = make_stack( c.setup );
        }
        ~runner() { ctx() = nullptr; }

        static bool known_cid( std::uint16_t cid ) { return cid == cid_a || cid == cid_sig || cid == cid_b; }

        // committed frame -> ( cid, payload ) after the checks every committed frame has to pass
        std::pair< std::uint16_t, bytes_t > committed( const event& e, const char* when )
        {
            const bytes_t& f = e.data;
            V_CHECK( f.size() > 4, "mux.commit-framing", when, ": committed ", f.size(), " octets (", verif::hex( f ), "), a frame needs a header and a payload" );
            V_CHECK( static_cast< std::size_t >( le16( &f[ 0 ] ) ) == f.size() - 4, "mux.commit-length-field", when, ": committed ", verif::hex( f ),
                ": the length field is ", le16( &f[ 0 ] ), " for a payload of ", f.size() - 4 );
            return { le16( &f[ 2 ] ), bytes_t( f.begin() + 4, f.end() ) };
        }

        void feed( const bytes_t& frame, int reply_len, int reply_seed )
        {
            const std::size_t n        = frame.size();
            const bool        has_hdr  = n >= 4;
            const std::size_t len      = has_hdr ? le16( &frame[ 0 ] ) : 0;
            const std::uint16_t cid    = has_hdr ? le16( &frame[ 2 ] ) : 0;
            const bool        len_ok   = has_hdr && n == len + 4;
            const bool        known    = known_cid( cid );
            const bool        deliver  = len_ok && known;
            const std::size_t before   = cx.avail;
            const std::string what     = verif::cat( "frame ", verif::hex( frame ) );

            if ( !has_hdr ) { rep.label( "frame:shorter-than-header" ); anomaly = true; }
            else
            {
                if ( !len_ok ) { rep.label( n > len + 4 ? "frame:length-field-too-small" : "frame:length-field-too-large" ); anomaly = true; }
                if ( !known ) { rep.label( ( cid & 0xff ) >= 4 && ( cid & 0xff ) <= 6 ? "frame:unknown-cid-low-octet-known" : "frame:unknown-cid" ); anomaly = true; }
                if ( deliver ) rep.label( verif::cat( "frame:deliverable-cid-", cid, len == 0 ? "-empty" : "" ) );
            }

            if ( deliver && before != 0
                && ( ( ex.f31b && !st->has_stubs() && cid == cid_a && len == 0 )
                    || ( ex.f31 && cid == cid_sig && len >= 1 && frame[ 4 ] == 0x13 && sig.status == sig_model::outstanding
                        && !( len >= 2 && frame[ 5 ] == sig.out_id ) ) ) )
            {
                rep.excluded = true;
                return;
            }

            cx.reply_len  = std::max( 0, reply_len );
            cx.reply_seed = reply_seed;
            cx.log.clear();
            std::unique_ptr< std::uint8_t[] > in( new std::uint8_t[ n ] );
            std::copy( frame.begin(), frame.end(), in.get() );
            const bool consumed = st->input( in.get(), n );
            V_CHECK( cx.error.empty(), "mux.buffer-contract", what, ": ", cx.error );

            std::vector< const event* > calls, commits;
            for ( auto& e : cx.log )
                ( e.type == event::commit ? commits : calls ).push_back( &e );

            if ( !deliver )
            {
                V_CHECK( calls.empty(), "mux.delivered-invalid-frame", what, " (", !has_hdr ? "no header" : !len_ok ? "length field does not match" : "unknown CID",
                    ") was handed to the channel with index ", calls.empty() ? -1 : calls[ 0 ]->idx, " as ", verif::hex( calls.empty() ? bytes_t() : calls[ 0 ]->data ) );
                V_CHECK( commits.empty(), "mux.reply-to-invalid-frame", what, " (", !has_hdr ? "no header" : !len_ok ? "length field does not match" : "unknown CID",
                    ") was answered with ", verif::hex( commits.empty() ? bytes_t() : commits[ 0 ]->data ) );
                V_CHECK( consumed || before == 0, "mux.invalid-frame-not-dropped", what, " was not consumed although an output buffer is available" );
                return;
            }
            if ( before == 0 )
            {
                rep.label( "frame:deliverable-without-buffer" );
                V_CHECK( !consumed && calls.empty() && commits.empty(), "mux.consumed-without-buffer", what,
                    ": no output buffer is available, the frame must stay unconsumed and untouched (consumed=", consumed, " channel calls=", calls.size(), ")" );
                return;
            }
            V_CHECK( consumed, "mux.frame-not-consumed", what, " was not consumed although an output buffer is available" );
            V_CHECK( commits.size() <= 1, "mux.reply-count", what, " caused ", commits.size(), " committed frames" );

            bytes_t reply_payload;
            if ( !commits.empty() )
            {
                const auto cp = committed( *commits[ 0 ], what.c_str() );
                V_CHECK( cp.first == cid, "mux.reply-cid", what, " was answered on CID ", cp.first, " (", verif::hex( commits[ 0 ]->data ), ")" );
                V_CHECK( cp.second.size() <= cx.requested + cx.slack, "mux.reply-size", what, ": reply of ", cp.second.size(), " octets in a buffer for ",
                    cx.requested + cx.slack );
                reply_payload = cp.second;
            }
            const bytes_t payload( frame.begin() + 4, frame.end() );

            if ( st->has_stubs() && cid != cid_sig )
            {
                const int idx = cid == cid_a ? 0 : 1;
                V_CHECK( calls.size() == 1 && calls[ 0 ]->idx == idx, "mux.wrong-channel", what, ": expected one call of channel ", idx, ", saw ", calls.size(),
                    calls.empty() ? "" : verif::cat( " (first: channel ", calls[ 0 ]->idx, ")" ) );
                const event& e = *calls[ 0 ];
                V_CHECK( e.data == payload, "mux.payload-changed", what, ": the channel saw ", verif::hex( e.data ) );
                V_CHECK( e.given <= cx.requested + cx.slack, "mux.out-size-exceeds-buffer", what, ": the channel was offered ", e.given, " octets, allocated were ",
                    cx.requested + cx.slack );
                if ( e.reply.empty() )
                    V_CHECK( commits.empty(), "mux.reply-invented", what, ": the channel did not answer, committed was ", verif::hex( commits[ 0 ]->data ) );
                else
                    V_CHECK( !commits.empty() && reply_payload == e.reply, "mux.reply-lost-or-changed", what, ": the channel answered ", verif::hex( e.reply ),
                        ", committed was ", commits.empty() ? std::string( "nothing" ) : verif::hex( commits[ 0 ]->data ) );
                rep.label( e.reply.empty() ? "mux:stub-silent" : e.reply.size() == e.given ? "mux:stub-reply-fills-buffer" : "mux:stub-reply" );
                return;
            }
            V_CHECK( calls.empty(), "mux.wrong-channel", what, " was handed to stub channel ", calls.empty() ? -1 : calls[ 0 ]->idx );
            if ( cid == cid_sig )
                sig.on_command( payload, commits.empty() ? nullptr : &reply_payload, rep );
            else
                rep.label( verif::cat( "real:cid-", cid, commits.empty() ? "-silent" : "-answered" ) );
        }

        void poll()
        {
            const std::size_t before = cx.avail;
            cx.log.clear();
            st->poll();
            V_CHECK( cx.error.empty(), "mux.buffer-contract", "poll: ", cx.error );

            std::size_t commits = 0;
            for ( std::size_t i = 0; i != cx.log.size(); ++i )
            {
                const event& e = cx.log[ i ];
                V_CHECK( e.type != event::stub_in, "mux.wrong-channel", "poll: l2cap_input of channel ", e.idx, " called" );
                if ( e.type == event::stub_out )
                {
                    if ( e.data.empty() )
                        continue;
                    V_CHECK( e.given <= cx.requested + cx.slack, "mux.out-size-exceeds-buffer", "poll: channel ", e.idx, " was offered ", e.given,
                        " octets, allocated were ", cx.requested + cx.slack );
                    const bool next_is_commit = i + 1 != cx.log.size() && cx.log[ i + 1 ].type == event::commit;
                    V_CHECK( next_is_commit, "mux.output-lost", "poll: channel ", e.idx, " produced ", verif::hex( e.data ), " which was not committed" );
                    const auto cp = committed( cx.log[ i + 1 ], "poll" );
                    V_CHECK( cp.first == ( e.idx == 0 ? cid_a : cid_b ), "mux.output-cid", "poll: output of the channel with CID ", e.idx == 0 ? cid_a : cid_b,
                        " was committed as ", verif::hex( cx.log[ i + 1 ].data ) );
                    V_CHECK( cp.second == e.data, "mux.output-lost", "poll: channel ", e.idx, " produced ", verif::hex( e.data ), ", committed was ",
                        verif::hex( cx.log[ i + 1 ].data ) );
                    rep.label( "mux:stub-output" );
                    ++i;
                    ++commits;
                    continue;
                }
                // a commit that does not follow the output of a stub
                ++commits;
                const auto cp = committed( e, "poll" );
                V_CHECK( known_cid( cp.first ) && !( st->has_stubs() && cp.first != cid_sig ), "mux.output-cid", "poll: committed ", verif::hex( e.data ),
                    " does not belong to a channel that produced output" );
                if ( cp.first == cid_sig )
                    sig.on_output( cp.second, rep );
                else
                    rep.label( verif::cat( "real:output-cid-", cp.first ) );
            }
            V_CHECK( commits <= before, "mux.buffer-contract", "poll: ", commits, " commits with ", before, " buffers" );
            if ( cx.avail != 0 )
            {
                V_CHECK( sig.status != sig_model::queued, "sig.request-not-sent", "poll: the queued request was not sent although a buffer is available" );
                V_CHECK( cx.pending[ 0 ].empty() && cx.pending[ 1 ].empty(), "mux.output-starved", "poll: a buffer is left but a stub still has ",
                    cx.pending[ 0 ].size(), "/", cx.pending[ 1 ].size(), " outputs pending" );
            }
            else if ( sig.status == sig_model::queued || !cx.pending[ 0 ].empty() || !cx.pending[ 1 ].empty() )
                rep.label( "poll:output-waits-for-buffer" );
        }

        void cpu( int a, int b, int c, int d )
        {
            const std::uint16_t p[ 4 ] = { static_cast< std::uint16_t >( a ), static_cast< std::uint16_t >( b ), static_cast< std::uint16_t >( c ),
                static_cast< std::uint16_t >( d ) };
            sig.on_cpu( st->cpu( p[ 0 ], p[ 1 ], p[ 2 ], p[ 3 ] ), p, rep );
        }

        void resp( int mode, int val, const bytes_t& tail )
        {
            std::uint8_t id = static_cast< std::uint8_t >( val );
            if ( mode == 0 )
                id = sig.out_id;
            else if ( mode == 1 )
                id = static_cast< std::uint8_t >( sig.out_id + 1 + ( static_cast< unsigned >( val ) % 255 ) );
            bytes_t f = { static_cast< std::uint8_t >( ( tail.size() + 2 ) & 0xff ), static_cast< std::uint8_t >( ( tail.size() + 2 ) >> 8 ), 5, 0, 0x13, id };
            f.insert( f.end(), tail.begin(), tail.end() );
            feed( f, 0, 0 );
        }

        void step( const Op& o )
        {
            switch ( o.kind )
            {
            case FRAME: feed( o.bytes, o.a, o.b ); break;
            case RESP: resp( o.a, o.b, o.bytes ); break;
            case BUFS:
                cx.avail = static_cast< std::size_t >( std::max( 0, o.a ) );
                cx.slack = static_cast< std::size_t >( std::max( 0, o.b ) );
                break;
            case POLL: poll(); break;
            case QOUT: st->app_output( o.a, std::max( 1, o.b ), o.c ); break;
            case CPU: cpu( o.a, o.b, o.c, o.d ); break;
            case CYCLE:
                // complete request / response rounds: the only way to reach the identifier wrap around
                for ( int i = 0; i < o.a; ++i )
                {
                    cx.avail = std::max< std::size_t >( cx.avail, 1 );
                    cpu( 6 + i, 3200 - i, i & 3, 100 + i );
                    poll();
                    cx.avail = std::max< std::size_t >( cx.avail, 1 );
                    resp( 0, 0, { 2, 0, 0, 0 } );
                }
                break;
            }
        }
    };

    inline void run( const Case& c, verif::Report& rep, const exclusions& ex = exclusions() )
    {
        runner r( c, rep, ex );
        rep.label( verif::cat( "setup:", setup_names[ c.setup % num_setups ] ) );
        for ( auto& o : c.ops )
            r.step( o );
        // closing poll with a buffer: nothing that was accepted may be stuck
        r.cx.avail = std::max< std::size_t >( r.cx.avail, 4 );
        r.poll();
        rep.nontrivial = rep.nontrivial || r.anomaly;
    }
}
