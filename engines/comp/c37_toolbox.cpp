// C37 / C38: bluetoe's nRF52 security toolbox (bindings/nordic/nrf52/security_tool_box.cpp, compiled UNMODIFIED on the
// host against the emulated register file lib/nrf_emul/nrf.h) -- DESIGN.md section 4, C37 and C38.
//
// C37  generated: 128/256 bit operands, addresses of both types, IO capability triples, z values, P-256 points built
//      from the curve equation (valid, valid with one bit flipped, x = 0, coordinates >= p, points on the twist,
//      garbage). All operands are kept in the case in the specification's notation (most significant octet first)
//      and converted to the toolbox's little endian interface here.
//      oracle: differential against lib/refcrypto.hpp (own AES-128 from FIPS-197, AES-CMAC from RFC 4493, c1, s1,
//      f4, f5, f6, g2, SK = e(LTK, SKDs || SKDm) from the Core specification formulas; curve membership
//      y^2 = x^3 - 3x + b mod p with 0 <= x, y < p for is_valid_public_key).
// C38  generated: the byte stream of the emulated RNG (a pattern delivered `repeat` times, then a seeded
//      generator) and the number of create_passkey() calls.
//      oracle: displayed value (32 bit little endian prefix of the key) < 1 000 000, remaining key octets zero,
//      bounded RNG consumption per passkey, and for long runs on the seeded stream two chi-square tests (100 equal
//      bins of [0, 10^6); the two least significant decimal digits) against the p = 1e-9 quantile.
#include "verif.hpp"

#include <bluetoe/security_tool_box.hpp>

#include "nrf_emul/emul_impl.hpp"
#include "refcrypto.hpp"

#include <memory>

namespace {

    namespace ref = refcrypto;
    using octets  = std::vector< std::uint8_t >;

    enum kind
    {
        K_SK,
        K_C1,
        K_S1,
        K_F4,
        K_F5,
        K_F6,
        K_G2,
        K_PK,
        K_DRAW,
        K_COUNT
    };

    struct kind_info
    {
        const char*                name;
        std::vector< std::size_t > fields;  // octets per operand, in the order of the case text
    };

    const kind_info& info( int k )
    {
        static const kind_info t[ K_COUNT ] = {
            { "sk", { 16, 8, 8 } },                        // LTK, SKDm, SKDs
            { "c1", { 16, 16, 7, 7, 1, 1, 6, 6 } },        // k, r, preq, pres, iat, rat, ia, ra
            { "s1", { 16, 16, 16 } },                      // k, r1, r2
            { "f4", { 32, 32, 16, 1 } },                   // U, V, X, Z
            { "f5", { 32, 16, 16, 1, 6, 1, 6 } },          // W, N1, N2, type1, addr1, type2, addr2
            { "f6", { 16, 16, 16, 16, 3, 1, 6, 1, 6 } },   // W, N1, N2, R, IOcap, type1, addr1, type2, addr2
            { "g2", { 32, 32, 16, 16 } },                  // U, V, X, Y
            { "pk", { 32, 32 } },                          // x, y
            { "draw", {} },
        };
        return t[ k ];
    }

    struct Op
    {
        int                   kind = K_SK;
        std::vector< octets > f;       // operands, most significant octet first
        std::uint64_t         n = 0;   // K_DRAW: number of passkeys
        std::string           note;    // generator's class of a public key (comment only)
    };

    struct Case
    {
        bool              c38 = false;
        std::uint64_t     seed = 1, repeat = 0;  // C38: RNG stream
        octets            pattern;
        std::vector< Op > ops;
    };

    // ---------------------------------------------------------------------------------------------- text
    std::string to_text( const Case& c )
    {
        std::ostringstream os;
        if ( c.c38 )
            os << "cfg c38 " << c.seed << " " << c.repeat << " " << verif::hex( c.pattern ) << "  # seed, repeat, pattern\n";
        else
            os << "cfg c37\n";
        for ( auto& o : c.ops )
        {
            os << info( o.kind ).name;
            if ( o.kind == K_DRAW )
                os << " " << o.n;
            for ( auto& f : o.f )
                os << " " << verif::hex( f );
            if ( !o.note.empty() )
                os << "  # " << o.note;
            os << "\n";
        }
        return os.str();
    }

    Case from_text( const std::string& t )
    {
        Case         c;
        verif::Lines L( t );
        for ( auto l : L.lines )
        {
            // cut trailing comments
            for ( std::size_t i = 0; i != l.size(); ++i )
                if ( l[ i ][ 0 ] == '#' )
                {
                    l.resize( i );
                    break;
                }
            if ( l.empty() )
                continue;
            if ( l[ 0 ] == "cfg" )
            {
                c.c38 = verif::tok_str( l, 1 ) == "c38";
                if ( c.c38 )
                {
                    c.seed    = std::strtoull( verif::tok_str( l, 2, "1" ).c_str(), nullptr, 0 );
                    c.repeat  = std::strtoull( verif::tok_str( l, 3, "0" ).c_str(), nullptr, 0 );
                    c.pattern = verif::unhex( verif::tok_str( l, 4 ) );
                }
                continue;
            }
            for ( int k = 0; k != K_COUNT; ++k )
            {
                if ( l[ 0 ] != info( k ).name )
                    continue;
                Op o;
                o.kind = k;
                if ( k == K_DRAW )
                    o.n = std::strtoull( verif::tok_str( l, 1, "1" ).c_str(), nullptr, 0 );
                else
                    for ( std::size_t i = 0; i != info( k ).fields.size(); ++i )
                    {
                        octets v = verif::unhex( verif::tok_str( l, 1 + i ) );
                        v.resize( info( k ).fields[ i ], 0 );
                        o.f.push_back( v );
                    }
                c.ops.push_back( o );
            }
        }
        return c;
    }

    // ---------------------------------------------------------------------------------------------- generators
    rc::Gen< octets > rbytes( std::size_t n )
    {
        // uniform octets (rc::gen::arbitrary< uint8_t > is biased towards small values at small sizes); now and then a
        // constant fill, which drives the carry / msb paths of the sub key generation
        return rc::gen::weightedOneOf< octets >( {
            { 12, rc::gen::map( rc::gen::container< std::vector< int > >( n, verif::range< int >( 0, 255 ) ),
                      []( const std::vector< int >& v ) { return octets( v.begin(), v.end() ); } ) },
            { 1, rc::gen::map( rc::gen::element( 0x00, 0xff, 0x80, 0x01, 0x7f ), [n]( int b ) { return octets( n, static_cast< std::uint8_t >( b ) ); } ) },
        } );
    }

    rc::Gen< Op > gen_fields( int k )
    {
        std::vector< rc::Gen< octets > > gens;
        const auto&                      fields = info( k ).fields;
        return rc::gen::exec( [k, fields]() {
            Op o;
            o.kind = k;
            for ( std::size_t i = 0; i != fields.size(); ++i )
            {
                octets v = *rbytes( fields[ i ] );
                // one octet operands: address types and iat / rat are single bits, z is 0 / 0x80 / 0x81 / anything
                if ( fields[ i ] == 1 )
                {
                    if ( k == K_F4 )
                        v[ 0 ] = static_cast< std::uint8_t >( *rc::gen::weightedOneOf< int >( { { 3, rc::gen::element( 0, 0x80, 0x81 ) }, { 1, verif::range< int >( 0, 255 ) } } ) );
                    else
                        v[ 0 ] &= 1;
                }
                o.f.push_back( v );
            }
            return o;
        } );
    }

    // public keys by construction from the curve equation
    ref::u256 find_x( ref::u256 x, bool want_square, ref::u256& root )
    {
        ref::u256 one{};
        one.l[ 0 ] = 1;
        x          = ref::mod_reduce( x );
        for ( ;; )
        {
            const ref::u256 rhs = ref::p256_rhs( x );
            if ( want_square ? ref::mod_sqrt( rhs, root ) : ref::mod_sqrt( ref::mod_neg( rhs ), root ) )
            {
                if ( want_square || !ref::u256_is_zero( rhs ) )
                    return x;
            }
            x = ref::mod_add( x, one );
        }
    }

    Op make_pk( int cls, const octets& xs, const octets& ys, int bit, int sel )
    {
        static const char* names[] = { "valid", "valid-one-bit-flipped", "edge", "x-plus-p", "twist", "garbage", "known" };
        Op                 o;
        o.kind = K_PK;
        o.note = names[ cls ];
        ref::u256 x = ref::u256_from_be( xs.data() ), y{}, root{};
        ref::u256 one{};
        one.l[ 0 ] = 1;

        switch ( cls )
        {
        default:
        case 0:
        case 1:
            x = find_x( x, true, root );
            y = ( sel & 1 ) ? ref::mod_neg( root ) : root;
            break;
        case 2:
            switch ( bit % 7 )
            {
            case 0:  // (0, 0)
                x = ref::u256{};
                y = ref::u256{};
                o.note += ":zero";
                break;
            case 1:  // x = 0 is a legal coordinate if b is a square
                x = ref::u256{};
                y = ref::mod_sqrt( ref::p256_b(), root ) ? root : one;
                o.note += ":x=0";
                break;
            case 2:  // x = p is congruent to 0 but not a field element
                x = ref::p256_p();
                y = ref::mod_sqrt( ref::p256_b(), root ) ? root : one;
                o.note += ":x=p";
                break;
            case 3:  // y = 0 is never on the curve (prime order)
                x = find_x( x, true, root );
                y = ref::u256{};
                o.note += ":y=0";
                break;
            case 4:
                x.l[ 0 ] = x.l[ 1 ] = x.l[ 2 ] = x.l[ 3 ] = ~std::uint64_t( 0 );
                y = x;
                o.note += ":all-ones";
                break;
            case 5:  // y = p - root is valid, y = p + root is not (if it fits)
                x = find_x( x, true, root );
                y = ref::mod_neg( root );
                o.note += ":y=p-root";
                break;
            default:  // (x, p)
                x = find_x( x, true, root );
                y = ref::p256_p();
                o.note += ":y=p";
                break;
            }
            break;
        case 3:
        {
            // x < 2^223 so that x + p < 2^256
            x.l[ 3 ] &= 0x7fffffffull;
            x = find_x( x, true, root );
            y = ( sel & 1 ) ? ref::mod_neg( root ) : root;
            ref::u256 xp;
            if ( ref::u256_add( xp, x, ref::p256_p() ) == 0 )
                x = xp;
            ref::u256 yp;
            if ( ( sel & 2 ) && ref::u256_add( yp, y, ref::p256_p() ) == 0 )
            {
                y = yp;
                o.note += ":y-too";
            }
        }
        break;
        case 4:
            x = find_x( x, false, root );
            y = ( sel & 1 ) ? ref::mod_neg( root ) : root;
            break;
        case 5:
            y = ref::u256_from_be( ys.data() );
            break;
        case 6:
            if ( sel & 1 )
            {
                x = ref::u256_from_hex( "6b17d1f2e12c4247f8bce6e563a440f277037d812deb33a0f4a13945d898c296" );
                y = ref::u256_from_hex( "4fe342e2fe1a7f9b8ee7eb4a7c0f9e162bce33576b315ececbb6406837bf51f5" );
            }
            else
            {
                x = ref::u256_from_hex( "20b003d2f297be2c5e2c83a7e9f9a5b9eff49111acf4fddbcc0301480e359de6" );
                y = ref::u256_from_hex( "dc809c49652aeb6d63329abf5a52155c766345c28fed3024741c8ed01589d28b" );
            }
            break;
        }

        octets xb = ref::u256_to_be( x ), yb = ref::u256_to_be( y );
        if ( cls == 1 )
        {
            octets& t = bit < 256 ? xb : yb;
            const int b = bit % 256;
            t[ 31 - b / 8 ] ^= static_cast< std::uint8_t >( 1u << ( b % 8 ) );
            o.note += verif::cat( ":", bit < 256 ? "x" : "y", b );
        }
        o.f = { xb, yb };
        return o;
    }

    rc::Gen< Op > gen_pk()
    {
        return rc::gen::map(
            rc::gen::tuple( rc::gen::weightedElement< int >( { { 4, 0 }, { 4, 1 }, { 2, 2 }, { 2, 3 }, { 3, 4 }, { 1, 5 }, { 1, 6 } } ),
                rbytes( 32 ), rbytes( 32 ), verif::range< int >( 0, 511 ), verif::range< int >( 0, 3 ) ),
            []( const std::tuple< int, octets, octets, int, int >& t ) {
                return make_pk( std::get< 0 >( t ), std::get< 1 >( t ), std::get< 2 >( t ), std::get< 3 >( t ), std::get< 4 >( t ) );
            } );
    }

    rc::Gen< Op > gen_op37()
    {
        return rc::gen::weightedOneOf< Op >( {
            { 2, gen_fields( K_SK ) },
            { 2, gen_fields( K_C1 ) },
            { 2, gen_fields( K_S1 ) },
            { 2, gen_fields( K_F4 ) },
            { 2, gen_fields( K_F5 ) },
            { 2, gen_fields( K_F6 ) },
            { 2, gen_fields( K_G2 ) },
            { 5, gen_pk() },
        } );
    }

    rc::Gen< Case > gen_case37()
    {
        return rc::gen::map( rc::gen::mapcat( verif::range< int >( 1, 4 ), []( int n ) { return rc::gen::container< std::vector< Op > >( n, gen_op37() ); } ),
            []( const std::vector< Op >& ops ) {
                Case c;
                c.ops = ops;
                return c;
            } );
    }

    // ---- C38
    Op draw( std::uint64_t n )
    {
        Op o;
        o.kind = K_DRAW;
        o.n    = n;
        return o;
    }

    // the number as four octets; `order` permutes them, because the order in which random_number16() / random_number32()
    // draw their octets is the compiler's choice (both operands of `|` call the RNG)
    octets le24plus( std::uint32_t v, int fourth, int order = 0 )
    {
        const octets le = { static_cast< std::uint8_t >( v ), static_cast< std::uint8_t >( v >> 8 ), static_cast< std::uint8_t >( v >> 16 ), static_cast< std::uint8_t >( fourth ) };
        switch ( order & 3 )
        {
        default: return le;
        case 1: return octets{ le[ 1 ], le[ 0 ], le[ 3 ], le[ 2 ] };
        case 2: return octets{ le[ 2 ], le[ 3 ], le[ 0 ], le[ 1 ] };
        case 3: return octets{ le[ 3 ], le[ 2 ], le[ 1 ], le[ 0 ] };
        }
    }

    rc::Gen< Case > gen_case38()
    {
        const bool          thorough = verif::opt( "tier" ) == "thorough";
        const std::uint64_t long_lo = verif::opt_int( "uniform_lo", thorough ? 2000000 : 1000000 );
        const std::uint64_t long_hi = verif::opt_int( "uniform_hi", thorough ? 6000000 : 1500000 );
        const int           long_weight = static_cast< int >( verif::opt_int( "uniform_weight", 1 ) );

        auto small_draws = rc::gen::map( rc::gen::mapcat( verif::range< int >( 1, 6 ), []( int n ) { return rc::gen::container< std::vector< int > >( n, verif::range< int >( 1, 8 ) ); } ),
            []( const std::vector< int >& v ) {
                std::vector< Op > ops;
                for ( int n : v )
                    ops.push_back( draw( static_cast< std::uint64_t >( n ) ) );
                return ops;
            } );

        // patterns: constant, periodic, little endian numbers around the limit, random
        auto pattern = rc::gen::weightedOneOf< octets >( {
            { 3, rc::gen::map( rc::gen::tuple( rc::gen::element( 0xff, 0x00, 0x0f, 0xf0, 0x80 ), verif::range< int >( 1, 4 ) ),
                     []( const std::tuple< int, int >& t ) { return octets( std::get< 1 >( t ), static_cast< std::uint8_t >( std::get< 0 >( t ) ) ); } ) },
            { 3, rc::gen::map( rc::gen::tuple( rc::gen::element( 999999u, 1000000u, 1000001u, 1048575u, 1048576u, 0xffffffu, 0xf423ffu, 0x0f4240u, 0x100000u, 0x7fffffu,
                                                    0x800000u, 65535u, 65536u ),
                                    verif::range< int >( 0, 255 ), verif::range< int >( 0, 4 ) ),
                     []( const std::tuple< std::uint32_t, int, int >& t ) {
                         // 0: three octets, 1..4: four octets in one of the four plausible draw orders
                         octets o = le24plus( std::get< 0 >( t ), std::get< 2 >( t ) == 0 ? 0 : ( std::get< 1 >( t ) & 0xf0 ), std::get< 2 >( t ) ? std::get< 2 >( t ) - 1 : 0 );
                         o.resize( std::get< 2 >( t ) == 0 ? 3 : 4 );
                         return o;
                     } ) },
            { 2, rc::gen::map( rc::gen::tuple( verif::range< std::uint32_t >( 999000u, 1050000u ), verif::range< int >( 0, 255 ), verif::range< int >( 0, 4 ) ),
                     []( const std::tuple< std::uint32_t, int, int >& t ) {
                         octets o = le24plus( std::get< 0 >( t ), std::get< 2 >( t ) == 0 ? 0 : ( std::get< 1 >( t ) & 0xf0 ), std::get< 2 >( t ) ? std::get< 2 >( t ) - 1 : 0 );
                         o.resize( std::get< 2 >( t ) == 0 ? 3 : 4 );
                         return o;
                     } ) },
            { 2, rc::gen::mapcat( verif::range< int >( 1, 9 ), []( int n ) { return rbytes( n ); } ) },
        } );

        auto pattern_case = rc::gen::map( rc::gen::tuple( pattern, verif::range< int >( 1, 24 ), verif::range< std::uint64_t >( 1, 1000000000ull ), small_draws ),
            []( const std::tuple< octets, int, std::uint64_t, std::vector< Op > >& t ) {
                Case c;
                c.c38     = true;
                c.pattern = std::get< 0 >( t );
                c.repeat  = std::get< 1 >( t );
                c.seed    = std::get< 2 >( t );
                c.ops     = std::get< 3 >( t );
                return c;
            } );

        auto short_uniform = rc::gen::map( rc::gen::tuple( verif::range< std::uint64_t >( 1, 1000000000ull ), verif::range< std::uint64_t >( 1, 400 ) ),
            []( const std::tuple< std::uint64_t, std::uint64_t >& t ) {
                Case c;
                c.c38  = true;
                c.seed = std::get< 0 >( t );
                c.ops  = { draw( std::get< 1 >( t ) ) };
                return c;
            } );

        auto long_uniform = rc::gen::map( rc::gen::tuple( verif::range< std::uint64_t >( 1, 1000000000ull ), verif::range< std::uint64_t >( long_lo, long_hi ) ),
            []( const std::tuple< std::uint64_t, std::uint64_t >& t ) {
                Case c;
                c.c38  = true;
                c.seed = std::get< 0 >( t );
                c.ops  = { draw( std::get< 1 >( t ) ) };
                return c;
            } );

        return rc::gen::weightedOneOf< Case >( { { 60, pattern_case }, { 20, short_uniform }, { long_weight, long_uniform } } );
    }

    rc::Gen< Case > gen_case() { return verif::property() == "C38" ? gen_case38() : gen_case37(); }

    // ---------------------------------------------------------------------------------------------- running
    using u128 = bluetoe::details::uint128_t;

    u128 le128( const octets& be )
    {
        u128 r{};
        for ( std::size_t i = 0; i != 16 && i != be.size(); ++i )
            r[ i ] = be[ be.size() - 1 - i ];
        return r;
    }

    // exact size heap copy in little endian order: reads past an operand are ASan reports
    std::unique_ptr< std::uint8_t[] > le_heap( const octets& be )
    {
        std::unique_ptr< std::uint8_t[] > p( new std::uint8_t[ be.size() ] );
        std::reverse_copy( be.begin(), be.end(), p.get() );
        return p;
    }

    template < class A >
    std::string hex_be( const A& le )
    {
        octets v( le.rbegin(), le.rend() );
        return verif::hex( v );
    }

    bluetoe::link_layer::device_address address( const octets& type, const octets& be )
    {
        octets le( be.rbegin(), be.rend() );
        return bluetoe::link_layer::device_address( le.data(), ( type[ 0 ] & 1 ) != 0 );
    }

    void subkey_labels( const ref::block& key, verif::Report& rep )
    {
        ref::block k1, k2;
        const ref::block zero{};
        const ref::block l = ref::aes128( key, zero );
        ref::cmac_subkeys( key, k1, k2 );
        rep.label( verif::cat( "cmac-subkeys:msb(L)=", ( l[ 0 ] >> 7 ), ",msb(K1)=", ( k1[ 0 ] >> 7 ) ) );
    }

    void run37( const Case& c, verif::Report& rep )
    {
        bluetoe::nrf52_details::security_tool_box tb;
        nrf_emul::the_rng().reset( {}, 0, 1 );

        bool nontrivial = false;
        for ( std::size_t step = 0; step != c.ops.size(); ++step )
        {
            const Op&   o    = c.ops[ step ];
            const auto& f    = o.f;
            const char* name = info( o.kind ).name;
            if ( o.kind == K_DRAW || f.size() != info( o.kind ).fields.size() )
                continue;
            rep.label( verif::cat( "fn=", name ) );
            auto B = [&]( std::size_t i ) { return ref::to_block( f[ i ] ); };

            switch ( o.kind )
            {
            case K_SK:
            {
                // the link layer hands SKD = SKDm (octets 0..7) | SKDs (octets 8..15), least significant octet first, to aes_le()
                const u128 got  = bluetoe::nrf52_details::aes_le( le128( f[ 0 ] ), le128( ref::cat( f[ 2 ], f[ 1 ] ) ) );
                const auto want = ref::session_key( B( 0 ), f[ 1 ], f[ 2 ] );
                V_CHECK( hex_be( got ) == ref::to_hex( want ), "toolbox.session-key", "step ", step, ": SK = ", hex_be( got ), ", e(LTK, SKDs||SKDm) = ", ref::to_hex( want ) );
                nontrivial = true;
            }
            break;
            case K_C1:
            {
                const u128 got  = tb.c1( le128( f[ 0 ] ), le128( f[ 1 ] ), le128( ref::c1_p1( f[ 2 ], f[ 3 ], f[ 4 ][ 0 ], f[ 5 ][ 0 ] ) ), le128( ref::c1_p2( f[ 6 ], f[ 7 ] ) ) );
                const auto want = ref::c1( B( 0 ), B( 1 ), f[ 2 ], f[ 3 ], f[ 4 ][ 0 ], f[ 5 ][ 0 ], f[ 6 ], f[ 7 ] );
                V_CHECK( hex_be( got ) == ref::to_hex( want ), "toolbox.c1", "step ", step, ": c1 = ", hex_be( got ), ", specification: ", ref::to_hex( want ) );
                nontrivial = true;
            }
            break;
            case K_S1:
            {
                const u128 got  = tb.s1( le128( f[ 0 ] ), le128( f[ 1 ] ), le128( f[ 2 ] ) );
                const auto want = ref::s1( B( 0 ), B( 1 ), B( 2 ) );
                V_CHECK( hex_be( got ) == ref::to_hex( want ), "toolbox.s1", "step ", step, ": s1 = ", hex_be( got ), ", specification: ", ref::to_hex( want ) );
                nontrivial = true;
            }
            break;
            case K_F4:
            {
                auto       u = le_heap( f[ 0 ] ), v = le_heap( f[ 1 ] );
                const u128 got  = tb.f4( u.get(), v.get(), le128( f[ 2 ] ), f[ 3 ][ 0 ] );
                const auto want = ref::f4( f[ 0 ], f[ 1 ], B( 2 ), f[ 3 ][ 0 ] );
                V_CHECK( hex_be( got ) == ref::to_hex( want ), "toolbox.f4", "step ", step, ": f4 = ", hex_be( got ), ", specification: ", ref::to_hex( want ) );
                subkey_labels( B( 2 ), rep );
                nontrivial = true;
            }
            break;
            case K_F5:
            {
                bluetoe::details::ecdh_shared_secret_t w;
                std::reverse_copy( f[ 0 ].begin(), f[ 0 ].end(), w.begin() );
                const auto got = tb.f5( w, le128( f[ 1 ] ), le128( f[ 2 ] ), address( f[ 3 ], f[ 4 ] ), address( f[ 5 ], f[ 6 ] ) );
                ref::block mac_key, ltk;
                ref::f5( f[ 0 ], B( 1 ), B( 2 ), ref::addr56( f[ 3 ][ 0 ] & 1, f[ 4 ] ), ref::addr56( f[ 5 ][ 0 ] & 1, f[ 6 ] ), mac_key, ltk );
                V_CHECK( hex_be( got.first ) == ref::to_hex( mac_key ), "toolbox.f5", "step ", step, ": f5 MacKey = ", hex_be( got.first ), ", specification: ", ref::to_hex( mac_key ) );
                V_CHECK( hex_be( got.second ) == ref::to_hex( ltk ), "toolbox.f5", "step ", step, ": f5 LTK = ", hex_be( got.second ), ", specification: ", ref::to_hex( ltk ) );
                subkey_labels( ref::cmac( ref::to_block( ref::from_hex( "6C888391AAF5A53860370BDB5A6083BE" ) ), f[ 0 ] ), rep );
                nontrivial = true;
            }
            break;
            case K_F6:
            {
                bluetoe::details::io_capabilities_t io;
                std::reverse_copy( f[ 4 ].begin(), f[ 4 ].end(), io.begin() );
                const u128 got  = tb.f6( le128( f[ 0 ] ), le128( f[ 1 ] ), le128( f[ 2 ] ), le128( f[ 3 ] ), io, address( f[ 5 ], f[ 6 ] ), address( f[ 7 ], f[ 8 ] ) );
                const auto want = ref::f6( B( 0 ), B( 1 ), B( 2 ), B( 3 ), f[ 4 ], ref::addr56( f[ 5 ][ 0 ] & 1, f[ 6 ] ), ref::addr56( f[ 7 ][ 0 ] & 1, f[ 8 ] ) );
                V_CHECK( hex_be( got ) == ref::to_hex( want ), "toolbox.f6", "step ", step, ": f6 = ", hex_be( got ), ", specification: ", ref::to_hex( want ) );
                subkey_labels( B( 0 ), rep );
                nontrivial = true;
            }
            break;
            case K_G2:
            {
                auto                u = le_heap( f[ 0 ] ), v = le_heap( f[ 1 ] );
                const std::uint32_t got  = tb.g2( u.get(), v.get(), le128( f[ 2 ] ), le128( f[ 3 ] ) );
                const std::uint32_t want = ref::g2( f[ 0 ], f[ 1 ], B( 2 ), B( 3 ) );
                V_CHECK( got == want, "toolbox.g2", "step ", step, ": g2 = ", got, ", specification: ", want );
                subkey_labels( B( 2 ), rep );
                nontrivial = true;
            }
            break;
            case K_PK:
            {
                const ref::u256 x = ref::u256_from_be( f[ 0 ].data() ), y = ref::u256_from_be( f[ 1 ].data() );
                const bool      want = ref::p256_on_curve( x, y );
                std::unique_ptr< std::uint8_t[] > key( new std::uint8_t[ 64 ] );
                std::reverse_copy( f[ 0 ].begin(), f[ 0 ].end(), key.get() );
                std::reverse_copy( f[ 1 ].begin(), f[ 1 ].end(), key.get() + 32 );
                const bool got = tb.is_valid_public_key( key.get() );
                const bool x_ge_p = ref::u256_cmp( x, ref::p256_p() ) >= 0, y_ge_p = ref::u256_cmp( y, ref::p256_p() ) >= 0;
                const bool eq_mod_p = ref::u256_cmp( ref::mod_mul( ref::mod_reduce( y ), ref::mod_reduce( y ) ), ref::p256_rhs( ref::mod_reduce( x ) ) ) == 0;
                V_CHECK( got == want, "toolbox.public-key", "step ", step, ": is_valid_public_key = ", got, " for a point that is ", want ? "" : "NOT ",
                    "on P-256 (x >= p: ", x_ge_p, ", y >= p: ", y_ge_p, ", equation holds mod p: ", eq_mod_p, ")" );
                const bool twist = !x_ge_p && !y_ge_p && !want
                    && ref::u256_cmp( ref::mod_mul( y, y ), ref::mod_neg( ref::p256_rhs( x ) ) ) == 0;
                rep.label( verif::cat( "pk:", want ? "valid" : ( x_ge_p || y_ge_p ) ? ( eq_mod_p ? "coordinate>=p,congruent-to-a-point" : "coordinate>=p" )
                                              : twist                                ? "on-the-twist"
                                              : ( ref::u256_is_zero( x ) && ref::u256_is_zero( y ) ) ? "zero"
                                                                                     : "off-curve" ) );
                if ( !want )
                    nontrivial = true;
            }
            break;
            }
        }
        rep.nontrivial = nontrivial;
    }

    // chi-square, 99 degrees of freedom, upper quantile for p = 1e-9 (207.8975...)
    constexpr double chi2_99_limit = 208.0;

    double chi2( const std::vector< std::uint64_t >& hist, std::uint64_t total )
    {
        const double e = static_cast< double >( total ) / static_cast< double >( hist.size() );
        double       s = 0;
        for ( auto h : hist )
            s += ( static_cast< double >( h ) - e ) * ( static_cast< double >( h ) - e ) / e;
        return s;
    }

    void run38( const Case& c, verif::Report& rep )
    {
        bluetoe::nrf52_details::security_tool_box tb;
        auto&                                     rng = nrf_emul::the_rng();
        rng.reset( c.pattern, c.repeat, c.seed );

        std::vector< std::uint64_t > bins( 100, 0 ), digits( 100, 0 );
        std::uint64_t                uniform_draws = 0, draws = 0, above = 0;

        for ( auto& o : c.ops )
        {
            if ( o.kind != K_DRAW )
                continue;
            for ( std::uint64_t i = 0; i != o.n; ++i, ++draws )
            {
                const bool          in_seeded_part = rng.pos >= rng.pattern_bytes();
                const std::uint64_t pos_before     = rng.pos;
                const std::uint32_t naive          = rng.peek3();
                if ( naive > 999999u )
                    ++above;
                rng.budget = 4096;
                u128 key;
                try
                {
                    key = tb.create_passkey();
                }
                catch ( const nrf_emul::rng_budget_exceeded& )
                {
                    verif::fail( "passkey.rng-consumption", verif::cat( "passkey #", draws, " consumed more than 4096 random octets without producing a value" ) );
                }
                const std::uint32_t shown = std::uint32_t( key[ 0 ] ) | ( std::uint32_t( key[ 1 ] ) << 8 ) | ( std::uint32_t( key[ 2 ] ) << 16 ) | ( std::uint32_t( key[ 3 ] ) << 24 );
                V_CHECK_SIG( shown <= 999999u, "passkey.range", "kind=out-of-range", "passkey #", draws, " (RNG stream position ", pos_before, ", next octets as a number: ", naive,
                    "): the displayed value is ", shown, ", more than six digits" );
                for ( std::size_t b = 4; b != 16; ++b )
                    V_CHECK( key[ b ] == 0, "passkey.padding", "passkey #", draws, ": octet ", b, " of the temporary key is ", int( key[ b ] ), ", not 0" );
                if ( in_seeded_part )
                {
                    ++bins[ shown / 10000 ];
                    ++digits[ shown % 100 ];
                    ++uniform_draws;
                }
            }
        }

        rep.nontrivial = above != 0;
        rep.label( c.pattern.empty() ? "stream=seeded" : "stream=pattern+seeded" );
        rep.label_if( above != 0, "some-next-3-octets>999999" );
        if ( !c.pattern.empty() )
        {
            bool all_ff = true, all_00 = true;
            for ( auto b : c.pattern )
            {
                all_ff = all_ff && b == 0xff;
                all_00 = all_00 && b == 0x00;
            }
            rep.label_if( all_ff, "pattern=all-ff" );
            rep.label_if( all_00, "pattern=all-00" );
            if ( c.pattern.size() >= 3 )
            {
                // any of the four draw orders
                bool above = false, limit = false, last = false;
                for ( int order = 0; order != 4; ++order )
                {
                    octets p = c.pattern;
                    p.resize( 4, 0 );
                    const octets        q = le24plus( std::uint32_t( p[ 0 ] ) | ( std::uint32_t( p[ 1 ] ) << 8 ) | ( std::uint32_t( p[ 2 ] ) << 16 ), p[ 3 ], order );
                    const std::uint32_t v = ( std::uint32_t( q[ 0 ] ) | ( std::uint32_t( q[ 1 ] ) << 8 ) | ( std::uint32_t( q[ 2 ] ) << 16 ) ) & 0xfffff;
                    const std::uint32_t v24 = std::uint32_t( q[ 0 ] ) | ( std::uint32_t( q[ 1 ] ) << 8 ) | ( std::uint32_t( q[ 2 ] ) << 16 );
                    above = above || ( v24 > 1000000u && v24 < 1048576u );
                    limit = limit || v == 1000000u;
                    last  = last || v24 == 999999u;
                }
                rep.label_if( above, "pattern=just-above-1000000" );
                rep.label_if( limit, "pattern=1000000" );
                rep.label_if( last, "pattern=999999" );
            }
        }

        if ( uniform_draws >= 20000 )
        {
            rep.label( verif::cat( "chi-square-evaluated:draws>=", uniform_draws >= 1000000 ? "1e6" : uniform_draws >= 100000 ? "1e5" : "2e4" ) );
            const double a = chi2( bins, uniform_draws ), b = chi2( digits, uniform_draws );
            V_CHECK_SIG( a <= chi2_99_limit, "passkey.uniform", "kind=value-bins", "chi-square over 100 equal bins of [0, 10^6) is ", a, " after ", uniform_draws,
                " passkeys from a uniform octet stream; the p = 1e-9 quantile is ", chi2_99_limit, " (lowest bin ", bins[ 0 ], ", highest bin ", bins[ 99 ], ", expected ",
                uniform_draws / 100, ")" );
            V_CHECK_SIG( b <= chi2_99_limit, "passkey.uniform", "kind=last-two-digits", "chi-square over the two least significant digits is ", b, " after ", uniform_draws,
                " passkeys from a uniform octet stream; the p = 1e-9 quantile is ", chi2_99_limit );
        }
    }

    void run( const Case& c, verif::Report& rep )
    {
        static const std::string self = ref::selfcheck();
        if ( !self.empty() )
        {
            // the reference itself is broken: nothing this harness says can be trusted
            std::cerr << "refcrypto self check failed: " << self << "\n";
            std::abort();
        }
        if ( c.c38 )
            run38( c, rep );
        else
            run37( c, rep );
    }
}

int main( int argc, char** argv )
{
    verif::Harness< Case > h;
    h.gen       = gen_case;
    h.to_text   = to_text;
    h.from_text = from_text;
    h.run       = run;
    return verif::run_main( argc, argv, h );
}
