// C19: bluetoe::link_layer::ll_l2cap_sdu_buffer (L2CAP fragmentation / reassembly) on top of the real ll_data_pdu_buffer
// (DESIGN.md section 4, C19)
//
// The harness is the L2CAP layer / link layer above the buffer (allocate+commit of SDUs and LL control PDUs,
// next_ll_l2cap_received / free_ll_l2cap_received, max size changes), the radio below it and a fault-free central that
// acknowledges everything (loss and retransmission are C15's subject).
//
// Outgoing oracle: the non-empty PDUs the central accepts are split by LLID. LLID 3: exactly the committed LL control
// PDUs in order. LLID 2/1: a start fragment (LLID 2) only when no SDU is in progress, continuations (LLID 1) only while
// one is; the fragment payloads concatenate to the committed SDUs (L2CAP header + payload) in commit order; every fragment
// (header + payload) is at most the largest max_tx_size() in force while its SDU was on its way; after a fault-free drain
// everything committed has arrived.
// Incoming oracle: the harness records the stream of PDUs stored by the PDU buffer and runs an independent reassembler
// over it (Core Vol 3 Part A 7.2.1 / Vol 6 Part B 2.4.1: LLID 2 starts an L2CAP PDU whose first two octets announce the
// length, LLID 1 continues it, a start fragment discards an unfinished PDU). Everything next_ll_l2cap_received() hands
// out must be, in stream order, either a stored LL control PDU (all of them, byte for byte) or an SDU that equals the
// first `announced length + 4` octets of one start fragment followed by its continuations. SDUs that belong to a
// malformed part of the stream (orphan continuation, restart, over-long fragment, announced length > MTU, short start)
// may be dropped; SDUs received before the first malformed element must be delivered. With the MTU 23 specialisation
// the class is a pass-through: every stored PDU has to come out unchanged and in order.
// Memory safety: the object lives on the heap (exact size) and the TU is compiled with
// -fsanitize-address-field-padding=1; the radio has a user provided destructor, therefore the members of
// ll_l2cap_sdu_buffer are separated by poisoned padding and an overflow of receive_buffer_ / transmit_buffer_ into the
// neighbouring member is an ASan report (intra-object-overflow).
#include "verif.hpp"

#include <bluetoe/nrf.hpp>
#include <bluetoe/ll_data_pdu_buffer.hpp>
#include <bluetoe/ll_l2cap_sdu_buffer.hpp>

#include <deque>
#include <memory>

namespace c19 {
    namespace ll = bluetoe::link_layer;

    struct default_tag
    {
    };
    struct encrypted_tag
    {
    };

    template < std::size_t Tx, std::size_t Rx, class Tag >
    struct radio : ll::ll_data_pdu_buffer< Tx, Rx, radio< Tx, Rx, Tag > >
    {
        struct lock_guard
        {
            lock_guard() {}
            ~lock_guard() {}
        };
        // user provided, not optimised away: makes every class derived from the radio eligible for ASan field padding
        ~radio() { asm volatile( "" ::: "memory" ); }

        void increment_receive_packet_counter() {}
        void increment_transmit_packet_counter() {}

        using base = ll::ll_data_pdu_buffer< Tx, Rx, radio< Tx, Rx, Tag > >;
        using base::allocate_receive_buffer;
        using base::next_transmit;
        using base::received;
    };

    template < std::size_t MTU, std::size_t Tx, std::size_t Rx, class Tag >
    struct sdu_buffer : ll::ll_l2cap_sdu_buffer< radio< Tx, Rx, Tag >, sdu_buffer< MTU, Tx, Rx, Tag >, MTU >
    {
        unsigned data_callbacks = 0;
        void     pdu_receive_data_callback( const ll::write_buffer& ) { ++data_callbacks; }
    };
}

namespace bluetoe {
namespace link_layer {
    template < std::size_t Tx, std::size_t Rx >
    struct pdu_layout_by_radio< c19::radio< Tx, Rx, c19::encrypted_tag > >
    {
        using pdu_layout = bluetoe::nrf_details::encrypted_pdu_layout;
    };
}
}

namespace {
    using namespace c19;

    struct sdu_if
    {
        virtual ~sdu_if() {}
        virtual ll::read_buffer  alloc_l2cap( std::size_t payload )  = 0;
        virtual void             commit_l2cap( ll::read_buffer )     = 0;
        virtual ll::read_buffer  alloc_ll( std::size_t payload )     = 0;
        virtual void             commit_ll( ll::read_buffer )        = 0;
        virtual ll::write_buffer next_received()                     = 0;
        virtual void             free_received()                     = 0;
        virtual ll::read_buffer  alloc_rx()                          = 0;
        virtual ll::write_buffer received( ll::read_buffer )         = 0;
        virtual ll::write_buffer next_transmit()                     = 0;
        virtual std::size_t      max_rx()                            = 0;
        virtual std::size_t      max_tx()                            = 0;
        virtual void             max_rx( std::size_t )               = 0;
        virtual void             max_tx( std::size_t )               = 0;
        virtual std::size_t      max_max_rx()                        = 0;
        virtual std::size_t      max_max_tx()                        = 0;
        virtual std::uint16_t       header( const std::uint8_t* )          = 0;
        virtual void                header( std::uint8_t*, std::uint16_t ) = 0;
        virtual std::uint8_t*       body( std::uint8_t* )                  = 0;
        virtual const std::uint8_t* body( const std::uint8_t* )            = 0;
        virtual std::size_t         mem_size( std::size_t payload )        = 0;
    };

    template < std::size_t MTU, std::size_t Tx, std::size_t Rx, class Tag >
    struct sdu_impl : sdu_if
    {
        using buffer_t = sdu_buffer< MTU, Tx, Rx, Tag >;
        using layout   = typename radio< Tx, Rx, Tag >::layout;
        std::unique_ptr< buffer_t > r{ new buffer_t };

        ll::read_buffer  alloc_l2cap( std::size_t n ) override { return r->allocate_l2cap_transmit_buffer( n ); }
        void             commit_l2cap( ll::read_buffer b ) override { r->commit_l2cap_transmit_buffer( b ); }
        ll::read_buffer  alloc_ll( std::size_t n ) override { return r->allocate_ll_transmit_buffer( n ); }
        void             commit_ll( ll::read_buffer b ) override { r->commit_ll_transmit_buffer( b ); }
        ll::write_buffer next_received() override { return r->next_ll_l2cap_received(); }
        void             free_received() override { r->free_ll_l2cap_received(); }
        ll::read_buffer  alloc_rx() override { return r->allocate_receive_buffer(); }
        ll::write_buffer received( ll::read_buffer b ) override { return r->received( b ); }
        ll::write_buffer next_transmit() override { return r->next_transmit(); }
        std::size_t      max_rx() override { return r->max_rx_size(); }
        std::size_t      max_tx() override { return r->max_tx_size(); }
        void             max_rx( std::size_t n ) override { r->max_rx_size( n ); }
        void             max_tx( std::size_t n ) override { r->max_tx_size( n ); }
        std::size_t      max_max_rx() override { return r->max_max_rx_size(); }
        std::size_t      max_max_tx() override { return r->max_max_tx_size(); }

        std::uint16_t       header( const std::uint8_t* p ) override { return layout::header( p ); }
        void                header( std::uint8_t* p, std::uint16_t h ) override { layout::header( p, h ); }
        std::uint8_t*       body( std::uint8_t* p ) override { return layout::body( ll::read_buffer{ p, layout::data_channel_pdu_memory_size( 0 ) } ).first; }
        const std::uint8_t* body( const std::uint8_t* p ) override { return layout::body( ll::write_buffer{ p, layout::data_channel_pdu_memory_size( 0 ) } ).first; }
        std::size_t         mem_size( std::size_t payload ) override { return layout::data_channel_pdu_memory_size( payload ); }
    };

    struct config
    {
        std::size_t                                 mtu, tx, rx, overhead;
        const char*                                 layout;
        std::function< std::unique_ptr< sdu_if >() > make;
    };

    template < std::size_t MTU, std::size_t Tx, std::size_t Rx, class Tag >
    config cfg( const char* name )
    {
        return config{ MTU, Tx, Rx, radio< Tx, Rx, Tag >::layout_overhead, name, [] { return std::unique_ptr< sdu_if >( new sdu_impl< MTU, Tx, Rx, Tag >() ); } };
    }

    const std::vector< config >& configs()
    {
        // ring sizes are at least twice the largest max_rx_size / max_tx_size the harness sets, see max_rx_limit()
        static const std::vector< config > c = {
            cfg< 23, 60, 60, default_tag >( "default" ),    cfg< 23, 128, 128, default_tag >( "default" ),  cfg< 23, 60, 520, encrypted_tag >( "nrf-encrypted" ),
            cfg< 24, 60, 60, default_tag >( "default" ),    cfg< 24, 128, 520, default_tag >( "default" ),  cfg< 24, 60, 128, encrypted_tag >( "nrf-encrypted" ),
            cfg< 30, 60, 128, default_tag >( "default" ),   cfg< 30, 128, 520, default_tag >( "default" ),  cfg< 30, 128, 520, encrypted_tag >( "nrf-encrypted" ),
            cfg< 65, 60, 128, default_tag >( "default" ),   cfg< 65, 128, 520, default_tag >( "default" ),  cfg< 65, 128, 300, encrypted_tag >( "nrf-encrypted" ),
            cfg< 158, 60, 128, default_tag >( "default" ),  cfg< 158, 520, 520, default_tag >( "default" ), cfg< 158, 128, 520, encrypted_tag >( "nrf-encrypted" ),
            cfg< 247, 60, 60, default_tag >( "default" ),   cfg< 247, 520, 520, default_tag >( "default" ), cfg< 247, 520, 520, encrypted_tag >( "nrf-encrypted" ),
        };
        return c;
    }

    // an empty PDU ring whose pointers sit mid-buffer cannot allocate max_rx_size / max_tx_size bytes if that is more than half of
    // the ring (DESIGN.md C18: reception starvation; the same rule stops the transmission of an SDU for good when the transmit ring
    // is smaller than two maximum PDUs, e.g. Tx = 29: after the first 29 byte fragment was acknowledged both ring pointers are at
    // offset 29 and no further 29 byte fragment can be allocated). Not one of the listed properties: stay out of it by construction
    std::size_t max_rx_limit( const config& cf ) { return std::min< std::size_t >( 251, cf.rx / 2 - cf.overhead ); }
    std::size_t max_tx_limit( const config& cf ) { return std::min< std::size_t >( 251, cf.tx / 2 - cf.overhead ); }

    // ------------------------------------------------------------------------------------------ case
    enum op_kind { IN, XCHG, RECV, PEEK, SDU, LLPDU, MAXRX, MAXTX };

    struct Op
    {
        int kind;
        int a;  // IN: llid; XCHG: count; SDU/LLPDU: payload length; MAXRX/MAXTX: raw size
        int b;  // IN: body length
        int c;  // IN (LLID 2): announced L2CAP length
    };

    struct Case
    {
        int               cfg   = 0;
        int               maxrx = 29, maxtx = 29;
        std::vector< Op > ops;
    };

    // ---- generator: incoming traffic is generated as groups (one L2CAP SDU, well formed or damaged in a specific way)
    std::vector< int > split( int total, int first_min, int frag_max )
    {
        // split `total` octets into fragments of 1..frag_max (first one at least first_min, if possible)
        std::vector< int > r;
        int                rest = total;
        bool               first = true;
        while ( rest > 0 )
        {
            const int lo = first ? std::min( { first_min, rest, frag_max } ) : 1;
            const int hi = std::min( rest, frag_max );
            const int n  = *rc::gen::weightedOneOf< int >( { { 3, rc::gen::just( hi ) }, { 2, verif::range< int >( lo, hi ) } } );
            r.push_back( n );
            rest -= n;
            first = false;
        }
        return r;
    }

    enum group_kind { G_GOOD, G_GOOD_CTRL, G_CTRL, G_ORPHAN, G_RESTART, G_LONG_CONT, G_LONG_START, G_TOO_BIG, G_SHORT_START, G_INCOMPLETE, G_COUNT };

    std::vector< Op > gen_group( const config& cf, int maxrx )
    {
        const int mtu      = static_cast< int >( cf.mtu );
        const int frag_max = maxrx - 2;
        const int kind     = *rc::gen::weightedElement< int >( { { 8, G_GOOD }, { 2, G_GOOD_CTRL }, { 2, G_CTRL }, { 1, G_ORPHAN }, { 2, G_RESTART }, { 3, G_LONG_CONT },
            { 1, G_LONG_START }, { 2, G_TOO_BIG }, { 1, G_SHORT_START }, { 1, G_INCOMPLETE } } );
        const int L        = *rc::gen::weightedOneOf< int >( { { 1, rc::gen::just( 0 ) }, { 2, rc::gen::just( mtu ) }, { 1, rc::gen::just( mtu - 1 ) },
            { 4, verif::range< int >( 0, mtu ) }, { 3, verif::range< int >( std::min( mtu, 20 ), mtu ) } } );
        std::vector< Op > g;
        auto              sdu = [&]( int announced, int total, bool drop_tail ) {
            auto parts = split( total, 4, frag_max );
            if ( drop_tail && parts.size() > 1 )
                parts.pop_back();
            else if ( drop_tail && parts[ 0 ] > 4 )
                parts[ 0 ] -= 1;
            for ( std::size_t i = 0; i != parts.size(); ++i )
                g.push_back( Op{ IN, i == 0 ? 2 : 1, parts[ i ], announced } );
        };
        const Op ctrl{ IN, 3, *verif::range< int >( 1, std::min( 27, frag_max ) ), 0 };
        switch ( kind )
        {
        case G_GOOD:
            sdu( L, L + 4, false );
            break;
        case G_GOOD_CTRL:
            sdu( L, L + 4, false );
            g.insert( g.begin() + *verif::range< int >( 0, static_cast< int >( g.size() ) ), ctrl );
            break;
        case G_CTRL:
            g.push_back( ctrl );
            break;
        case G_ORPHAN:
            for ( int n = *verif::range< int >( 1, 3 ); n; --n )
                g.push_back( Op{ IN, 1, *verif::range< int >( 1, frag_max ), 0 } );
            break;
        case G_RESTART:
            // an unfinished SDU, then a complete one (without any pause)
            sdu( L, L + 4, true );
            sdu( *verif::range< int >( 0, mtu ), 0, false );
            {
                const int L2 = *verif::range< int >( 0, mtu );
                sdu( L2, L2 + 4, false );
            }
            break;
        case G_LONG_CONT:
            // the last continuation carries more than what is missing (up to a full PDU more)
            sdu( L, L + 4, false );
            if ( g.size() == 1 )
                g.push_back( Op{ IN, 1, *verif::range< int >( 1, frag_max ), 0 } ), g[ 0 ].b = std::max( 4, g[ 0 ].b - 1 );
            else
                g.back().b = *verif::range< int >( std::min( g.back().b + 1, frag_max ), frag_max );
            break;
        case G_LONG_START:
            g.push_back( Op{ IN, 2, *verif::range< int >( std::min( L + 5, frag_max ), frag_max ), L } );
            break;
        case G_TOO_BIG: {
            const int big = mtu + *rc::gen::weightedOneOf< int >( { { 3, rc::gen::just( 1 ) }, { 2, verif::range< int >( 2, 10 ) }, { 2, verif::range< int >( 11, 300 ) } } );
            g.push_back( Op{ IN, 2, *verif::range< int >( 4, frag_max ), big } );
            for ( int n = *verif::range< int >( 0, 3 ); n; --n )
                g.push_back( Op{ IN, 1, *verif::range< int >( 1, frag_max ), 0 } );
        }
        break;
        case G_SHORT_START:
            g.push_back( Op{ IN, 2, *verif::range< int >( 1, 3 ), L } );
            for ( int n = *verif::range< int >( 0, 2 ); n; --n )
                g.push_back( Op{ IN, 1, *verif::range< int >( 1, frag_max ), 0 } );
            break;
        case G_INCOMPLETE:
            sdu( L, L + 4, true );
            break;
        }
        // the link layer looks into the buffer now and then
        std::vector< Op > out;
        for ( auto& o : g )
        {
            out.push_back( o );
            if ( *rc::gen::weightedElement< int >( { { 3, 0 }, { 1, 1 } } ) )
                out.push_back( Op{ *rc::gen::element< int >( RECV, RECV, PEEK ), 0, 0, 0 } );
        }
        return out;
    }

    rc::Gen< Case > gen_case()
    {
        return rc::gen::exec( [] {
            Case c;
            c.cfg            = *verif::range< int >( 0, static_cast< int >( configs().size() ) - 1 );
            const config& cf = configs()[ c.cfg ];
            const int     rl = static_cast< int >( max_rx_limit( cf ) ), tl = static_cast< int >( max_tx_limit( cf ) );
            c.maxrx          = *rc::gen::weightedOneOf< int >( { { 2, rc::gen::just( 29 ) }, { 3, rc::gen::just( rl ) }, { 3, verif::range< int >( 29, rl ) } } );
            c.maxtx          = *rc::gen::weightedOneOf< int >( { { 3, rc::gen::just( 29 ) }, { 2, rc::gen::just( tl ) }, { 3, verif::range< int >( 29, tl ) } } );
            const int mtu    = static_cast< int >( cf.mtu );
            const int maxrx  = c.maxrx;

            const auto item = rc::gen::weightedOneOf< std::vector< Op > >( {
                { 10, rc::gen::exec( [&cf, maxrx] { return gen_group( cf, maxrx ); } ) },
                { 6, rc::gen::exec( [mtu] {
                     const int L = *rc::gen::weightedOneOf< int >( { { 1, rc::gen::just( 0 ) }, { 2, rc::gen::just( mtu ) }, { 1, rc::gen::just( mtu - 1 ) }, { 4, verif::range< int >( 0, mtu ) } } );
                     return std::vector< Op >{ Op{ SDU, L, 0, 0 } };
                 } ) },
                { 2, rc::gen::exec( [] { return std::vector< Op >{ Op{ LLPDU, *verif::range< int >( 1, 27 ), 0, 0 } }; } ) },
                { 6, rc::gen::exec( [] { return std::vector< Op >{ Op{ XCHG, *verif::range< int >( 1, 4 ), 0, 0 } }; } ) },
                { 4, rc::gen::just( std::vector< Op >{ Op{ RECV, 0, 0, 0 } } ) },
                { 1, rc::gen::exec( [] { return std::vector< Op >{ Op{ MAXTX, *verif::range< int >( 0, 300 ), 0, 0 } }; } ) },
            } );
            const auto items = *rc::gen::container< std::vector< std::vector< Op > > >( item );
            for ( auto& i : items )
                c.ops.insert( c.ops.end(), i.begin(), i.end() );
            return c;
        } );
    }

    std::string to_text( const Case& c )
    {
        std::ostringstream os;
        const auto&        cf = configs()[ c.cfg ];
        os << "cfg " << c.cfg << "  # mtu " << cf.mtu << " tx " << cf.tx << " rx " << cf.rx << " layout " << cf.layout << "\n";
        os << "param maxrx " << c.maxrx << " maxtx " << c.maxtx << "\n";
        for ( auto& o : c.ops )
        {
            switch ( o.kind )
            {
            case IN:
                if ( o.a == 2 )
                    os << "in start " << o.b << " announce " << o.c << "\n";
                else
                    os << "in " << ( o.a == 1 ? "cont" : "ctrl" ) << " " << o.b << "\n";
                break;
            case XCHG: os << "x " << o.a << "\n"; break;
            case RECV: os << "recv\n"; break;
            case PEEK: os << "peek\n"; break;
            case SDU: os << "sdu " << o.a << "\n"; break;
            case LLPDU: os << "llpdu " << o.a << "\n"; break;
            case MAXRX: os << "maxrx " << o.a << "\n"; break;
            case MAXTX: os << "maxtx " << o.a << "\n"; break;
            }
        }
        return os.str();
    }

    Case from_text( const std::string& t )
    {
        Case         c;
        verif::Lines L( t );
        for ( auto& l : L.lines )
        {
            const int a = static_cast< int >( verif::tok_int( l, 1 ) );
            if ( l[ 0 ] == "cfg" )
                c.cfg = a % static_cast< int >( configs().size() );
            else if ( l[ 0 ] == "param" )
            {
                c.maxrx = static_cast< int >( verif::tok_int( l, 2, 29 ) );
                c.maxtx = static_cast< int >( verif::tok_int( l, 4, 29 ) );
            }
            else if ( l[ 0 ] == "in" )
            {
                const std::string k = verif::tok_str( l, 1 );
                c.ops.push_back( Op{ IN, k == "start" ? 2 : k == "cont" ? 1 : 3, static_cast< int >( verif::tok_int( l, 2 ) ), static_cast< int >( verif::tok_int( l, 4 ) ) } );
            }
            else if ( l[ 0 ] == "x" ) c.ops.push_back( Op{ XCHG, std::max( 1, std::min( a, 8 ) ), 0, 0 } );
            else if ( l[ 0 ] == "recv" ) c.ops.push_back( Op{ RECV, 0, 0, 0 } );
            else if ( l[ 0 ] == "peek" ) c.ops.push_back( Op{ PEEK, 0, 0, 0 } );
            else if ( l[ 0 ] == "sdu" ) c.ops.push_back( Op{ SDU, a, 0, 0 } );
            else if ( l[ 0 ] == "llpdu" ) c.ops.push_back( Op{ LLPDU, a, 0, 0 } );
            else if ( l[ 0 ] == "maxrx" ) c.ops.push_back( Op{ MAXRX, a, 0, 0 } );
            else if ( l[ 0 ] == "maxtx" ) c.ops.push_back( Op{ MAXTX, a, 0, 0 } );
        }
        return c;
    }

    // ------------------------------------------------------------------------------------------ model
    using bytes = std::vector< std::uint8_t >;

    struct pdu
    {
        std::uint8_t llid = 1;
        bytes        pay;
    };

    std::string show( const pdu& p ) { return verif::cat( "{llid ", int( p.llid ), " len ", p.pay.size(), " ", verif::hex( p.pay ), "}" ); }

    bytes pattern( unsigned serial, std::size_t len, std::uint8_t salt )
    {
        bytes r( len );
        for ( std::size_t i = 0; i != len; ++i )
            r[ i ] = static_cast< std::uint8_t >( salt + serial * 29 + i * 13 );
        return r;
    }

    // what the reference reassembler allows to come out of the buffer
    struct item
    {
        bool  control   = false;
        bool  mandatory = false;  // has to be delivered (control PDUs; SDUs received before anything malformed)
        pdu   raw;                // control PDU, or the PDU itself in pass-through mode
        bytes sdu;                // L2CAP header + payload
    };

    struct reassembler
    {
        std::size_t         mtu;
        bool                passthrough;
        std::vector< item > items;
        bool                collecting = false, malformed_seen = false;
        std::size_t         announced = 0;
        bytes               collected;
        unsigned            n_malformed = 0, n_fragmented3 = 0, fragments = 0;

        void malformed()
        {
            malformed_seen = true;
            ++n_malformed;
        }

        void complete()
        {
            const bool exact = collected.size() == announced + 4;
            if ( !exact )
                malformed();
            collected.resize( announced + 4 );
            item i;
            i.mandatory = !malformed_seen && announced <= mtu;
            i.raw.llid  = 2;
            i.sdu       = collected;
            items.push_back( i );
            if ( fragments >= 3 )
                ++n_fragmented3;
            collecting = false;
        }

        void feed( const pdu& p )
        {
            if ( passthrough )
            {
                item i;
                i.control = i.mandatory = true;
                i.raw                   = p;
                items.push_back( i );
                return;
            }
            if ( p.llid == 3 )
            {
                item i;
                i.control = i.mandatory = true;
                i.raw                   = p;
                items.push_back( i );
            }
            else if ( p.llid == 2 )
            {
                if ( collecting )
                    malformed();  // the unfinished SDU is discarded
                collecting = false;
                if ( p.pay.size() < 4 )
                    return malformed();
                announced = p.pay[ 0 ] | ( p.pay[ 1 ] << 8 );
                if ( announced > mtu )
                    malformed();
                collected = p.pay;
                fragments = 1;
                if ( collected.size() >= announced + 4 )
                    complete();
                else if ( announced > mtu )
                    ;  // does not fit: the continuations that follow are orphans
                else
                    collecting = true;
            }
            else
            {
                if ( !collecting )
                    return malformed();
                collected.insert( collected.end(), p.pay.begin(), p.pay.end() );
                ++fragments;
                if ( collected.size() >= announced + 4 )
                    complete();
            }
        }
    };

    constexpr std::uint8_t SN = 0x08, NESN = 0x04;

    void run( const Case& c, verif::Report& rep )
    {
        const config& cf = configs()[ c.cfg ];
        auto          b  = cf.make();
        const bool    passthrough = cf.mtu == 23;

        auto clamp = []( std::size_t v, std::size_t lo, std::size_t hi ) { return std::max( lo, std::min( v, hi ) ); };
        b->max_rx( clamp( static_cast< std::size_t >( c.maxrx ), 29, max_rx_limit( cf ) ) );
        b->max_tx( clamp( static_cast< std::size_t >( c.maxtx ), 29, max_tx_limit( cf ) ) );

        // ---- central (fault free)
        bool              c_sn = false, c_nesn = false, c_has_inflight = false;
        pdu               c_inflight;
        std::deque< pdu > c_queue;
        unsigned          c_serial = 0;
        // ---- incoming reference
        reassembler ref{ cf.mtu, passthrough, {}, false, false, 0, {}, 0, 0, 0 };
        std::size_t next_item = 0;  // first item that was neither delivered nor skipped
        // ---- outgoing reference
        struct out_sdu
        {
            bytes       data;   // L2CAP header + payload
            std::size_t limit;  // largest max_tx_size in force while on its way
        };
        std::vector< out_sdu > sdus;
        std::size_t            sdu_cur = 0, sdu_got = 0;  // sdus[ sdu_cur ] has sdu_got octets at the central
        unsigned               cur_fragments = 0;
        std::vector< pdu >     ctrl_out;
        std::size_t            ctrl_got = 0;
        std::size_t            ctrl_limit_dummy = 0;
        unsigned               p_serial = 0;

        unsigned n_rx_full = 0, n_out_frag3 = 0, n_sdu_busy = 0, n_ll_busy = 0, n_delivered_sdu = 0, n_delivered_ctrl = 0, n_skipped = 0, n_exchanges = 0,
                 n_sdu_fragmented_out = 0;
        bool starved = false;
        (void)ctrl_limit_dummy;

        // the central accepted a new non-empty PDU from the peripheral
        auto central_accepts = [&]( std::size_t step, const pdu& p ) {
            if ( p.llid == 3 )
            {
                V_CHECK( ctrl_got < ctrl_out.size(), "sdu.out-invented", "step ", step, ": the central receives the LL control PDU ", show( p ), " that was never committed" );
                V_CHECK( p.pay == ctrl_out[ ctrl_got ].pay, "sdu.out-control", "step ", step, ": the central receives ", show( p ), " expected the committed LL control PDU ",
                    show( ctrl_out[ ctrl_got ] ) );
                ++ctrl_got;
                return;
            }
            V_CHECK( p.llid == 1 || p.llid == 2, "sdu.out-llid", "step ", step, ": PDU with LLID 0 transmitted: ", show( p ) );
            V_CHECK( sdu_cur < sdus.size(), "sdu.out-invented", "step ", step, ": the central receives ", show( p ), " although every committed SDU was transmitted completely" );
            const out_sdu& s = sdus[ sdu_cur ];
            if ( sdu_got == 0 )
                V_CHECK( p.llid == 2, "sdu.out-llid", "step ", step, ": the first fragment of an SDU has LLID ", int( p.llid ), ": ", show( p ) );
            else
                V_CHECK( p.llid == 1, "sdu.out-llid", "step ", step, ": fragment after ", sdu_got, " of ", s.data.size(), " octets of an SDU has LLID ", int( p.llid ), ": ", show( p ) );
            V_CHECK( p.pay.size() + 2 <= s.limit, "sdu.out-fragment-size", "step ", step, ": fragment of ", p.pay.size(), " + 2 octets, but max_tx_size() was at most ", s.limit,
                " while the SDU was transmitted" );
            V_CHECK( sdu_got + p.pay.size() <= s.data.size() && std::equal( p.pay.begin(), p.pay.end(), s.data.begin() + static_cast< long >( sdu_got ) ), "sdu.out-content", "step ",
                step, ": fragment ", show( p ), " does not continue the SDU ", verif::hex( s.data ), " at offset ", sdu_got );
            sdu_got += p.pay.size();
            ++cur_fragments;
            if ( sdu_got == s.data.size() )
            {
                if ( cur_fragments >= 3 )
                    ++n_out_frag3;
                if ( cur_fragments >= 2 )
                    ++n_sdu_fragmented_out;
                ++sdu_cur;
                sdu_got       = 0;
                cur_fragments = 0;
            }
        };

        auto exchange = [&]( std::size_t step ) {
            ++n_exchanges;
            if ( !c_has_inflight )
            {
                c_inflight = pdu{};
                if ( !c_queue.empty() )
                {
                    c_inflight = c_queue.front();
                    c_queue.pop_front();
                }
                c_has_inflight = true;
            }
            const auto rb = b->alloc_rx();
            ll::write_buffer t{ nullptr, 0 };
            if ( rb.size == 0 )
            {
                ++n_rx_full;
                t = b->next_transmit();
            }
            else
            {
                V_CHECK( rb.size >= b->mem_size( c_inflight.pay.size() ), "sdu.harness", "step ", step, ": receive buffer of ", rb.size, " bytes for a PDU of ", c_inflight.pay.size() );
                std::memset( rb.buffer, 0xcd, rb.size );
                b->header( rb.buffer, static_cast< std::uint16_t >( c_inflight.llid | ( c_sn ? SN : 0 ) | ( c_nesn ? NESN : 0 ) | ( c_inflight.pay.size() << 8 ) ) );
                std::copy( c_inflight.pay.begin(), c_inflight.pay.end(), b->body( rb.buffer ) );
                t = b->received( rb );
            }
            V_CHECK( t.size >= b->mem_size( 0 ), "sdu.transmit", "step ", step, ": no PDU to transmit" );
            const std::uint16_t h = b->header( t.buffer );
            V_CHECK( t.size >= b->mem_size( h >> 8 ), "sdu.transmit", "step ", step, ": transmit buffer smaller than its length field" );
            if ( static_cast< bool >( h & SN ) == c_nesn )
            {
                c_nesn = !c_nesn;
                if ( h >> 8 )
                {
                    pdu p;
                    p.llid = h & 3;
                    p.pay.assign( b->body( t.buffer ), b->body( t.buffer ) + ( h >> 8 ) );
                    central_accepts( step, p );
                }
            }
            if ( static_cast< bool >( h & NESN ) != c_sn )
            {
                V_CHECK( rb.size != 0, "sdu.harness", "step ", step, ": acknowledged without a receive buffer" );
                c_sn           = !c_sn;
                c_has_inflight = false;
                if ( !c_inflight.pay.empty() )
                    ref.feed( c_inflight );  // stored by the PDU buffer: now part of the stream the SDU buffer has to reassemble
            }
        };

        auto recv = [&]( std::size_t step, bool free_it ) {
            const auto r = b->next_received();
            // every item that is complete in the stream is known to the reference at this point
            if ( r.size == 0 )
            {
                for ( std::size_t i = next_item; i != ref.items.size(); ++i )
                    V_CHECK( !ref.items[ i ].mandatory, ref.items[ i ].control ? "sdu.in-control-lost" : "sdu.in-sdu-lost", "step ", step,
                        ": next_ll_l2cap_received() is empty, but ", ref.items[ i ].control ? verif::cat( "the PDU ", show( ref.items[ i ].raw ) )
                                                                                              : verif::cat( "the correctly fragmented SDU ", verif::hex( ref.items[ i ].sdu ) ),
                        " was received completely and not handed out" );
                n_skipped += static_cast< unsigned >( ref.items.size() - next_item );
                next_item = ref.items.size();
                return;
            }
            V_CHECK( r.buffer != nullptr && r.size >= b->mem_size( 0 ), "sdu.in-format", "step ", step, ": next_ll_l2cap_received() returned ", r.size, " bytes" );
            const std::uint16_t h    = b->header( r.buffer );
            const std::uint8_t  llid = h & 3;
            const bytes         body( b->body( r.buffer ), r.buffer + r.size );
            const bool          as_control = passthrough || llid == 3;
            if ( as_control )
                V_CHECK( body.size() == static_cast< std::size_t >( h >> 8 ), "sdu.in-format", "step ", step, ": PDU of ", body.size(), " body octets with length field ", h >> 8 );
            else
                V_CHECK( llid == 2, "sdu.in-format", "step ", step, ": an SDU is handed out with LLID ", int( llid ) );

            // find the item that justifies it; items in between are dropped by the buffer, which only malformed ones may be
            std::size_t i = next_item;
            for ( ; i != ref.items.size(); ++i )
            {
                const item& it    = ref.items[ i ];
                const bool  match = as_control ? ( it.control && it.raw.llid == llid && it.raw.pay == body ) : ( !it.control && it.sdu == body );
                if ( match )
                    break;
                V_CHECK( !it.mandatory, as_control ? "sdu.in-order-or-content" : "sdu.in-not-one-sdu", "step ", step, ": next_ll_l2cap_received() returns LLID ", int( llid ), " ",
                    verif::hex( body ), " but the next thing the stream contains is ",
                    it.control ? verif::cat( "the PDU ", show( it.raw ) ) : verif::cat( "the SDU ", verif::hex( it.sdu ) ) );
            }
            V_CHECK( i != ref.items.size(), as_control ? "sdu.in-order-or-content" : "sdu.in-not-one-sdu", "step ", step, ": next_ll_l2cap_received() returns LLID ", int( llid ),
                " ", verif::hex( body ), " (", body.size(), " octets) which is neither a received LL control PDU nor one start fragment followed by its continuations with the announced length" );
            if ( !free_it )
                return;
            n_skipped += static_cast< unsigned >( i - next_item );
            next_item = i + 1;
            ++( as_control ? n_delivered_ctrl : n_delivered_sdu );
            b->free_received();
        };

        auto all_out_done = [&] { return sdu_cur == sdus.size() && ctrl_got == ctrl_out.size(); };

        for ( std::size_t step = 0; step != c.ops.size(); ++step )
        {
            const Op& o = c.ops[ step ];
            switch ( o.kind )
            {
            case IN: {
                pdu               p;
                const std::size_t len = clamp( static_cast< std::size_t >( std::max( o.b, 0 ) ), 1, b->max_rx() - 2 );
                p.llid                = static_cast< std::uint8_t >( o.a );
                p.pay                 = pattern( ++c_serial, len, 0x80 );
                if ( p.llid == 2 )
                {
                    if ( len >= 1 ) p.pay[ 0 ] = static_cast< std::uint8_t >( o.c & 0xff );
                    if ( len >= 2 ) p.pay[ 1 ] = static_cast< std::uint8_t >( ( o.c >> 8 ) & 0xff );
                    if ( len >= 3 ) p.pay[ 2 ] = 4;
                    if ( len >= 4 ) p.pay[ 3 ] = 0;
                }
                c_queue.push_back( p );
                exchange( step );
            }
            break;
            case XCHG:
                for ( int n = 0; n != o.a; ++n )
                    exchange( step );
                break;
            case RECV:
                recv( step, true );
                break;
            case PEEK:
                recv( step, false );
                break;
            case SDU: {
                const std::size_t len = clamp( static_cast< std::size_t >( std::max( o.a, 0 ) ), 0, cf.mtu );
                const auto        a   = b->alloc_l2cap( len );
                if ( a.size == 0 )
                {
                    ++n_sdu_busy;
                    break;
                }
                V_CHECK( a.buffer != nullptr && a.size == b->mem_size( len + 4 ), "sdu.out-alloc", "step ", step, ": allocate_l2cap_transmit_buffer(", len, ") returned ", a.size,
                    " bytes" );
                std::memset( a.buffer, 0xee, a.size );
                out_sdu s;
                s.data      = pattern( ++p_serial, len + 4, 0x40 );
                s.data[ 0 ] = static_cast< std::uint8_t >( len & 0xff );
                s.data[ 1 ] = static_cast< std::uint8_t >( len >> 8 );
                s.data[ 2 ] = 4;
                s.data[ 3 ] = 0;
                s.limit     = b->max_tx();
                // like link_layer::commit_l2cap_output_buffer: LLID 2 and the (8 bit) size in the LL header
                b->header( a.buffer, static_cast< std::uint16_t >( 2 | ( ( ( len + 4 ) & 0xff ) << 8 ) ) );
                std::copy( s.data.begin(), s.data.end(), b->body( a.buffer ) );
                sdus.push_back( s );
                b->commit_l2cap( a );
            }
            break;
            case LLPDU: {
                const std::size_t len = clamp( static_cast< std::size_t >( std::max( o.a, 1 ) ), 1, b->max_tx() - 2 );
                const auto        a   = b->alloc_ll( len );
                if ( a.size == 0 )
                {
                    ++n_ll_busy;
                    break;
                }
                V_CHECK( a.buffer != nullptr && a.size == b->mem_size( len ), "sdu.out-alloc", "step ", step, ": allocate_ll_transmit_buffer(", len, ") returned ", a.size, " bytes" );
                std::memset( a.buffer, 0xee, a.size );
                pdu p;
                p.llid = 3;
                p.pay  = pattern( ++p_serial, len, 0x20 );
                b->header( a.buffer, static_cast< std::uint16_t >( 3 | ( len << 8 ) ) );
                std::copy( p.pay.begin(), p.pay.end(), b->body( a.buffer ) );
                ctrl_out.push_back( p );
                b->commit_ll( a );
            }
            break;
            case MAXRX: {
                std::size_t n = clamp( 29 + static_cast< std::size_t >( std::max( o.a, 0 ) ) % 223, 29, max_rx_limit( cf ) );
                // never below a PDU that is on its way
                for ( auto& p : c_queue )
                    n = std::max( n, p.pay.size() + 2 );
                if ( c_has_inflight )
                    n = std::max( n, c_inflight.pay.size() + 2 );
                b->max_rx( n );
            }
            break;
            case MAXTX: {
                const std::size_t n = clamp( 29 + static_cast< std::size_t >( std::max( o.a, 0 ) ) % 223, 29, max_tx_limit( cf ) );
                b->max_tx( n );
                for ( std::size_t i = sdu_cur; i < sdus.size(); ++i )
                    sdus[ i ].limit = std::max( sdus[ i ].limit, n );
            }
            break;
            }
        }

        // ---- drain
        std::size_t rounds = 0;
        for ( auto& s : sdus )
            rounds += s.data.size() / 20 + 2;
        rounds += 2 * ( c_queue.size() + ctrl_out.size() ) + 8;
        const std::size_t end = c.ops.size();
        for ( std::size_t n = 0; n != rounds; ++n )
        {
            for ( std::size_t guard = 0; guard != 64; ++guard )
            {
                const std::size_t before = next_item;
                const unsigned    d      = n_delivered_ctrl + n_delivered_sdu;
                recv( end, true );
                if ( before == next_item && d == n_delivered_ctrl + n_delivered_sdu )
                    break;
            }
            if ( !c_has_inflight && c_queue.empty() && all_out_done() )
                break;
            const unsigned full_before = n_rx_full;
            exchange( end );
            if ( n_rx_full != full_before && b->next_received().size == 0 )
            {
                starved = true;  // empty but no room (cannot happen with the sizes used here; kept as a guard against false alarms)
                break;
            }
        }
        for ( std::size_t guard = 0; guard != 64; ++guard )
        {
            const std::size_t before = next_item;
            const unsigned    d      = n_delivered_ctrl + n_delivered_sdu;
            recv( end, true );
            if ( before == next_item && d == n_delivered_ctrl + n_delivered_sdu )
                break;
        }
        if ( !starved )
        {
            V_CHECK( !c_has_inflight && c_queue.empty(), "sdu.harness", "drain: the central could not deliver its PDUs in ", rounds, " rounds" );
            V_CHECK( sdu_cur == sdus.size(), "sdu.out-not-transmitted", "drain: SDU #", sdu_cur, " of ", sdus.size(), " (", sdus[ std::min( sdu_cur, sdus.size() - 1 ) ].data.size(),
                " octets) did not reach the central completely (", sdu_got, " octets) in ", rounds, " fault-free rounds" );
            V_CHECK( ctrl_got == ctrl_out.size(), "sdu.out-not-transmitted", "drain: ", ctrl_out.size() - ctrl_got, " LL control PDU(s) did not reach the central" );
            for ( std::size_t i = next_item; i < ref.items.size(); ++i )
                V_CHECK( !ref.items[ i ].mandatory, "sdu.in-sdu-lost", "drain: item ", i, " of the incoming stream was never handed out" );
        }

        unsigned mandatory_sdus = 0;
        for ( auto& i : ref.items )
            if ( !i.control && i.mandatory )
                ++mandatory_sdus;

        rep.nontrivial = ref.n_malformed != 0 || ref.n_fragmented3 != 0 || n_out_frag3 != 0;
        rep.label( verif::cat( "mtu=", cf.mtu ) );
        rep.label( verif::cat( "layout=", cf.layout ) );
        rep.label_if( ref.n_malformed != 0, "in:malformed-element" );
        rep.label_if( ref.n_malformed >= 3, "in:malformed>=3" );
        rep.label_if( ref.n_fragmented3 != 0, "in:sdu-with>=3-fragments" );
        rep.label_if( mandatory_sdus != 0, "in:well-formed-sdu-delivered" );
        rep.label_if( n_delivered_sdu != 0, "in:sdu-delivered" );
        rep.label_if( n_delivered_ctrl != 0, passthrough ? "in:pdu-passed-through" : "in:control-pdu-delivered" );
        rep.label_if( n_skipped != 0, "in:malformed-sdu-dropped" );
        rep.label_if( n_rx_full != 0, "in:receive-ring-full" );
        rep.label_if( n_sdu_fragmented_out != 0, "out:sdu-fragmented" );
        rep.label_if( n_out_frag3 != 0, "out:sdu-with>=3-fragments" );
        rep.label_if( !sdus.empty(), "out:sdu" );
        rep.label_if( !ctrl_out.empty(), "out:control-pdu" );
        rep.label_if( n_sdu_busy != 0, "out:l2cap-buffer-busy" );
        rep.label_if( n_ll_busy != 0, "out:ll-buffer-blocked" );
        rep.label_if( starved, "reception-starved" );
    }
}

#ifndef C19_SDU_NO_MAIN  // engines/comp/c19_sdu_fuzz.cpp includes this file and brings its own entry point
// exitcode: the driver only recognises a dead worker as a crash if its exit status is neither 0 nor 1 (ASan's default is 1)
extern "C" const char* __asan_default_options() { return "exitcode=66:quarantine_size_mb=8"; }

int main( int argc, char** argv )
{
    verif::Harness< Case > h;
    h.gen       = gen_case;
    h.to_text   = to_text;
    h.from_text = from_text;
    h.run       = run;
    return verif::run_main( argc, argv, h );
}
#endif
