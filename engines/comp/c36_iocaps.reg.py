# the cell space of c36_iocaps has 9980 cells (`c36_iocaps --cells` prints the number); every worker enumerates it completely
# `cases/procs/9980` times, so cases has to be a multiple of procs*9980
target('c36_iocaps', 'engines/comp/c36_iocaps.cpp', extra_src=['$REPO/bluetoe/utility/address.cpp'],
       quick=dict(cases=4 * 2 * 9980, size=100, procs=4), thorough=dict(cases=4 * 16 * 9980, size=100, procs=4))
prop('C36', ['c36_iocaps'], 'comp', exhaustive=True,
     rule='complete enumeration, one case per cell: {legacy_security_manager x 3 inputs x 2 outputs, lesc_security_manager and security_manager x '
          '{no input, yes/no} x 2 outputs (pairing_keyboard does not compile with them)} x local OOB {callback without data, callback with data} '
          'plus one configuration per manager without an OOB option, x remote IO capability 0..4 x remote OOB flag x AuthReq 0x00..0x1f, each '
          'through a real Pairing Request into a fresh manager (9920 cells), plus io_capabilities_matrix<> for all 6 local configurations x 5 '
          'remote capabilities x {legacy, LESC} called directly (60 cells, the only way to reach the keyboard rows of the LESC table); every '
          'worker enumerates all 9980 cells per pass, the first pass with canonical values and later passes with seed-derived values of the '
          'request fields that must not matter (max key size, key distribution, address type, AuthReq bits 5..7); non-trivial: every cell other '
          'than NoInputNoOutput/NoInputNoOutput; distinct = distinct serialised cases (cell + irrelevant fields)',
     technique='exhaustive enumeration of the finite configuration x request space against Core Vol 3 Part H Tables 2.5-2.8 written out literally',
     level_text='every cell is evaluated: the Pairing Response must advertise the IO capability of the configuration (Table 2.5), the pairing type '
                'follows the SC bits of request and response, OOB is selected iff both sides (legacy, Table 2.6) / at least one side (LESC, '
                'Table 2.7) has OOB data, otherwise the selected method must be the Table 2.8 entry [responder = local][initiator = remote]; a '
                'well formed request is refused only by the LESC-only manager and only without the SC bit. The space of the statement is covered '
                'completely for the configurations that compile.',
     level_note='trusted: the tables in engines/comp/c36_iocaps.cpp (copied from the specification text); deliberately not asserted: the "no MITM on '
                'either side => Just Works" rule (Just Works is accepted instead of the table entry when neither AuthReq carries MITM); the selected '
                'method is read from the connection data, the later protocol steps are C32/C35; pairing_keyboard<> with the LESC capable managers '
                'does not compile and is covered at the mapping-function level only',
     assumptions=COMMON_ASSUME)
