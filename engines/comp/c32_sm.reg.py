# C32 - C35: one harness source (engines/comp/c32_sm.cpp), one binary per security manager (compile time), the
# property id switches the step weights, the set of assertions and the non-trivial rule.
_SM = [('c32_sm_legacy', 0), ('c32_sm_lesc', 1), ('c32_sm_comb', 2)]
for _n, _k in _SM:
    target(_n, 'engines/comp/c32_sm.cpp',
           quick=dict(cases=150000, size=40), thorough=dict(cases=1000000, size=60),
           cxxflags=['-DSM_ONLY=%d' % _k],
           extra_src=['$REPO/bluetoe/utility/address.cpp'])

_SM_GEN = ('rapidcheck generates: one of 30 instantiated configurations ({legacy, LESC, combined} manager x {no input, yes/no, keyboard} x '
           '{no output, display} that compile x bonding data base on/off x OOB option on/off; yes/no + display configurations weighted x3), per case '
           'parameters (user answers later / yes at once / no at once, OOB data present, keyboard passkey, 0..2 pre-existing bonds for this or another '
           'peer, a seed for all nonces / keys / passkeys of the toy tool box and of the central) and a step sequence (length grows with the size, '
           '<= 40 quick / 60 thorough, plus 6 drain polls). Steps are relative to the reference state and are turned into PDUs at run time: the correct '
           'next PDU of a conforming central, any opcode 0x00..0x0f with its natural length, the right opcode with a wrong length (-1, +1, opcode only, '
           'empty, half), a wrong value (confirm, random, DHKey check with one flipped bit, invalid public key) or invalid parameter (IO capability > 4, '
           'OOB flag > 1, key size < 7 or > 16, reserved key distribution bits, other pairing flavour), output poll, user yes / no (also after the '
           'pairing ended), encryption on/off, find_key probe (0/0, a stored bond, near misses, random), raw bytes. ')

prop('C32', [n for n, k in _SM], 'comp',
     rule=_SM_GEN + 'C32 weights: 50 % correct next step, 23 % rejected-by-construction steps. Non-trivial: the case got at least to an exchanged '
          'confirm / public key and contains a step the reference rejects inside a pairing or an asynchronous user answer; distinct = distinct serialised cases.',
     technique='model-based property testing (rapidcheck): the harness is central, tool box (toy cryptography), user, OOB source and bond data base; a '
               'reference pairing state machine classifies every PDU actually sent and follows the observed output',
     level_text='every PDU is classified from its bytes and the reference state (legacy: request, confirm, random; LESC: request, public key, [confirm '
                'polled], random, [user], DHKey check): out of order, wrong length, invalid parameters or a value that does not verify must be answered '
                'with Pairing Failed and leave the pairing idle; Srand only after a confirm value that verifies; the peripheral\'s DHKey check (in a '
                'response or in a poll) only after a DHKey check that equals the value the central computes; in-order steps must be accepted. '
                'Sampling, not proof; bluetoe asserts and sanitizer reports count.',
     level_note='trusted: the reference machine and the toy tool box in engines/comp/c32_sm.cpp (functions depend on all arguments, no real '
                'cryptography: C37 covers that). Reserved bits in a Pairing Request and a Pairing Request after completion may be accepted or '
                'rejected; a wrong DHKey check while the user is asked may be rejected at once or after the user answered.',
     assumptions=COMMON_ASSUME)

prop('C33', [n for n, k in _SM], 'comp',
     rule=_SM_GEN + 'C33 weights: 22 % find_key probes, and find_key(0,0) after every step. Non-trivial: an explicit probe after a pairing was aborted / '
          'failed or a second pairing was started; distinct = distinct serialised cases.',
     technique='model-based property testing (rapidcheck), same harness as C32; find_key() compared with the reference state and the harness owned bond data base',
     level_text='after every step and at generated probes: a key is offered exactly if (EDIV, Rand) = (0, 0) and the reference pairing is completed and '
                'not reset by a failure since, or the bond data base holds (EDIV, Rand) for this peer; the offered key equals the STK / LTK the central '
                'derives (s1 resp. f5 of the toy tool box) or the stored key. Sampling, not proof.',
     level_note='trusted: reference machine, toy tool box, the harness bond data base. If the pairing key and a bond entry both apply either key is accepted.',
     assumptions=COMMON_ASSUME)

prop('C34', [n for n, k in _SM], 'comp',
     rule=_SM_GEN + 'C34 weights: 20 % polls, 14 % encryption toggles. Non-trivial: bonding configuration, a legacy pairing completed, encryption toggled '
          'and output polled after the completion; distinct = distinct serialised cases (the LESC only manager never distributes keys: its cases only '
          'assert that nothing is sent).',
     technique='model-based property testing (rapidcheck), same harness as C32; invariant over the polled output',
     level_text='every Encryption Information / Central Identification PDU that comes out of l2cap_output: the link is encrypted in that poll, a pairing '
                'with key distribution completed before, the item was not sent before for that pairing, and it carries LTK resp. EDIV / Rand of the bond '
                'the data base created for that pairing. Sampling, not proof.',
     level_note='trusted: reference machine and harness bond data base. Whether keys still go out after the pairing was reset by a later failure is '
                'not restricted by the statement and not asserted.',
     assumptions=COMMON_ASSUME)

prop('C35', [n for n, k in _SM], 'comp',
     rule=_SM_GEN + 'C35 weights: 90 % correct next step (complete exchanges, repeated pairings), all remote IO capabilities / OOB flags, user yes / no / '
          'late. Non-trivial: a pairing completed for which Table 2.8 / the OOB flags select a method other than Just Works; distinct = distinct serialised cases.',
     technique='model-based property testing (rapidcheck), same harness as C32; the reference classifies the exchange that was performed',
     level_text='after every step local_device_pairing_status() is compared with the classification of the exchange performed: no_key unless the '
                'reference pairing is completed; legacy: authenticated iff the temporary key the peripheral used (passkey it displayed / the user typed, '
                'OOB data) is not zero; LESC: authenticated iff the user was shown the comparison value, asked, and answered yes (the only '
                'commitment the managers run is the z = 0 round of Just Works / numeric comparison). Sampling, not proof.',
     level_note='trusted: reference machine; the pairing method Table 2.8 selects is used for labels and generator steering only (C36 checks the selection).',
     assumptions=COMMON_ASSUME)

# the same cases and oracles under libFuzzer (coverage guided); one binary with all three managers, the property is handed over at run time
target('c32_sm_fuzz', 'engines/comp/c32_sm_fuzz.cpp', kind='fuzz',
       quick=dict(runs=40000, max_seconds=45, max_len=400), thorough=dict(runs=5000000, max_seconds=1200, max_len=600))
for _p in ('C32', 'C33', 'C34', 'C35'):
    PROPERTIES[_p]['targets'] = PROPERTIES[_p]['targets'] + ['c32_sm_fuzz']
