_SM = [('c32_sm_legacy', 0), ('c32_sm_lesc', 1), ('c32_sm_comb', 2)]
for _n, _k in _SM:
    target(_n, 'engines/comp/c32_sm.cpp',
           quick=dict(cases=50000, size=40), thorough=dict(cases=1500000, size=60),
           cxxflags=['-DSM_ONLY=%d' % _k],
           extra_src=['$REPO/bluetoe/utility/address.cpp'])
for _p in ('C32', 'C33', 'C34', 'C35'):
    prop(_p, [n for n, k in _SM], 'comp', rule='tbd', technique='tbd', level_text='tbd', level_note='tbd', assumptions=COMMON_ASSUME)
