// C19, libFuzzer variant (optional; ./check has no libFuzzer support, so this target is built and run by hand):
// a byte string is decoded into the same Case the rapidcheck harness uses (configuration, initial sizes, then one
// operation per 3 bytes with a bias towards incoming PDUs with arbitrary LLID / length / announced L2CAP length) and run
// through the same run() with the same oracles (engines/comp/c19_sdu.cpp). An oracle violation prints the case in replay
// format (./check C19 --replay understands it) and traps; sanitizer reports are crashes by themselves.
//
// build (from /verif, R = repo working tree):
//   clang++ -std=gnu++17 -g -O1 -fno-omit-frame-pointer -include lib/prelude.hpp -fsanitize=fuzzer,address,undefined \
//       -fno-sanitize-recover=undefined -fsanitize-address-field-padding=1 \
//       -fsanitize-ignorelist=engines/comp/c19_field_padding.ignorelist -Iengines/comp/nrf_stub \
//       -I$R/bluetoe/bindings/nordic/include -Ilib -I$R -I$R/bluetoe/utility/include -I$R/bluetoe/link_layer/include \
//       engines/comp/c19_sdu_fuzz.cpp -lrapidcheck -o /var/tmp/c19_sdu_fuzz
// run:
//   mkdir -p /var/tmp/c19_corpus && /var/tmp/c19_sdu_fuzz -seed=${VERIF_SEED:-1} -runs=2000000 -max_len=600 /var/tmp/c19_corpus
// only crash-* artefacts count; slow-unit / timeout / oom are noise.
// fuzz-flags: -fsanitize-address-field-padding=1 -fsanitize-ignorelist=$ROOT/engines/comp/c19_field_padding.ignorelist -I$ROOT/engines/comp/nrf_stub -I$REPO/bluetoe/bindings/nordic/include
// fuzz-libs: -lrapidcheck
#define C19_SDU_NO_MAIN
#include "c19_sdu.cpp"

extern "C" int LLVMFuzzerTestOneInput( const std::uint8_t* data, std::size_t size )
{
    if ( size < 3 )
        return 0;
    Case c;
    c.cfg            = data[ 0 ] % static_cast< int >( configs().size() );
    const config& cf = configs()[ c.cfg ];
    c.maxrx          = 29 + data[ 1 ] % static_cast< int >( max_rx_limit( cf ) - 28 );
    c.maxtx          = 29 + data[ 2 ] % static_cast< int >( max_tx_limit( cf ) - 28 );
    for ( std::size_t i = 3; i + 2 < size; i += 3 )
    {
        const int k = data[ i ], a = data[ i + 1 ], b = data[ i + 2 ];
        switch ( k & 15 )
        {
        case 0: case 1: case 2: case 3:
            // start fragment: body length a, announced length around the MTU, around the body length or anything small
            c.ops.push_back( Op{ IN, 2, a, ( k & 0x40 ) ? static_cast< int >( cf.mtu ) + ( b % 8 ) - 4 : ( k & 0x80 ) ? a - 4 + ( b % 5 ) - 2 : b * ( ( k & 0x20 ) ? 2 : 1 ) } );
            break;
        case 4: case 5: case 6: case 7:
            c.ops.push_back( Op{ IN, 1, a, 0 } );
            break;
        case 8:
            c.ops.push_back( Op{ IN, 3, 1 + a % 27, 0 } );
            break;
        case 9: case 10:
            c.ops.push_back( Op{ RECV, 0, 0, 0 } );
            break;
        case 11:
            c.ops.push_back( Op{ PEEK, 0, 0, 0 } );
            break;
        case 12:
            c.ops.push_back( Op{ SDU, ( a | ( ( b & 1 ) << 8 ) ) % static_cast< int >( cf.mtu + 1 ), 0, 0 } );
            break;
        case 13:
            c.ops.push_back( Op{ LLPDU, 1 + a % 27, 0, 0 } );
            break;
        case 14:
            c.ops.push_back( Op{ XCHG, 1 + a % 4, 0, 0 } );
            break;
        case 15:
            c.ops.push_back( Op{ ( b & 1 ) ? MAXTX : MAXRX, a, 0, 0 } );
            break;
        }
    }
    verif::Report rep;
    try
    {
        run( c, rep );
    }
    catch ( const verif::failure& f )
    {
        std::fprintf( stderr, "VIOLATION oracle=%s %s\n--- case ---\n%s--- end ---\n", f.oracle.c_str(), f.msg.c_str(), to_text( c ).c_str() );
        __builtin_trap();
    }
    return 0;
}
