# C37 / C38: nRF52 security toolbox, built unmodified on the host with g++ against lib/nrf_emul/nrf.h
_c37_root = _os.path.dirname(_os.path.dirname(_os.path.dirname(_os.path.abspath(_f))))
_c37_build = dict(
    compiler='g++',
    # -fpermissive: security_tool_box.cpp casts a pointer to the 32 bit ECBDATAPTR register (loss free for a static
    # object of a non-PIE executable); -w: the warning flood of -fpermissive is of no interest here
    cxxflags=['-fpermissive', '-no-pie', '-w'],
    inc=['-I' + _c37_root + '/lib/nrf_emul', '-I$REPO/bluetoe/bindings/nordic/nrf52/include', '-I$REPO/bluetoe/bindings/nordic/include',
         '-I$REPO/bluetoe/bindings/nordic/uECC', '-I$REPO/tests/test_tools'],
    extra_src=['$REPO/bluetoe/bindings/nordic/nrf52/security_tool_box.cpp', '$REPO/tests/test_tools/aes.c', '$REPO/bluetoe/utility/address.cpp'],
)

target('c37_toolbox', ['engines/comp/c37_toolbox.cpp', 'engines/comp/c37_uecc_unit.cpp'],
       quick=dict(cases=40000, size=100), thorough=dict(cases=800000, size=100), **_c37_build)

prop('C37', ['c37_toolbox'], 'comp',
     rule='rapidcheck generates 1..4 toolbox calls per case: session key, c1, s1, f4, f5, f6, g2 with uniform 128/256 bit operands '
          '(now and then constant fills), both address types, IO capability triples, z in {0, 0x80, 0x81, any}; public keys are '
          'constructed from the curve equation (valid, valid with one bit flipped, x = 0 / x = p / y = 0 / y = p / all ones, '
          'x + p, points on the twist, garbage, the base point and the specification sample key). A case is non-trivial if it '
          'contains a call with operands other than the specification sample data or a public key that is not a valid point; '
          'distinct = distinct serialised cases. The specification samples themselves are a fixed replay.',
     technique='differential property testing (rapidcheck) of the unmodified nRF52 toolbox, built on the host against an emulated RNG/ECB register file, against an independent AES-128 / AES-CMAC / SMP / P-256 reference',
     level_text='every generated call is compared with lib/refcrypto.hpp (AES-128 written from FIPS-197 with an algebraically computed S-box, '
                'AES-CMAC from RFC 4493, c1/s1/f4/f5/f6/g2/SK from the Core specification formulas in big endian notation, curve membership '
                'by 256 bit modular arithmetic); the reference checks itself against FIPS-197 B/C.1, the RFC 4493 vectors, the Core specification '
                'sample data and the P-256 base point at start-up. 2^128 keys are sampled, not enumerated.',
     level_note='trusted: lib/refcrypto.hpp, the register emulation lib/nrf_emul (ECB by tests/test_tools/aes.c), g++ 12 with ASan/UBSan, rapidcheck; '
                'the composition of SKD, p1 and p2 from their parts is done by the harness according to the specification (in bluetoe this is done by '
                'the callers of the toolbox, which are outside this property)',
     assumptions=['the toolbox is compiled with g++ -fpermissive -no-pie for x86-64 instead of arm-none-eabi; RNG and ECB peripherals are emulated',
                  'rapidcheck, g++ 12 ASan/UBSan and the reference implementation are trusted'])

target('c38_passkey', ['engines/comp/c37_toolbox.cpp', 'engines/comp/c37_uecc_unit.cpp'],
       quick=dict(cases=16000, size=100), thorough=dict(cases=64000, size=100, opts={'uniform_weight': '4'}), **_c37_build)

prop('C38', ['c38_passkey'], 'comp',
     rule='rapidcheck generates the octet stream of the emulated RNG -- a pattern (constant 0xff / 0x00 / ..., little endian numbers '
          'around 999 999 and 2^20, random octets) delivered 1..24 times and then a seeded splitmix64 generator, or the seeded generator alone -- '
          'and the number of create_passkey() calls (1..48 on patterns, 1..400 or 1 000 000..1 500 000 (thorough: 2..6 million) on the seeded '
          'stream). A case is non-trivial if for at least one passkey the next three RNG octets, read as a number, exceed 999 999; '
          'distinct = distinct serialised cases.',
     technique='property testing (rapidcheck) of create_passkey() over generated RNG streams: range / padding / bounded consumption oracles and chi-square uniformity tests with a fixed p = 1e-9 threshold',
     level_text='every passkey is checked for: displayed value (little endian 32 bit prefix of the key, what sm_pairing_numeric_output receives) <= 999 999, '
                'key octets 4..15 zero, at most 4096 RNG octets consumed; runs of >= 20 000 passkeys on the seeded stream are checked with two chi-square tests '
                '(100 equal bins of the value; the two least significant digits; 99 degrees of freedom, limit 208.0 = p 1e-9). With one million passkeys a '
                'distribution whose bins deviate by about 1.5 % is detected (24 random bits modulo 10^6: chi-square about 750); 32 random bits modulo 10^6 '
                '(deviation 0.02 %) is NOT detectable at any affordable budget.',
     level_note='trusted: the splitmix64 stream as a model of a uniform RNG, the chi-square approximation at >= 200 expected hits per bin',
     assumptions=['the toolbox is compiled with g++ -fpermissive -no-pie for x86-64 instead of arm-none-eabi; the RNG peripheral is emulated and delivers the generated stream',
                  'rapidcheck and g++ 12 ASan/UBSan are trusted'])
