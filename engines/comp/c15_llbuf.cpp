// C15, C16, C17: bluetoe::link_layer::ll_data_pdu_buffer against a reference central (DESIGN.md section 4)
//
// The harness is the radio (it obeys the contract of the nRF52 binding: allocate_receive_buffer() at the start of an event;
// valid CRC + valid MIC -> received(); valid CRC + invalid MIC -> acknowledge(read_buffer); CRC error or no receive
// buffer -> next_transmit(); nothing heard -> no call at all), the link layer above the buffer (commit / next_received /
// free_received / max size changes) and the central on the other side of the air interface.
//
// Reference model, written from Core Vol 6 Part B 4.5.9 (acknowledgement and flow control), not from the code under test:
//  * central: transmitSeqNum / nextExpectedSeqNum; a PDU stays in flight (and is retransmitted unchanged) until a PDU
//    with NESN != SN arrives from the peripheral; a PDU from the peripheral is new iff its SN == nextExpectedSeqNum
//  * peripheral obligations as observed from outside:
//      - the NESN bit of every transmitted PDU toggles exactly when a *new* PDU (SN == previous NESN) was received with valid
//        CRC and MIC into an allocated receive buffer; never for CRC errors, a full receive buffer or a MIC failure
//      - every new PDU with a valid LLID and a payload is handed to the link layer exactly once, in order, byte for byte
//      - the transmitted PDU is repeated unchanged (SN, LLID, length, payload) until a PDU with NESN != SN was received;
//        then the next PDU has the other SN and is either the next committed PDU (commit order, bytes unchanged) or empty
//      - pending_outgoing_data_available() while a committed PDU is not acknowledged, and not longer
//  * C16: increment_receive_packet_counter calls == new non-empty PDUs accepted; increment_transmit_packet_counter calls ==
//    acknowledged committed (non-empty) PDUs; compared after every step
//  * C17: a MIC failure changes neither NESN nor the received queue nor the receive counter, whether the PDU is new or a
//    retransmission; the acknowledgement carried by such a PDU may or may not be honoured (both accepted)
// verif::property() selects the non-trivial rule, which oracles are armed (C16: counters; C17: MIC) and whether MIC
// failures are generated on *new* PDUs (C17 only; C15/C16 get them on retransmissions, where they occur on a real
// encrypted link, a generated MIC failure on a new PDU is turned into a CRC error there).
#include "verif.hpp"

#include <bluetoe/nrf.hpp>
#include <bluetoe/ll_data_pdu_buffer.hpp>

#include <memory>

namespace c15 {
    namespace ll = bluetoe::link_layer;

    struct default_tag
    {
    };
    struct encrypted_tag
    {
    };

    static bool radio_locked = false;

    template < std::size_t Tx, std::size_t Rx, class Tag >
    struct radio : ll::ll_data_pdu_buffer< Tx, Rx, radio< Tx, Rx, Tag > >
    {
        // the buffer takes this lock around accesses shared with the radio interrupt; a nested lock would be a dead lock
        struct lock_guard
        {
            lock_guard()
            {
                assert( !radio_locked );
                radio_locked = true;
            }
            ~lock_guard() { radio_locked = false; }
        };

        unsigned rxc = 0, txc = 0;
        void     increment_receive_packet_counter() { ++rxc; }
        void     increment_transmit_packet_counter() { ++txc; }

        using base = ll::ll_data_pdu_buffer< Tx, Rx, radio< Tx, Rx, Tag > >;
        using base::allocate_receive_buffer;
        using base::next_transmit;
        using base::received;
        ll::write_buffer mic_failure( ll::read_buffer b ) { return this->acknowledge( b ); }
    };
}

namespace bluetoe {
namespace link_layer {
    template < std::size_t Tx, std::size_t Rx >
    struct pdu_layout_by_radio< c15::radio< Tx, Rx, c15::encrypted_tag > >
    {
        using pdu_layout = bluetoe::nrf_details::encrypted_pdu_layout;
    };
}
}

namespace {
    using namespace c15;

    struct buf_if
    {
        virtual ~buf_if() {}
        virtual ll::read_buffer  alloc_tx( std::size_t )        = 0;
        virtual ll::read_buffer  alloc_tx_max()                 = 0;
        virtual void             commit( ll::read_buffer )      = 0;
        virtual bool             pending()                      = 0;
        virtual ll::write_buffer next_received()                = 0;
        virtual void             free_received()                = 0;
        virtual ll::read_buffer  alloc_rx()                     = 0;
        virtual ll::write_buffer received( ll::read_buffer )    = 0;
        virtual ll::write_buffer mic_failure( ll::read_buffer ) = 0;
        virtual ll::write_buffer next_transmit()                = 0;
        virtual std::size_t      max_rx()                       = 0;
        virtual std::size_t      max_tx()                       = 0;
        virtual void             max_rx( std::size_t )          = 0;
        virtual void             max_tx( std::size_t )          = 0;
        virtual std::size_t      max_max_rx()                   = 0;
        virtual std::size_t      max_max_tx()                   = 0;
        virtual void             reset()                        = 0;
        virtual unsigned         rxc()                          = 0;
        virtual unsigned         txc()                          = 0;
        // the PDU layout of the radio (where header and body are in memory)
        virtual std::uint16_t       header( const std::uint8_t* )         = 0;
        virtual void                header( std::uint8_t*, std::uint16_t ) = 0;
        virtual std::uint8_t*       body( std::uint8_t* )                 = 0;
        virtual const std::uint8_t* body( const std::uint8_t* )           = 0;
        virtual std::size_t         mem_size( std::size_t payload )       = 0;
    };

    template < std::size_t Tx, std::size_t Rx, class Tag >
    struct buf_impl : buf_if
    {
        using radio_t = radio< Tx, Rx, Tag >;
        using layout  = typename radio_t::layout;
        std::unique_ptr< radio_t > r{ new radio_t };  // exact size heap object: writes outside of the object are ASan reports

        ll::read_buffer  alloc_tx( std::size_t n ) override { return r->allocate_transmit_buffer( n ); }
        ll::read_buffer  alloc_tx_max() override { return r->allocate_transmit_buffer(); }
        void             commit( ll::read_buffer b ) override { r->commit_transmit_buffer( b ); }
        bool             pending() override { return r->pending_outgoing_data_available(); }
        ll::write_buffer next_received() override { return r->next_received(); }
        void             free_received() override { r->free_received(); }
        ll::read_buffer  alloc_rx() override { return r->allocate_receive_buffer(); }
        ll::write_buffer received( ll::read_buffer b ) override { return r->received( b ); }
        ll::write_buffer mic_failure( ll::read_buffer b ) override { return r->mic_failure( b ); }
        ll::write_buffer next_transmit() override { return r->next_transmit(); }
        std::size_t      max_rx() override { return r->max_rx_size(); }
        std::size_t      max_tx() override { return r->max_tx_size(); }
        void             max_rx( std::size_t n ) override { r->max_rx_size( n ); }
        void             max_tx( std::size_t n ) override { r->max_tx_size( n ); }
        std::size_t      max_max_rx() override { return r->max_max_rx_size(); }
        std::size_t      max_max_tx() override { return r->max_max_tx_size(); }
        void             reset() override { r->reset_pdu_buffer(); }
        unsigned         rxc() override { return r->rxc; }
        unsigned         txc() override { return r->txc; }

        std::uint16_t       header( const std::uint8_t* p ) override { return layout::header( p ); }
        void                header( std::uint8_t* p, std::uint16_t h ) override { layout::header( p, h ); }
        std::uint8_t*       body( std::uint8_t* p ) override { return layout::body( ll::read_buffer{ p, layout::data_channel_pdu_memory_size( 0 ) } ).first; }
        const std::uint8_t* body( const std::uint8_t* p ) override { return layout::body( ll::write_buffer{ p, layout::data_channel_pdu_memory_size( 0 ) } ).first; }
        std::size_t         mem_size( std::size_t payload ) override { return layout::data_channel_pdu_memory_size( payload ); }
    };

    struct config
    {
        std::size_t                                 tx, rx;
        const char*                                 layout;
        std::function< std::unique_ptr< buf_if >() > make;
    };

    template < std::size_t Tx, std::size_t Rx, class Tag >
    config cfg( const char* name )
    {
        return config{ Tx, Rx, name, [] { return std::unique_ptr< buf_if >( new buf_impl< Tx, Rx, Tag >() ); } };
    }

    const std::vector< config >& configs()
    {
        static const std::vector< config > c = {
            cfg< 29, 29, default_tag >( "default" ),   cfg< 31, 29, default_tag >( "default" ),    cfg< 29, 61, default_tag >( "default" ),
            cfg< 61, 61, default_tag >( "default" ),   cfg< 100, 61, default_tag >( "default" ),   cfg< 100, 100, default_tag >( "default" ),
            cfg< 251, 251, default_tag >( "default" ), cfg< 300, 520, default_tag >( "default" ),  cfg< 59, 87, default_tag >( "default" ),
            cfg< 30, 30, encrypted_tag >( "nrf-encrypted" ),   cfg< 31, 33, encrypted_tag >( "nrf-encrypted" ),   cfg< 61, 61, encrypted_tag >( "nrf-encrypted" ),
            cfg< 100, 100, encrypted_tag >( "nrf-encrypted" ), cfg< 252, 252, encrypted_tag >( "nrf-encrypted" ), cfg< 400, 300, encrypted_tag >( "nrf-encrypted" ),
            cfg< 90, 60, encrypted_tag >( "nrf-encrypted" ),
        };
        return c;
    }

    // ------------------------------------------------------------------------------------------ case
    enum op_kind { COMMIT, TALLOC, TCOMMIT, EVENT, FREE, MAXRX, MAXTX, RESET };
    enum c2p_fault { C2P_OK, C2P_LOST, C2P_CRC, C2P_MIC };
    enum p2c_fault { P2C_OK, P2C_LOST };

    struct Op
    {
        int kind;
        int llid;   // COMMIT/TALLOC: 1..3; EVENT: LLID of a new central PDU (0 = invalid LLID)
        int len;    // raw value, reduced to the currently permitted range at run time
        int how;    // COMMIT/TALLOC: 0 = allocate exactly, 1 = allocate_transmit_buffer() (maximum) and commit less; EVENT: 0 = empty, 1 = data
        int c2p;
        int p2c;
    };

    struct Case
    {
        int               cfg;
        std::vector< Op > ops;
    };

    rc::Gen< int > gen_len()
    {
        // small payloads, the extremes of the permitted range (raw values are taken modulo range + 1; 1000 and 1001 map to max and
        // max - 1) and anything in between
        return rc::gen::weightedOneOf< int >( { { 4, verif::range< int >( 0, 8 ) }, { 3, verif::range< int >( 1000, 1001 ) }, { 4, verif::range< int >( 0, 255 ) } } );
    }

    rc::Gen< Op > gen_op()
    {
        using rc::gen::just;
        using rc::gen::set;
        const auto tx_llid = rc::gen::element< int >( 1, 2, 2, 3 );
        const auto how     = rc::gen::weightedElement< int >( { { 3, 0 }, { 2, 1 } } );
        return rc::gen::weightedOneOf< Op >( {
            { 8, rc::gen::build< Op >( set( &Op::kind, just< int >( COMMIT ) ), set( &Op::llid, tx_llid ), set( &Op::len, gen_len() ), set( &Op::how, how ) ) },
            { 2, rc::gen::build< Op >( set( &Op::kind, just< int >( TALLOC ) ), set( &Op::llid, tx_llid ), set( &Op::len, gen_len() ), set( &Op::how, how ) ) },
            { 2, rc::gen::build< Op >( set( &Op::kind, just< int >( TCOMMIT ) ) ) },
            { 24, rc::gen::build< Op >( set( &Op::kind, just< int >( EVENT ) ),
                      set( &Op::llid, rc::gen::weightedElement< int >( { { 3, 1 }, { 5, 2 }, { 3, 3 }, { 1, 0 } } ) ), set( &Op::len, gen_len() ),
                      set( &Op::how, rc::gen::weightedElement< int >( { { 2, 0 }, { 5, 1 } } ) ),
                      set( &Op::c2p, rc::gen::weightedElement< int >( { { 12, C2P_OK }, { 2, C2P_LOST }, { 2, C2P_CRC }, { 4, C2P_MIC } } ) ),
                      set( &Op::p2c, rc::gen::weightedElement< int >( { { 8, P2C_OK }, { 3, P2C_LOST } } ) ) ) },
            { 8, rc::gen::build< Op >( set( &Op::kind, just< int >( FREE ) ) ) },
            { 1, rc::gen::build< Op >( set( &Op::kind, just< int >( MAXRX ) ), set( &Op::len, verif::range< int >( 0, 300 ) ) ) },
            { 1, rc::gen::build< Op >( set( &Op::kind, just< int >( MAXTX ) ), set( &Op::len, verif::range< int >( 0, 300 ) ) ) },
            { 1, rc::gen::build< Op >( set( &Op::kind, rc::gen::weightedElement< int >( { { 1, RESET }, { 3, FREE } } ) ) ) },
        } );
    }

    rc::Gen< Case > gen_case()
    {
        return rc::gen::build< Case >( rc::gen::set( &Case::cfg, verif::range< int >( 0, static_cast< int >( configs().size() ) - 1 ) ),
            rc::gen::set( &Case::ops, rc::gen::container< std::vector< Op > >( gen_op() ) ) );
    }

    const char* const c2p_names[] = { "ok", "lost", "crc", "mic" };
    const char* const p2c_names[] = { "ok", "lost" };

    std::string to_text( const Case& c )
    {
        std::ostringstream os;
        const auto&        cf = configs()[ c.cfg ];
        os << "cfg " << c.cfg << "  # tx " << cf.tx << " rx " << cf.rx << " layout " << cf.layout << "\n";
        for ( auto& o : c.ops )
        {
            switch ( o.kind )
            {
            case COMMIT: os << "commit " << o.llid << " " << o.len << " " << ( o.how ? "max" : "exact" ) << "\n"; break;
            case TALLOC: os << "talloc " << o.llid << " " << o.len << " " << ( o.how ? "max" : "exact" ) << "\n"; break;
            case TCOMMIT: os << "tcommit\n"; break;
            case EVENT: os << "ev " << ( o.how ? "data" : "empty" ) << " " << o.llid << " " << o.len << " " << c2p_names[ o.c2p ] << " " << p2c_names[ o.p2c ] << "\n"; break;
            case FREE: os << "free\n"; break;
            case MAXRX: os << "maxrx " << o.len << "\n"; break;
            case MAXTX: os << "maxtx " << o.len << "\n"; break;
            case RESET: os << "reset\n"; break;
            }
        }
        return os.str();
    }

    int index_of( const char* const* names, int n, const std::string& s )
    {
        for ( int i = 0; i != n; ++i )
            if ( s == names[ i ] )
                return i;
        return 0;
    }

    Case from_text( const std::string& t )
    {
        Case         c{ 0, {} };
        verif::Lines L( t );
        for ( auto& l : L.lines )
        {
            const int a = static_cast< int >( verif::tok_int( l, 1 ) ), b = static_cast< int >( verif::tok_int( l, 2 ) );
            if ( l[ 0 ] == "cfg" )
                c.cfg = a % static_cast< int >( configs().size() );
            else if ( l[ 0 ] == "commit" || l[ 0 ] == "talloc" )
                c.ops.push_back( { l[ 0 ] == "commit" ? COMMIT : TALLOC, std::min( std::max( a, 1 ), 3 ), b, verif::tok_str( l, 3 ) == "max" ? 1 : 0, 0, 0 } );
            else if ( l[ 0 ] == "tcommit" )
                c.ops.push_back( { TCOMMIT, 0, 0, 0, 0, 0 } );
            else if ( l[ 0 ] == "ev" )
                c.ops.push_back( { EVENT, static_cast< int >( verif::tok_int( l, 2 ) ) & 3, static_cast< int >( verif::tok_int( l, 3 ) ), verif::tok_str( l, 1 ) == "data" ? 1 : 0,
                    index_of( c2p_names, 4, verif::tok_str( l, 4 ) ), index_of( p2c_names, 2, verif::tok_str( l, 5 ) ) } );
            else if ( l[ 0 ] == "free" )
                c.ops.push_back( { FREE, 0, 0, 0, 0, 0 } );
            else if ( l[ 0 ] == "maxrx" )
                c.ops.push_back( { MAXRX, 0, a, 0, 0, 0 } );
            else if ( l[ 0 ] == "maxtx" )
                c.ops.push_back( { MAXTX, 0, a, 0, 0, 0 } );
            else if ( l[ 0 ] == "reset" )
                c.ops.push_back( { RESET, 0, 0, 0, 0, 0 } );
        }
        return c;
    }

    // ------------------------------------------------------------------------------------------ model
    struct pdu
    {
        std::uint8_t                llid = 1;
        std::vector< std::uint8_t > pay;
        bool                        operator==( const pdu& o ) const { return llid == o.llid && pay == o.pay; }
    };

    std::string show( const pdu& p ) { return verif::cat( "{llid ", int( p.llid ), " len ", p.pay.size(), " ", verif::hex( p.pay ), "}" ); }

    std::vector< std::uint8_t > pattern( unsigned serial, std::size_t len, std::uint8_t salt )
    {
        std::vector< std::uint8_t > r( len );
        for ( std::size_t i = 0; i != len; ++i )
            r[ i ] = static_cast< std::uint8_t >( salt + serial * 29 + i * 13 );
        return r;
    }

    // reduce a raw generated length to lo..hi (1000 -> hi, 1001 -> hi - 1)
    std::size_t reduce( int raw, std::size_t lo, std::size_t hi )
    {
        if ( hi <= lo )
            return lo;
        if ( raw >= 1000 )
            return hi - std::min< std::size_t >( static_cast< std::size_t >( raw - 1000 ), hi - lo );
        return lo + static_cast< std::size_t >( raw ) % ( hi - lo + 1 );
    }

    constexpr std::uint8_t MD = 0x10, SN = 0x08, NESN = 0x04;

    void run( const Case& c, verif::Report& rep )
    {
        const config&     cf = configs()[ c.cfg ];
        const std::string P  = verif::property();
        const bool        c16 = P == "C16", c17 = P == "C17";
        radio_locked          = false;
        auto b                = cf.make();

        // ---- central
        bool c_sn = false, c_nesn = false, c_has_inflight = false, c_inflight_seen = false /* the peripheral received it with valid CRC and MIC */;
        pdu  c_inflight;
        unsigned c_serial = 0;
        std::vector< pdu > c_accepted;  // new non-empty PDUs accepted from the peripheral
        // ---- the peripheral as the specification sees it
        bool               p_nesn = false;                   // NESN the peripheral has to send
        std::vector< pdu > stored;                           // what has to come out of next_received(), in order
        std::size_t        delivered = 0;
        std::vector< pdu > committed;                        // what the link layer committed, in order
        std::size_t        next_tx = 0, acked = 0;           // committed[ 0, next_tx ) were transmitted at least once, [ 0, acked ) acknowledged
        bool               p_has_last = false, p_last_acked = false, p_last_sn = false, p_last_is_data = false;
        pdu                p_last;
        unsigned           exp_rxc = 0, exp_txc = 0, p_serial = 0;
        // ---- link layer side allocation that is not committed yet
        ll::read_buffer talloc{ nullptr, 0 };
        pdu             talloc_pdu;

        // ---- statistics
        unsigned n_full = 0, n_c2p_fault = 0, n_p2c_fault = 0, n_c_retx = 0, n_p_retx = 0, n_mic_new = 0, n_mic_new_data = 0, n_mic_retx = 0, n_mic_ack_honoured = 0,
                 n_mic_ack_ignored = 0, n_tx_full = 0, n_events = 0, n_invalid_llid = 0, n_resets = 0, n_maxchg = 0, n_empty_between_c = 0, n_empty_between_p = 0,
                 n_data_retx = 0;
        int      c_pattern = 0, p_pattern = 0;  // 0 nothing, 1 data seen, 2 data then empty, 3 data, empty, data
        bool     starved   = false;

        auto advance = []( int& pat, bool data ) {
            if ( data )
                pat = pat == 0 ? 1 : pat == 2 ? 3 : pat;
            else if ( pat == 1 )
                pat = 2;
        };

        auto check_counters = [&]( std::size_t step, const char* where ) {
            if ( !c16 )
                return;
            V_CHECK( b->rxc() == exp_rxc, "c16.receive-counter", "step ", step, " (", where, "): increment_receive_packet_counter was called ", b->rxc(),
                " times, but ", exp_rxc, " new non-empty PDUs were received" );
            V_CHECK( b->txc() == exp_txc, "c16.transmit-counter", "step ", step, " (", where, "): increment_transmit_packet_counter was called ", b->txc(),
                " times, but ", exp_txc, " non-empty transmitted PDUs were acknowledged" );
        };

        auto check_pending = [&]( std::size_t step, const char* where ) {
            const bool pend = b->pending();
            V_CHECK( pend == ( committed.size() > acked ), "c15.delivered-before-ack", "step ", step, " (", where, "): pending_outgoing_data_available() == ", pend,
                " while ", committed.size() - acked, " committed PDU(s) are not acknowledged by the central" );
        };

        // the peripheral transmitted `t`; ack: 0 = it saw no acknowledgement of its last PDU, 1 = it saw one, 2 = it saw one and may ignore it
        auto check_transmitted = [&]( std::size_t step, const ll::write_buffer& t, int ack, const char* how ) -> std::uint16_t {
            V_CHECK( t.size != 0 && t.buffer != nullptr, "c15.transmit", "step ", step, ": ", how, " returned no PDU to transmit" );
            V_CHECK( t.size >= b->mem_size( 0 ), "c15.transmit", "step ", step, ": ", how, " returned ", t.size, " bytes, less than a header" );
            const std::uint16_t h   = b->header( t.buffer );
            const std::size_t   len = h >> 8;
            V_CHECK( t.size >= b->mem_size( len ), "c15.transmit", "step ", step, ": transmit buffer of ", t.size, " bytes for a PDU with length field ", len );
            V_CHECK( ( h & 0xe0 ) == 0, "c15.transmit", "step ", step, ": RFU bits set in the transmitted header ", h );
            pdu sent;
            sent.llid = h & 3;
            sent.pay.assign( b->body( t.buffer ), b->body( t.buffer ) + len );
            const bool sn = h & SN;

            V_CHECK( static_cast< bool >( h & NESN ) == p_nesn, c17 && std::string( how ) == "acknowledge(MIC failure)" ? "c17.mic-failure-acknowledged" : "c15.nesn", "step ",
                step, ": the peripheral sends NESN=", ( h & NESN ) ? 1 : 0, " after ", how, ", but ", p_nesn ? "only an odd" : "only an even",
                " number of new PDUs was received correctly into a receive buffer so far (expected NESN=", p_nesn ? 1 : 0, ")" );

            bool now_acked = p_last_acked || !p_has_last;
            if ( p_has_last && !p_last_acked && ack != 0 )
            {
                if ( ack == 1 )
                    now_acked = true;
                else
                {
                    // MIC failure: honouring the acknowledgement is optional; follow what the peripheral did
                    now_acked = sn != p_last_sn;
                    ++( now_acked ? n_mic_ack_honoured : n_mic_ack_ignored );
                }
                if ( now_acked )
                {
                    p_last_acked = true;
                    if ( p_last_is_data )
                    {
                        ++acked;
                        ++exp_txc;
                    }
                }
            }

            if ( !now_acked )
            {
                // retransmission: unchanged
                V_CHECK( sn == p_last_sn && sent == p_last, "c15.retransmission", "step ", step, ": the last PDU (SN=", p_last_sn, " ", show( p_last ),
                    ") was not acknowledged, but the peripheral now sends SN=", sn, " ", show( sent ) );
                ++n_p_retx;
                if ( p_last_is_data )
                    ++n_data_retx;
            }
            else
            {
                const bool exp_sn = p_has_last ? !p_last_sn : false;
                V_CHECK( sn == exp_sn, "c15.sequence-number", "step ", step, ": new PDU with SN=", sn, ", expected SN=", exp_sn );
                if ( len == 0 )
                {
                    V_CHECK( sent.llid == 1, "c15.transmit", "step ", step, ": empty PDU with LLID ", int( sent.llid ) );
                    p_last_is_data = false;
                }
                else
                {
                    V_CHECK( next_tx < committed.size(), "c15.invented-pdu", "step ", step, ": the peripheral sends ", show( sent ), " but every committed PDU was already sent" );
                    V_CHECK( sent == committed[ next_tx ], "c15.order-or-content", "step ", step, ": the peripheral sends ", show( sent ), " but the next committed PDU is ",
                        show( committed[ next_tx ] ) );
                    ++next_tx;
                    p_last_is_data = true;
                }
                p_has_last   = true;
                p_last_acked = false;
                p_last_sn    = sn;
                p_last       = sent;
            }
            return h;
        };

        // the central receives the PDU with header h that the peripheral just transmitted
        auto central_receives = [&]( std::size_t step, std::uint16_t h ) {
            if ( static_cast< bool >( h & SN ) == c_nesn )
            {
                c_nesn = !c_nesn;
                advance( p_pattern, ( h >> 8 ) != 0 );
                if ( h >> 8 )
                {
                    c_accepted.push_back( p_last );
                    V_CHECK( c_accepted.size() <= committed.size() && c_accepted.back() == committed[ c_accepted.size() - 1 ], "c15.central-order", "step ", step,
                        ": the central accepts ", show( c_accepted.back() ), " as PDU #", c_accepted.size(), " which is not what was committed in that position" );
                }
            }
            if ( static_cast< bool >( h & NESN ) != c_sn )
            {
                V_CHECK( c_has_inflight, "c15.nesn", "step ", step, ": acknowledgement without a PDU in flight" );
                V_CHECK( c_inflight_seen, "c15.ack-without-store", "step ", step, ": the peripheral acknowledges ", show( c_inflight ),
                    " which it never received with valid CRC and MIC into a receive buffer" );
                c_sn           = !c_sn;
                c_has_inflight = false;
            }
        };

        auto do_commit = [&]( std::size_t step ) {
            b->commit( talloc );
            committed.push_back( talloc_pdu );
            talloc = ll::read_buffer{ nullptr, 0 };
            check_pending( step, "after commit" );
        };

        auto do_talloc = [&]( std::size_t step, const Op& o ) -> bool {
            const std::size_t len = reduce( o.len, 1, b->max_tx() - 2 );
            const std::size_t req = o.how ? b->mem_size( b->max_tx() - 2 ) : b->mem_size( len );
            const auto        a1  = o.how ? b->alloc_tx_max() : b->alloc_tx( req );
            const auto        a2  = o.how ? b->alloc_tx_max() : b->alloc_tx( req );
            V_CHECK( a1.buffer == a2.buffer && a1.size == a2.size, "c15.alloc", "step ", step, ": allocate_transmit_buffer is not idempotent" );
            if ( a1.size == 0 )
            {
                ++n_tx_full;
                return false;
            }
            V_CHECK( a1.size == req, "c15.alloc", "step ", step, ": allocate_transmit_buffer(", req, ") returned ", a1.size, " bytes" );
            std::memset( a1.buffer, 0xee, a1.size );
            ++p_serial;
            talloc_pdu.llid = static_cast< std::uint8_t >( o.llid );
            talloc_pdu.pay  = pattern( p_serial, len, 0x40 );
            b->header( a1.buffer, static_cast< std::uint16_t >( o.llid | ( len << 8 ) ) );
            std::copy( talloc_pdu.pay.begin(), talloc_pdu.pay.end(), b->body( a1.buffer ) );
            talloc = a1;
            return true;
        };

        auto do_free = [&]( std::size_t step ) {
            const auto r1 = b->next_received();
            const auto r2 = b->next_received();
            V_CHECK( r1.buffer == r2.buffer && r1.size == r2.size, "c15.next-received", "step ", step, ": next_received() is not idempotent" );
            if ( delivered == stored.size() )
            {
                V_CHECK( r1.size == 0, "c15.duplicate-or-invented-delivery", "step ", step, ": next_received() returns a PDU of ", r1.size, " bytes (",
                    verif::hex( r1.buffer, r1.size ), ") although every received PDU was delivered already" );
                return;
            }
            V_CHECK( r1.size != 0, "c15.lost-delivery", "step ", step, ": next_received() is empty, but the acknowledged PDU ", show( stored[ delivered ] ),
                " was not handed to the link layer yet" );
            V_CHECK( r1.size >= b->mem_size( 0 ), "c15.next-received", "step ", step, ": PDU smaller than a header" );
            const std::uint16_t h = b->header( r1.buffer );
            V_CHECK( r1.size == b->mem_size( h >> 8 ), "c15.next-received", "step ", step, ": next_received() size ", r1.size, " does not fit the length field ", h >> 8 );
            pdu got;
            got.llid = h & 3;
            got.pay.assign( b->body( r1.buffer ), b->body( r1.buffer ) + ( h >> 8 ) );
            V_CHECK( got == stored[ delivered ], "c15.delivery-order-or-content", "step ", step, ": next_received() yields ", show( got ), " expected ", show( stored[ delivered ] ) );
            ++delivered;
            b->free_received();
        };

        // one connection event; returns false if the receive ring can never accept a PDU again (empty but no room)
        auto do_event = [&]( std::size_t step, const Op& o ) {
            ++n_events;
            const bool retransmission = c_has_inflight;
            if ( !c_has_inflight )
            {
                c_inflight = pdu{};
                if ( o.how )
                {
                    const std::size_t len = reduce( o.len, 1, b->max_rx() - 2 );
                    c_inflight.llid       = static_cast< std::uint8_t >( o.llid );
                    c_inflight.pay        = pattern( ++c_serial, len, 0x80 );
                    if ( o.llid == 0 )
                        ++n_invalid_llid;
                }
                c_has_inflight  = true;
                c_inflight_seen = false;
                advance( c_pattern, !c_inflight.pay.empty() );
            }
            else
            {
                ++n_c_retx;
                if ( !c_inflight.pay.empty() )
                    ++n_data_retx;
            }

            int fault = o.c2p;
            if ( fault == C2P_MIC )
            {
                // an empty PDU carries no MIC; a MIC failure on a PDU the peripheral did not get before is C17's subject
                if ( c_inflight.pay.empty() )
                    fault = C2P_OK;
                else if ( !c_inflight_seen && !c17 )
                    fault = C2P_CRC;
            }
            if ( fault == C2P_LOST )
            {
                ++n_c2p_fault;
                return;  // the peripheral hears nothing: no call, no reply
            }

            const auto rb = b->alloc_rx();
            if ( rb.size )
                V_CHECK( rb.size == b->mem_size( b->max_rx() - 2 ), "c15.alloc", "step ", step, ": allocate_receive_buffer() returned ", rb.size, " bytes with max_rx_size() == ",
                    b->max_rx() );
            else if ( delivered == stored.size() )
                starved = true;  // nothing to free and no room: reception is dead from here on (DESIGN.md C18, not one of the listed properties)

            std::uint16_t h = 0;
            const std::uint16_t ch = static_cast< std::uint16_t >( c_inflight.llid | ( c_sn ? SN : 0 ) | ( c_nesn ? NESN : 0 ) | ( c_inflight.pay.size() << 8 ) );
            const bool acks = p_has_last && !p_last_acked && c_nesn != p_last_sn;
            if ( rb.size == 0 || fault == C2P_CRC )
            {
                if ( rb.size == 0 )
                    ++n_full;
                else
                {
                    ++n_c2p_fault;
                    std::memset( rb.buffer, 0xcc, rb.size );  // the hardware wrote the damaged PDU into the buffer
                }
                const auto t = b->next_transmit();
                h            = check_transmitted( step, t, 0, rb.size == 0 ? "next_transmit(receive buffer full)" : "next_transmit(CRC error)" );
            }
            else
            {
                std::memset( rb.buffer, 0xcd, rb.size );
                b->header( rb.buffer, ch );
                std::copy( c_inflight.pay.begin(), c_inflight.pay.end(), b->body( rb.buffer ) );
                if ( fault == C2P_MIC )
                {
                    const bool is_new = c_sn == p_nesn;
                    ++( is_new ? n_mic_new : n_mic_retx );
                    if ( is_new && !c_inflight.pay.empty() )
                        ++n_mic_new_data;
                    // decryption with the wrong counter / a damaged PDU yields garbage
                    for ( std::size_t i = 0; i != c_inflight.pay.size(); ++i )
                        b->body( rb.buffer )[ i ] ^= static_cast< std::uint8_t >( 0x5a + i );
                    const auto t = b->mic_failure( rb );
                    h            = check_transmitted( step, t, acks ? 2 : 0, "acknowledge(MIC failure)" );
                }
                else
                {
                    if ( c_sn == p_nesn )
                    {
                        // new PDU, correctly received into a buffer: it is acknowledged ...
                        p_nesn          = !p_nesn;
                        c_inflight_seen = true;
                        if ( !c_inflight.pay.empty() )
                        {
                            ++exp_rxc;
                            // ... and handed on, unless its LLID is the reserved value 0
                            if ( c_inflight.llid != 0 )
                                stored.push_back( c_inflight );
                        }
                    }
                    const auto t = b->received( rb );
                    h            = check_transmitted( step, t, acks ? 1 : 0, "received()" );
                }
            }
            check_counters( step, "after the event" );
            check_pending( step, "after the event" );

            if ( o.p2c == P2C_LOST )
            {
                ++n_p2c_fault;
                return;
            }
            central_receives( step, h );
            (void)retransmission;
        };

        for ( std::size_t step = 0; step != c.ops.size(); ++step )
        {
            const Op& o = c.ops[ step ];
            switch ( o.kind )
            {
            case COMMIT:
                if ( talloc.size || do_talloc( step, o ) )
                    do_commit( step );
                break;
            case TALLOC:
                if ( !talloc.size )
                    do_talloc( step, o );
                break;
            case TCOMMIT:
                if ( talloc.size )
                    do_commit( step );
                break;
            case EVENT:
                do_event( step, o );
                break;
            case FREE:
                do_free( step );
                break;
            case MAXRX: {
                std::size_t n = reduce( o.len, 29, std::min< std::size_t >( 251, b->max_max_rx() ) );
                if ( c_has_inflight )
                    n = std::max( n, c_inflight.pay.size() + 2 );  // negotiated sizes never drop below a PDU that is on its way
                if ( n != b->max_rx() )
                    ++n_maxchg;
                b->max_rx( n );
                V_CHECK( b->max_rx() == n, "c15.max-size", "step ", step, ": max_rx_size() == ", b->max_rx(), " after max_rx_size(", n, ")" );
            }
            break;
            case MAXTX: {
                if ( talloc.size )
                    break;
                const std::size_t n = reduce( o.len, 29, std::min< std::size_t >( 251, b->max_max_tx() ) );
                if ( n != b->max_tx() )
                    ++n_maxchg;
                b->max_tx( n );
                V_CHECK( b->max_tx() == n, "c15.max-size", "step ", step, ": max_tx_size() == ", b->max_tx(), " after max_tx_size(", n, ")" );
            }
            break;
            case RESET:
                // a new connection: both sides start over
                ++n_resets;
                b->reset();
                c_sn = c_nesn = c_has_inflight = c_inflight_seen = false;
                c_accepted.clear();
                p_nesn = false;
                stored.clear();
                delivered = 0;
                committed.clear();
                next_tx = acked = 0;
                p_has_last = p_last_acked = p_last_sn = p_last_is_data = false;
                talloc                                                 = ll::read_buffer{ nullptr, 0 };
                starved                                                = false;
                V_CHECK( b->max_rx() == 29 && b->max_tx() == 29, "c15.max-size", "step ", step, ": sizes after reset_pdu_buffer() are ", b->max_rx(), "/", b->max_tx() );
                V_CHECK( b->next_received().size == 0, "c15.duplicate-or-invented-delivery", "step ", step, ": received PDU after reset_pdu_buffer()" );
                check_pending( step, "after reset" );
                break;
            }
            check_counters( step, "after the step" );
        }

        // ---- drain: without faults everything committed reaches the central and everything acknowledged reaches the link layer
        if ( talloc.size )
            do_commit( c.ops.size() );
        const Op    quiet{ EVENT, 1, 0, 0, C2P_OK, P2C_OK };
        std::size_t budget = 2 * ( committed.size() + stored.size() ) + 12;
        while ( budget-- && !starved )
        {
            while ( delivered != stored.size() )
                do_free( c.ops.size() );
            if ( !c_has_inflight && c_accepted.size() == committed.size() && acked == committed.size() && ( !p_has_last || p_last_acked ) )
                break;
            do_event( c.ops.size(), quiet );
        }
        while ( delivered != stored.size() )
            do_free( c.ops.size() );
        do_free( c.ops.size() );  // and nothing else
        if ( !starved )
        {
            V_CHECK( !c_has_inflight, "c15.liveness", "drain: the central's PDU ", show( c_inflight ), " is not acknowledged after ", 2 * ( committed.size() + stored.size() ) + 12,
                " fault-free events" );
            V_CHECK( c_accepted.size() == committed.size(), "c15.not-transmitted", "drain: ", committed.size() - c_accepted.size(),
                " committed PDU(s) never reached the central in fault-free events" );
            V_CHECK( acked == committed.size(), "c15.not-transmitted", "drain: committed PDU(s) never acknowledged" );
        }
        for ( std::size_t i = 0; i != c_accepted.size(); ++i )
            V_CHECK( c_accepted[ i ] == committed[ i ], "c15.central-order", "PDU #", i, " accepted by the central differs from the committed one" );
        check_counters( c.ops.size(), "after the drain" );
        check_pending( c.ops.size(), "after the drain" );

        const bool c15_nt = ( ( n_c2p_fault != 0 || n_c_retx != 0 ) && ( n_p2c_fault != 0 || n_p_retx != 0 ) ) || n_full != 0;
        const bool c16_nt = n_data_retx != 0 && ( c_pattern == 3 || p_pattern == 3 );
        const bool c17_nt = n_mic_new_data != 0;
        rep.nontrivial    = c16 ? c16_nt : c17 ? c17_nt : c15_nt;
        (void)n_empty_between_c;
        (void)n_empty_between_p;

        rep.label( verif::cat( "layout=", cf.layout ) );
        rep.label( verif::cat( "tx=", cf.tx, ",rx=", cf.rx ) );
        rep.label_if( n_full != 0, "receive-buffer-full-event" );
        rep.label_if( starved, "reception-starved(empty-ring-no-room)" );
        rep.label_if( n_c2p_fault != 0, "central-pdu-lost-or-crc" );
        rep.label_if( n_p2c_fault != 0, "peripheral-pdu-lost" );
        rep.label_if( n_c_retx != 0, "central-retransmits" );
        rep.label_if( n_p_retx != 0, "peripheral-retransmits" );
        rep.label_if( n_data_retx != 0, "data-pdu-retransmitted" );
        rep.label_if( n_mic_new != 0, "mic-failure-on-new-pdu" );
        rep.label_if( n_mic_retx != 0, "mic-failure-on-retransmission" );
        rep.label_if( n_mic_ack_honoured != 0, "mic-failure-ack-honoured" );
        rep.label_if( n_mic_ack_ignored != 0, "mic-failure-ack-ignored" );
        rep.label_if( n_tx_full != 0, "transmit-buffer-full" );
        rep.label_if( n_invalid_llid != 0, "invalid-llid-from-central" );
        rep.label_if( n_resets != 0, "reset" );
        rep.label_if( n_maxchg != 0, "max-size-changed" );
        rep.label_if( c_pattern == 3, "central:data-empty-data" );
        rep.label_if( p_pattern == 3, "peripheral:data-empty-data" );
        rep.label_if( committed.size() >= 5, "committed>=5" );
        rep.label_if( stored.size() >= 5, "received>=5" );
        rep.label_if( n_events >= 30, "events>=30" );
    }
}

// exitcode: the driver only recognises a dead worker as a crash if its exit status is neither 0 nor 1 (ASan's default is 1)
extern "C" const char* __asan_default_options() { return "exitcode=66:quarantine_size_mb=8"; }

int main( int argc, char** argv )
{
    verif::Harness< Case > h;
    h.gen       = gen_case;
    h.to_text   = to_text;
    h.from_text = from_text;
    h.run       = run;
    return verif::run_main( argc, argv, h );
}
