// C39: bluetoe::bootloader::controller< Handler, white_list< regions... >, PageSize > driven directly (DESIGN.md section 4, C39)
//
// The harness is the UserHandler: a sparse reference memory plus a log of every handler call. Generated: the
// configuration (3 page sizes x 5 region lists), control point writes (every opcode, nominal / short / long / empty
// values in exact-size heap buffers, addresses around the region and page boundaries), data writes, read-out of the
// control point / data characteristics and the completion of pending flash operations at any time.
//
// Oracles (only what the statement of C39 says):
//   (a) region     every non-empty range handed to start_flash / read_mem / checksum32 / public_read_mem /
//                  public_checksum32 lies inside ONE white-listed region (no wrap around)
//   (b) ASan       control point values are exact-size heap allocations: a read beyond the written value is a crash
//       cp.short   a value shorter than the opcode's parameters is never accepted and never acted upon
//   (c) content    every flashed page == memory before, overlaid with exactly the client's octets at the client's
//                  addresses (start address of the Start Flash procedure + offset in the data stream); data of a
//                  completed page / of a flushed page has been handed to start_flash; data is never taken without a
//                  Start Flash procedure
//   (d) crc        the handler's checksum is chained over the client's octets, starting at checksum32( start address );
//                  Start Flash / Flush responses and progress notifications announce that chain
//   (e) run/reset  only by a complete Start / Reset procedure, with the given address
#include "verif.hpp"

#include <bluetoe/server.hpp>
#include <bluetoe/services/bootloader.hpp>

#include <deque>
#include <map>
#include <memory>
#include <set>

namespace {

    namespace bl = bluetoe::bootloader;
    using octets = std::vector< std::uint8_t >;
    using addr_t = std::uintptr_t;

    std::string hx( std::uint64_t v )
    {
        char b[ 32 ];
        std::snprintf( b, sizeof b, "0x%llx", static_cast< unsigned long long >( v ) );
        return b;
    }

    template < class T >
    T pick( std::initializer_list< T > l )
    {
        return *rc::gen::elementOf( std::vector< T >( l ) );
    }

    // ---------------------------------------------------------------------------------------------- world = handler state
    struct region
    {
        addr_t start, end;  // end exclusive
    };

    struct event
    {
        enum kind
        {
            READ_MEM,
            CSUM_RANGE,
            CHUNK,
            PUB_READ,
            PUB_CSUM,
            FLASH,
            RUN,
            RESET
        } type;
        addr_t        addr = 0;
        std::size_t   size = 0;
        octets        bytes, before;
        std::uint32_t crc_in = 0, crc_out = 0;
    };

    struct world
    {
        std::vector< region >            regions;
        std::size_t                      page = 0;
        std::map< addr_t, std::uint8_t > overlay;
        std::vector< event >             ev;
        bool                             fail_public_read = false;
        bool                             cp_notify = false, data_ind = false;
        std::string                      op_name;  // what the harness is doing, for messages and signatures

        static std::uint8_t original( addr_t a )
        {
            std::uint64_t z = static_cast< std::uint64_t >( a ) * 0x9e3779b97f4a7c15ull;
            z ^= z >> 29;
            return static_cast< std::uint8_t >( ( z >> 40 ) ^ 0x5a );
        }
        std::uint8_t mem( addr_t a ) const
        {
            auto i = overlay.find( a );
            return i == overlay.end() ? original( a ) : i->second;
        }

        const char* where( addr_t addr, std::size_t size ) const
        {
            if ( size == 0 )
                return nullptr;
            const addr_t last = addr + ( size - 1 );
            if ( last < addr )
                return "wraps-around";
            for ( auto& r : regions )
                if ( addr >= r.start && last < r.end )
                    return nullptr;
            for ( auto& r : regions )
            {
                if ( addr >= r.start && addr < r.end )
                    return "runs-past-region-end";
                if ( last >= r.start && last < r.end )
                    return "starts-before-region";
                if ( addr == r.end )
                    return "starts-at-region-end";
            }
            return "outside-all-regions";
        }

        // oracle (a); thrown through the controller, which is discarded afterwards
        void touch( const char* call, addr_t addr, std::size_t size ) const
        {
            const char* w = where( addr, size );
            if ( w )
                verif::fail( "region.outside-white-list",
                    verif::cat( call, "( ", hx( addr ), ", size ", hx( size ), " ) while handling `", op_name, "`: the range ", w, "; white list:", regions_text() ),
                    verif::cat( "call=", call, " where=", w ) );
        }

        std::string regions_text() const
        {
            std::ostringstream os;
            for ( auto& r : regions )
                os << " [0x" << std::hex << r.start << ",0x" << r.end << ")";
            return os.str();
        }
    };

    world* W = nullptr;

    // the checksum of the handler: order sensitive, so that a broken chain or a reordering is visible
    std::uint32_t crc_step( std::uint32_t c, std::uint8_t b ) { return ( c ^ b ) * 16777619u + 0x9e37u; }
    std::uint32_t crc_addr( addr_t a )
    {
        std::uint32_t c = 0x811c9dc5u;
        for ( unsigned i = 0; i != sizeof( a ); ++i )
            c = crc_step( c, static_cast< std::uint8_t >( a >> ( 8 * i ) ) );
        return c;
    }

    struct handler
    {
        std::pair< const std::uint8_t*, std::size_t > get_version()
        {
            static const std::uint8_t v[] = { 0x47, 0x11, 0x08 };
            return { v, sizeof v };
        }
        void read_mem( addr_t a, std::size_t n, std::uint8_t* d )
        {
            W->touch( "read_mem", a, n );
            event e;
            e.type = event::READ_MEM;
            e.addr = a;
            e.size = n;
            W->ev.push_back( e );
            for ( std::size_t i = 0; i != n; ++i )
                d[ i ] = W->mem( a + i );
        }
        std::uint32_t checksum32( addr_t a, std::size_t n )
        {
            W->touch( "checksum32", a, n );
            event e;
            e.type = event::CSUM_RANGE;
            e.addr = a;
            e.size = n;
            W->ev.push_back( e );
            std::uint32_t c = 0;
            for ( std::size_t i = 0; i != n; ++i )
                c = crc_step( c, W->mem( a + i ) );
            return c;
        }
        std::uint32_t checksum32( const std::uint8_t* p, std::size_t n, std::uint32_t c )
        {
            event e;
            e.type   = event::CHUNK;
            e.size   = n;
            e.bytes  = octets( p, p + n );
            e.crc_in = c;
            for ( std::size_t i = 0; i != n; ++i )
                c = crc_step( c, p[ i ] );
            e.crc_out = c;
            W->ev.push_back( e );
            return c;
        }
        std::uint32_t   checksum32( addr_t a ) { return crc_addr( a ); }
        bl::error_codes public_read_mem( addr_t a, std::size_t n, std::uint8_t* d )
        {
            W->touch( "public_read_mem", a, n );
            event e;
            e.type = event::PUB_READ;
            e.addr = a;
            e.size = n;
            W->ev.push_back( e );
            if ( W->fail_public_read )
                return bl::error_codes::not_authorized;
            for ( std::size_t i = 0; i != n; ++i )
                d[ i ] = W->mem( a + i );
            return bl::error_codes::success;
        }
        std::uint32_t public_checksum32( addr_t a, std::size_t n )
        {
            W->touch( "public_checksum32", a, n );
            event e;
            e.type = event::PUB_CSUM;
            e.addr = a;
            e.size = n;
            W->ev.push_back( e );
            std::uint32_t c = 0;
            for ( std::size_t i = 0; i != n; ++i )
                c = crc_step( c, W->mem( a + i ) );
            return c;
        }
        bl::error_codes start_flash( addr_t a, const std::uint8_t* values, std::size_t n )
        {
            W->touch( "start_flash", a, n );
            event e;
            e.type  = event::FLASH;
            e.addr  = a;
            e.size  = n;
            e.bytes = octets( values, values + n );
            for ( std::size_t i = 0; i != n; ++i )
            {
                e.before.push_back( W->mem( a + i ) );
                W->overlay[ a + i ] = values[ i ];
            }
            W->ev.push_back( e );
            return bl::error_codes::success;
        }
        bl::error_codes run( addr_t a )
        {
            event e;
            e.type = event::RUN;
            e.addr = a;
            W->ev.push_back( e );
            return bl::error_codes::success;
        }
        bl::error_codes reset()
        {
            event e;
            e.type = event::RESET;
            W->ev.push_back( e );
            return bl::error_codes::success;
        }
        void control_point_notification_call_back() { W->cp_notify = true; }
        void data_indication_call_back() { W->data_ind = true; }
    };

    // ---------------------------------------------------------------------------------------------- configurations
    struct boot_if
    {
        virtual ~boot_if() {}
        virtual std::pair< std::uint8_t, bool > write_cp( std::size_t n, const std::uint8_t* v )                  = 0;
        virtual std::uint8_t                    read_cp( std::size_t rs, std::uint8_t* out, std::size_t& os )    = 0;
        virtual std::uint8_t                    write_data( std::size_t n, const std::uint8_t* v )               = 0;
        virtual std::uint8_t                    read_data( std::size_t rs, std::uint8_t* out, std::size_t& os )  = 0;
        virtual std::uint8_t                    progress( std::size_t rs, std::uint8_t* out, std::size_t& os )   = 0;
    };

    template < std::size_t Page, class WhiteList >
    struct boot_impl : boot_if
    {
        bl::controller< handler, WhiteList, Page > c;

        std::pair< std::uint8_t, bool > write_cp( std::size_t n, const std::uint8_t* v ) override { return c.bootloader_write_control_point( n, v ); }
        std::uint8_t read_cp( std::size_t rs, std::uint8_t* out, std::size_t& os ) override { return c.bootloader_read_control_point( rs, out, os ); }
        std::uint8_t write_data( std::size_t n, const std::uint8_t* v ) override { return c.bootloader_write_data( n, v ); }
        std::uint8_t read_data( std::size_t rs, std::uint8_t* out, std::size_t& os ) override { return c.bootloader_read_data( rs, out, os ); }
        std::uint8_t progress( std::size_t rs, std::uint8_t* out, std::size_t& os ) override { return c.bootloader_progress_data( rs, out, os ); }
    };

    struct config
    {
        std::size_t                                   page;
        std::vector< region >                         regions;
        const char*                                   name;
        std::function< std::unique_ptr< boot_if >() > make;
    };

    constexpr addr_t top = ~addr_t( 0 );

    template < std::size_t Page >
    void add_configs( std::vector< config >& c )
    {
        using bl::memory_region;
        using bl::white_list;
        c.push_back( { Page, { { 0x1000, 0x2000 } }, "aligned", [] { return std::unique_ptr< boot_if >( new boot_impl< Page, white_list< memory_region< 0x1000, 0x2000 > > >() ); } } );
        c.push_back( { Page, { { 0x1000, 0x1800 }, { 0x2000, 0x2800 } }, "two-with-gap",
            [] { return std::unique_ptr< boot_if >( new boot_impl< Page, white_list< memory_region< 0x1000, 0x1800 >, memory_region< 0x2000, 0x2800 > > >() ); } } );
        c.push_back( { Page, { { 0x1008, 0x1ff4 } }, "unaligned", [] { return std::unique_ptr< boot_if >( new boot_impl< Page, white_list< memory_region< 0x1008, 0x1ff4 > > >() ); } } );
        c.push_back( { Page, { { top - 0xfff, top } }, "top-of-address-space",
            [] { return std::unique_ptr< boot_if >( new boot_impl< Page, white_list< memory_region< top - 0xfff, top > > >() ); } } );
        c.push_back( { Page, { { 0, 0x800 } }, "bottom-of-address-space", [] { return std::unique_ptr< boot_if >( new boot_impl< Page, white_list< memory_region< 0, 0x800 > > >() ); } } );
    }

    const std::vector< config >& configs()
    {
        static const std::vector< config > c = [] {
            std::vector< config > v;
            add_configs< 16 >( v );
            add_configs< 64 >( v );
            add_configs< 1024 >( v );
            return v;
        }();
        return c;
    }

    // ---------------------------------------------------------------------------------------------- case
    enum op_kind
    {
        CP,      // control point write: bytes
        DATA,    // data write: bytes
        CPREAD,  // read the control point value (a notification is sent): n = read size
        DREAD,   // read the data value (an indication is sent) if one was requested: n = read size, flag = public_read_mem fails
        DONE,    // the oldest pending flash operation completes: progress notification, n = read size
    };

    struct Op
    {
        int         kind = CP;
        octets      bytes;
        std::size_t n    = 20;
        bool        flag = false;
    };

    struct Case
    {
        int               cfg = 0;
        std::vector< Op > ops;
    };

    enum opcode
    {
        OPC_VERSION,
        OPC_CRC,
        OPC_SIZES,
        OPC_START_FLASH,
        OPC_STOP_FLASH,
        OPC_FLUSH,
        OPC_START,
        OPC_RESET,
        OPC_READ
    };

    std::size_t nominal_length( int opc )
    {
        switch ( opc )
        {
        case OPC_CRC:
        case OPC_READ: return 1 + 2 * sizeof( addr_t );
        case OPC_START_FLASH:
        case OPC_START: return 1 + sizeof( addr_t );
        default: return 1;
        }
    }

    addr_t get_addr( const octets& v, std::size_t off )
    {
        addr_t a = 0;
        for ( std::size_t i = 0; i != sizeof( addr_t ) && off + i < v.size(); ++i )
            a |= static_cast< addr_t >( v[ off + i ] ) << ( 8 * i );
        return a;
    }

    std::string describe_cp( const octets& v )
    {
        static const char* names[] = { "get_version", "get_crc", "get_sizes", "start_flash", "stop_flash", "flush", "start", "reset", "read" };
        if ( v.empty() )
            return "empty";
        std::ostringstream os;
        if ( v[ 0 ] <= OPC_READ )
            os << names[ v[ 0 ] ];
        else
            os << "opcode-0x" << std::hex << int( v[ 0 ] );
        const std::size_t nom = v[ 0 ] <= OPC_READ ? nominal_length( v[ 0 ] ) : 1;
        if ( nom > 1 && v.size() >= 1 + sizeof( addr_t ) )
            os << " 0x" << std::hex << get_addr( v, 1 );
        if ( nom > 1 + sizeof( addr_t ) && v.size() >= nom )
            os << " 0x" << std::hex << get_addr( v, 1 + sizeof( addr_t ) );
        if ( v.size() != nom )
            os << std::dec << " (length " << v.size() << " instead of " << nom << ")";
        return os.str();
    }

    std::string to_text( const Case& c )
    {
        std::ostringstream os;
        const config&      cf = configs()[ c.cfg % configs().size() ];
        os << "cfg " << c.cfg << "  # page " << cf.page << ", " << cf.name;
        for ( auto& r : cf.regions )
            os << " [0x" << std::hex << r.start << ",0x" << r.end << ")" << std::dec;
        os << "\n";
        for ( auto& o : c.ops )
        {
            switch ( o.kind )
            {
            case CP: os << "cp " << verif::hex( o.bytes ) << "  # " << describe_cp( o.bytes ) << "\n"; break;
            case DATA: os << "data " << verif::hex( o.bytes ) << "  # " << o.bytes.size() << " octets\n"; break;
            case CPREAD: os << "cpread " << o.n << "\n"; break;
            case DREAD: os << "dread " << o.n << " " << ( o.flag ? 1 : 0 ) << "\n"; break;
            case DONE: os << "done " << o.n << "\n"; break;
            }
        }
        return os.str();
    }

    Case from_text( const std::string& t )
    {
        Case         c;
        verif::Lines L( t );
        for ( auto& l : L.lines )
        {
            Op o;
            if ( l[ 0 ] == "cfg" )
            {
                c.cfg = static_cast< int >( verif::tok_int( l, 1 ) );
                continue;
            }
            else if ( l[ 0 ] == "cp" || l[ 0 ] == "data" )
            {
                o.kind  = l[ 0 ] == "cp" ? CP : DATA;
                o.bytes = verif::unhex( verif::tok_str( l, 1 ) );
            }
            else if ( l[ 0 ] == "cpread" || l[ 0 ] == "dread" || l[ 0 ] == "done" )
            {
                o.kind = l[ 0 ] == "cpread" ? CPREAD : l[ 0 ] == "dread" ? DREAD : DONE;
                o.n    = static_cast< std::size_t >( verif::tok_int( l, 1, 20 ) );
                o.flag = verif::tok_int( l, 2, 0 ) != 0;
            }
            else
                continue;
            c.ops.push_back( o );
        }
        if ( c.cfg < 0 )
            c.cfg = 0;
        return c;
    }

    // ---------------------------------------------------------------------------------------------- generator
    void put_addr( octets& v, addr_t a )
    {
        for ( unsigned i = 0; i != sizeof( a ); ++i )
            v.push_back( static_cast< std::uint8_t >( a >> ( 8 * i ) ) );
    }

    addr_t gen_addr( const config& cf )
    {
        const region& r = cf.regions[ *verif::range< std::size_t >( 0, cf.regions.size() - 1 ) ];
        const addr_t  P = cf.page;
        const addr_t  span = r.end - r.start;
        switch ( *rc::gen::weightedElement< int >( { { 4, 0 }, { 4, 1 }, { 6, 2 }, { 6, 3 }, { 2, 4 }, { 1, 5 } } ) )
        {
        case 0:  // around the start of the region
            return r.start + static_cast< addr_t >( pick< long >( { -1, 0, 0, 1, -static_cast< long >( P ), static_cast< long >( P ) - 1, static_cast< long >( P ), static_cast< long >( P ) + 1 } ) );
        case 1:  // around the end of the region
            return r.end + static_cast< addr_t >( pick< long >( { -1, 0, 0, 1, -static_cast< long >( P ), -static_cast< long >( P ) - 1, -static_cast< long >( P ) + 1, static_cast< long >( P ), -2 * static_cast< long >( P ), -3 } ) );
        case 2:  // a page boundary inside the region, +- a little
        {
            const addr_t pages = span / P;
            const addr_t base  = ( r.start - r.start % P ) + P * *verif::range< addr_t >( 0, pages );
            return base + static_cast< addr_t >( pick< long >( { 0, 0, 0, -1, 1, -3, 5 } ) );
        }
        case 3:  // anywhere inside
            return r.start + *verif::range< addr_t >( 0, span - 1 );
        case 4: return pick< addr_t >( { 0, 1, top, top - 1, top - P + 1, static_cast< addr_t >( 0x100000000ull ), static_cast< addr_t >( 0x80000000ull ) } );
        default: return *verif::range< addr_t >( 0, top - 1 );
        }
    }

    octets gen_bytes( std::size_t n )
    {
        // cheap: a seed expands to the octets (shrinks to a constant fill)
        const unsigned seed = *verif::range< unsigned >( 0, 255 );
        octets         v( n );
        for ( std::size_t i = 0; i != n; ++i )
            v[ i ] = static_cast< std::uint8_t >( seed == 0 ? 0xa5 : ( seed * 31 + i * 7 + ( i >> 3 ) * 13 ) );
        return v;
    }

    Op gen_cp( const config& cf, bool exclude_short_read )
    {
        Op o;
        o.kind = CP;
        const int opc = *rc::gen::weightedElement< int >( { { 2, OPC_VERSION }, { 5, OPC_CRC }, { 2, OPC_SIZES }, { 22, OPC_START_FLASH }, { 3, OPC_STOP_FLASH }, { 9, OPC_FLUSH },
            { 3, OPC_START }, { 2, OPC_RESET }, { 9, OPC_READ }, { 1, 9 }, { 1, 10 }, { 1, 0xff }, { 1, 0x80 } } );
        o.bytes.push_back( static_cast< std::uint8_t >( opc ) );
        if ( opc == OPC_CRC || opc == OPC_READ )
        {
            addr_t a = gen_addr( cf ), b = 0;
            switch ( *rc::gen::weightedElement< int >( { { 5, 0 }, { 3, 1 }, { 2, 2 }, { 1, 3 } } ) )
            {
            case 0: b = a + *verif::range< addr_t >( 0, 70 ); break;
            case 1: b = gen_addr( cf ); break;
            case 2: b = a + cf.page * *verif::range< addr_t >( 0, 3 ); break;
            default: b = a - *verif::range< addr_t >( 1, 20 ); break;
            }
            put_addr( o.bytes, a );
            put_addr( o.bytes, b );
        }
        else if ( opc == OPC_START_FLASH || opc == OPC_START )
        {
            put_addr( o.bytes, gen_addr( cf ) );
        }
        // length mutations
        switch ( *rc::gen::weightedElement< int >( { { 40, 0 }, { 3, 1 }, { 2, 2 }, { 1, 3 }, { 1, 4 } } ) )
        {
        case 0: break;
        case 1:  // truncated
            o.bytes.resize( *verif::range< std::size_t >( 1, o.bytes.size() ) );
            break;
        case 2:  // too long
        {
            const octets extra = gen_bytes( *verif::range< std::size_t >( 1, 12 ) );
            o.bytes.insert( o.bytes.end(), extra.begin(), extra.end() );
        }
        break;
        case 3: o.bytes.clear(); break;
        default: o.bytes.resize( 1 ); break;
        }
        if ( exclude_short_read && !o.bytes.empty() && o.bytes[ 0 ] == OPC_READ && o.bytes.size() < nominal_length( OPC_READ ) )
        {
            // F-39a excluded: the Read procedure always carries both addresses
            o.bytes.resize( nominal_length( OPC_READ ), 0 );
            o.flag = true;  // remembered as "changed because of an exclusion"
        }
        return o;
    }

    Op gen_data( const config& cf )
    {
        Op o;
        o.kind = DATA;
        const std::size_t P = cf.page;
        std::size_t       n = 0;
        switch ( *rc::gen::weightedElement< int >( { { 6, 0 }, { 5, 1 }, { 4, 2 }, { 2, 3 }, { 1, 4 }, { 1, 5 } } ) )
        {
        case 0: n = *verif::range< std::size_t >( 1, 20 ); break;                     // one ATT write at the default MTU
        case 1: n = *verif::range< std::size_t >( 1, 200 ); break;
        case 2: n = P > 200 ? *verif::range< std::size_t >( 180, 244 ) : P + pick< std::size_t >( { 0, 0, 1, 2, 3 } ) - 1; break;  // about a page / a big MTU
        case 3: n = P > 200 ? 512 : 2 * P + *verif::range< std::size_t >( 0, 3 ); break;
        case 4: n = 0; break;
        default: n = P > 200 ? P + *verif::range< std::size_t >( 0, 80 ) : 3 * P + 1; break;
        }
        o.bytes = gen_bytes( n );
        return o;
    }

    Op gen_simple( int kind )
    {
        Op o;
        o.kind = kind;
        o.n    = *rc::gen::weightedElement< std::size_t >( { { 6, 20 }, { 1, 22 }, { 1, 100 }, { 1, 244 }, { 1, 512 } } );
        if ( kind == DREAD )
        {
            o.n    = *rc::gen::weightedElement< std::size_t >( { { 6, 20 }, { 1, 1 }, { 1, 7 }, { 1, 100 }, { 1, 244 } } );
            o.flag = *verif::range< int >( 0, 9 ) == 0;
        }
        return o;
    }

    // one element of the sequence: an operation, now and then directly followed by the read-out it triggers
    rc::Gen< std::vector< Op > > gen_group( int cfg, int done_weight, bool no_short_read )
    {
        return rc::gen::exec( [cfg, done_weight, no_short_read]() {
            const config&     cf = configs()[ cfg ];
            std::vector< Op > g;
            switch ( *rc::gen::weightedElement< int >( { { 10, CP }, { 16, DATA }, { 3, CPREAD }, { 4, DREAD }, { static_cast< std::size_t >( done_weight ), DONE } } ) )
            {
            case CP:
                g.push_back( gen_cp( cf, no_short_read ) );
                // a control point value is normally read right away (the notification)
                if ( *verif::range< int >( 0, 3 ) != 0 )
                    g.push_back( gen_simple( CPREAD ) );
                // the Read procedure sends its data by indications
                if ( !g[ 0 ].bytes.empty() && g[ 0 ].bytes[ 0 ] == OPC_READ )
                    for ( int n = *verif::range< int >( 0, 4 ); n > 0; --n )
                        g.push_back( gen_simple( DREAD ) );
                break;
            case DATA: g.push_back( gen_data( cf ) ); break;
            case CPREAD: g.push_back( gen_simple( CPREAD ) ); break;
            case DREAD: g.push_back( gen_simple( DREAD ) ); break;
            default: g.push_back( gen_simple( DONE ) ); break;
            }
            return g;
        } );
    }

    rc::Gen< Case > gen_case()
    {
        const bool no_short_read = verif::opt_has( "exclude", "F-39a" );
        // the configuration and how busy the flash hardware is come first, the sequence (which rapidcheck shrinks by
        // dropping elements) second
        return rc::gen::mapcat( rc::gen::pair( verif::range< int >( 0, static_cast< int >( configs().size() ) - 1 ), rc::gen::element( 2, 6, 14 ) ),
            [no_short_read]( const std::pair< int, int >& p ) {
                const int cfg = p.first;
                return rc::gen::map( rc::gen::container< std::vector< std::vector< Op > > >( gen_group( cfg, p.second, no_short_read ) ),
                    [cfg]( const std::vector< std::vector< Op > >& groups ) {
                        Case c;
                        c.cfg = cfg;
                        for ( auto& g : groups )
                            c.ops.insert( c.ops.end(), g.begin(), g.end() );
                        return c;
                    } );
            } );
    }

    // ---------------------------------------------------------------------------------------------- reference + run
    struct pending_flash
    {
        unsigned      session;
        std::uint32_t crc;  // the checksum chain at the end of the block
    };

    struct model
    {
        bool                             active = false;   // a Start Flash procedure was accepted and not stopped
        bool                             pure   = false;   // ... and no other control point procedure than Flush since
        unsigned                         session = 0;
        addr_t                           cursor = 0;
        std::uint32_t                    crc    = 0;
        std::map< addr_t, std::uint8_t > sent;    // octets taken from the client in this session, by target address
        std::set< addr_t >               dirty;   // ... that were not handed to start_flash yet
        std::deque< pending_flash >      pending;
        unsigned                         stale_in_session = 0;  // completions of older sessions delivered during this one
    };

    void run( const Case& c, verif::Report& rep )
    {
        const config& cf = configs()[ static_cast< std::size_t >( c.cfg ) % configs().size() ];
        world         w;
        w.regions = cf.regions;
        w.page    = cf.page;
        W         = &w;
        std::unique_ptr< boot_if > boot = cf.make();
        model                      m;
        const addr_t               P = cf.page;
        const bool stale_excluded = verif::opt_has( "exclude", "F-39d" );

        bool near_boundary = false, odd_length = false, last_page_flashed = false, start_at_end = false;
        unsigned pages_flashed = 0, overruns = 0, flushes = 0, reads_done = 0, stale = 0, multi_page_writes = 0, cp_rejected = 0, run_reset = 0;

        auto note_addr = [&]( addr_t a ) {
            for ( auto& r : cf.regions )
            {
                const addr_t d1 = a - r.start, d2 = r.start - a, d3 = a - r.end, d4 = r.end - a;
                if ( d1 <= P || d2 <= P || d3 <= P || d4 <= P )
                    near_boundary = true;
            }
        };

        // handed-over flash pages: oracle (c)
        auto check_flash = [&]( const event& e, std::size_t step ) {
            for ( std::size_t j = 0; j != e.size; ++j )
            {
                const addr_t       x    = e.addr + j;
                auto               s    = m.sent.find( x );
                const std::uint8_t want = s != m.sent.end() ? s->second : e.before[ j ];
                V_CHECK_SIG( e.bytes[ j ] == want, "flash.content", verif::cat( "kind=", s != m.sent.end() ? "client-data-lost" : "foreign-octet-changed" ), "step ", step, " (", w.op_name,
                    "): start_flash( ", hx( e.addr ), ", size ", hx( e.size ), " ) writes ", hx( e.bytes[ j ] ), " to ", hx( x ), "; ",
                    s != m.sent.end() ? "the client sent " : "the client sent nothing for this address and the memory holds ", hx( want ),
                    " (Start Flash address + stream offset decide the target; next target address ", hx( m.cursor ), ")" );
                m.dirty.erase( x );
            }
            ++pages_flashed;
            for ( auto& r : cf.regions )
                if ( e.size && e.addr + ( e.size - 1 ) == r.end - 1 )
                    last_page_flashed = true;
            m.pending.push_back( { m.session, m.crc } );
        };

        for ( std::size_t step = 0; step != c.ops.size(); ++step )
        {
            const Op&         o     = c.ops[ step ];
            const std::size_t first = w.ev.size();

            switch ( o.kind )
            {
            case CP:
            {
                if ( stale_excluded && !m.pending.empty() && !o.bytes.empty() && ( o.bytes[ 0 ] == OPC_START_FLASH || o.bytes[ 0 ] == OPC_STOP_FLASH || o.bytes[ 0 ] == OPC_VERSION || o.bytes[ 0 ] == OPC_SIZES ) )
                {
                    // F-39d excluded: the flash hardware is idle when a procedure resets the page buffers
                    rep.excluded = true;
                    w.op_name    = "flash completed (progress)";
                    while ( !m.pending.empty() )
                    {
                        m.pending.pop_front();
                        std::uint8_t out[ 20 ];
                        std::size_t  os = 0;
                        boot->progress( sizeof out, out, os );
                    }
                }
                w.op_name = "cp " + describe_cp( o.bytes );
                if ( o.flag )
                    rep.excluded = true;
                // exact size heap allocation: a read beyond the value is an ASan report (oracle b)
                std::unique_ptr< std::uint8_t[] > value( new std::uint8_t[ o.bytes.size() ] );
                std::copy( o.bytes.begin(), o.bytes.end(), value.get() );
                const auto rc = boot->write_cp( o.bytes.size(), value.get() );
                const bool ok = rc.first == 0;
                const int  opc = o.bytes.empty() ? -1 : o.bytes[ 0 ];
                if ( opc == OPC_START_FLASH && o.bytes.size() == nominal_length( opc ) )
                    for ( auto& r : cf.regions )
                        if ( get_addr( o.bytes, 1 ) == r.end )
                            start_at_end = true;
                const std::size_t nom = opc >= 0 && opc <= OPC_READ ? nominal_length( opc ) : 1;
                if ( o.bytes.size() != nom )
                    odd_length = true;
                if ( !ok )
                    ++cp_rejected;

                // a value that does not hold the parameters of its opcode
                if ( o.bytes.size() < nom )
                {
                    V_CHECK_SIG( !ok, "cp.short-value", verif::cat( "opcode=", opc ), "step ", step, ": `", w.op_name, "` was accepted although the value has only ",
                        o.bytes.size(), " of ", nom, " octets" );
                }
                // oracle (e)
                unsigned runs = 0, resets = 0;
                for ( std::size_t i = first; i != w.ev.size(); ++i )
                {
                    if ( w.ev[ i ].type == event::RUN )
                    {
                        ++runs;
                        V_CHECK( opc == OPC_START && o.bytes.size() >= nom && w.ev[ i ].addr == get_addr( o.bytes, 1 ), "run.unrequested", "step ", step, ": run( ", hx( w.ev[ i ].addr ), " ) while handling `", w.op_name, "`" );
                    }
                    if ( w.ev[ i ].type == event::RESET )
                    {
                        ++resets;
                        V_CHECK( opc == OPC_RESET, "run.unrequested", "step ", step, ": reset() while handling `", w.op_name, "`" );
                    }
                }
                V_CHECK( runs + resets <= 1, "run.unrequested", "step ", step, ": ", runs, " run() and ", resets, " reset() calls for one control point write" );
                run_reset += runs + resets;

                // what the client now believes
                if ( ok && opc == OPC_START_FLASH && o.bytes.size() >= nom )
                {
                    m.active = true;
                    m.pure   = true;
                    ++m.session;
                    m.stale_in_session = 0;
                    m.cursor = get_addr( o.bytes, 1 );
                    m.crc    = crc_addr( m.cursor );
                    m.sent.clear();
                    m.dirty.clear();
                    note_addr( m.cursor );
                }
                else if ( ok && ( opc == OPC_STOP_FLASH ) )
                {
                    // buffered data is discarded with the procedure
                    m.active = false;
                    m.pure   = false;
                    m.sent.clear();
                    m.dirty.clear();
                }
                else if ( opc == OPC_FLUSH )
                {
                    if ( ok )
                        ++flushes;
                }
                else
                {
                    // any other procedure (or a rejected one): the specification of the protocol lets flash mode end
                    // here, the implementation may also keep it; both are fine as long as addresses stay right
                    m.pure = false;
                    if ( opc == OPC_CRC || opc == OPC_READ || opc == OPC_START )
                    {
                        note_addr( get_addr( o.bytes, 1 ) );
                        if ( opc != OPC_START )
                            note_addr( get_addr( o.bytes, 1 + sizeof( addr_t ) ) );
                    }
                }

                for ( std::size_t i = first; i != w.ev.size(); ++i )
                    if ( w.ev[ i ].type == event::FLASH )
                        check_flash( w.ev[ i ], step );
                if ( ok && opc == OPC_FLUSH && m.active )
                    V_CHECK( m.dirty.empty(), "flash.missing", "step ", step, ": Flush was accepted, but ", m.dirty.size(), " octets taken from the client (first at ", hx( *m.dirty.begin() ),
                        ") were not handed to start_flash" );
            }
            break;

            case DATA:
            {
                w.op_name = verif::cat( "data ", o.bytes.size(), " octets" );
                std::unique_ptr< std::uint8_t[] > value( new std::uint8_t[ o.bytes.size() ] );
                std::copy( o.bytes.begin(), o.bytes.end(), value.get() );
                const addr_t       cursor_before = m.cursor;
                const std::uint8_t rc            = boot->write_data( o.bytes.size(), value.get() );
                std::size_t        consumed      = 0;
                for ( std::size_t i = first; i != w.ev.size(); ++i )
                {
                    const event& e = w.ev[ i ];
                    if ( e.type == event::CHUNK )
                    {
                        V_CHECK( m.active, "data.without-start-flash", "step ", step, ": ", e.size, " octets written to the data characteristic were taken although ",
                            m.session ? "the flash procedure was stopped" : "no Start Flash procedure was accepted" );
                        V_CHECK( consumed + e.size <= o.bytes.size() && std::equal( e.bytes.begin(), e.bytes.end(), o.bytes.begin() + consumed ), "crc.chain", "step ", step,
                            ": the octets checksummed (", verif::hex( e.bytes ), ") are not the next ", e.size, " octets of the data written (offset ", consumed, ")" );
                        V_CHECK_SIG( e.crc_in == m.crc, "crc.chain", "kind=old-crc", "step ", step, ": checksum32( data, ", e.size, ", old_crc = ", hx( e.crc_in ),
                            " ) but the chain over the start address and all octets so far is ", hx( m.crc ) );
                        for ( auto b : e.bytes )
                        {
                            m.sent[ m.cursor ] = b;
                            m.dirty.insert( m.cursor );
                            ++m.cursor;
                        }
                        m.crc = e.crc_out;
                        consumed += e.size;
                    }
                    else if ( e.type == event::FLASH )
                        check_flash( e, step );
                }
                if ( rc == 0 && m.active )
                    V_CHECK( consumed == o.bytes.size(), "data.dropped", "step ", step, ": the write of ", o.bytes.size(), " octets was acknowledged but only ", consumed, " were taken" );
                if ( rc == bl::buffer_overrun_attempt )
                    ++overruns;
                if ( consumed )
                {
                    note_addr( m.cursor );
                    if ( ( m.cursor - 1 ) / P != cursor_before / P && ( m.cursor - cursor_before ) > P )
                        ++multi_page_writes;
                    // every completed page has been handed over
                    for ( auto x : m.dirty )
                        V_CHECK_SIG( x / P == m.cursor / P && x < m.cursor, "flash.missing", "kind=completed-page", "step ", step, ": the octet for ", hx( x ),
                            " was taken from the client, its page is complete (next target address ", hx( m.cursor ), "), but it was not handed to start_flash" );
                }
            }
            break;

            case CPREAD:
            {
                w.op_name = "read control point";
                const std::size_t rs = std::max< std::size_t >( o.n, 20 );
                std::unique_ptr< std::uint8_t[] > out( new std::uint8_t[ rs ] );
                std::fill( out.get(), out.get() + rs, 0xcd );
                std::size_t os = ~std::size_t( 0 );
                boot->read_cp( rs, out.get(), os );
                if ( os != ~std::size_t( 0 ) )
                    V_CHECK( os <= rs, "response.size", "step ", step, ": control point value of ", os, " octets for a buffer of ", rs );
                // the announcements of the chain, when read right after the procedure was accepted
                const bool right_after = step > 0 && c.ops[ step - 1 ].kind == CP && !c.ops[ step - 1 ].bytes.empty();
                if ( right_after && os != ~std::size_t( 0 ) && os >= 1 && m.active && m.pure )
                {
                    const int opc = c.ops[ step - 1 ].bytes[ 0 ];
                    auto      u32 = [&]( std::size_t off ) {
                        return std::uint32_t( out[ off ] ) | ( std::uint32_t( out[ off + 1 ] ) << 8 ) | ( std::uint32_t( out[ off + 2 ] ) << 16 ) | ( std::uint32_t( out[ off + 3 ] ) << 24 );
                    };
                    if ( opc == OPC_START_FLASH && out[ 0 ] == OPC_START_FLASH && os >= 6 && m.sent.empty() )
                        V_CHECK_SIG( u32( 2 ) == m.crc, "crc.announced", "kind=start-flash-response", "step ", step, ": the Start Flash response announces checksum ", hx( u32( 2 ) ),
                            ", checksum32( start address ) is ", hx( m.crc ) );
                    if ( opc == OPC_FLUSH && out[ 0 ] == OPC_FLUSH && os >= 5 )
                        V_CHECK_SIG( u32( 1 ) == m.crc, "crc.announced", "kind=flush-response", "step ", step, ": the Flush response announces checksum ", hx( u32( 1 ) ),
                            ", the chain over the start address and all data is ", hx( m.crc ) );
                }
                w.cp_notify = false;
            }
            break;

            case DREAD:
            {
                if ( !w.data_ind )
                    break;
                w.op_name          = "read data (indication)";
                w.data_ind         = false;
                w.fail_public_read = o.flag;
                const std::size_t rs = std::max< std::size_t >( o.n, 1 );
                std::unique_ptr< std::uint8_t[] > out( new std::uint8_t[ rs ] );
                std::size_t os = 0;
                boot->read_data( rs, out.get(), os );
                w.fail_public_read = false;
                V_CHECK( os <= rs, "response.size", "step ", step, ": data value of ", os, " octets for a buffer of ", rs );
                for ( std::size_t i = first; i != w.ev.size(); ++i )
                    if ( w.ev[ i ].type == event::PUB_READ )
                        note_addr( w.ev[ i ].addr + w.ev[ i ].size );
                if ( w.cp_notify )
                    ++reads_done;
            }
            break;

            case DONE:
            {
                if ( m.pending.empty() )
                    break;
                const pending_flash p = m.pending.front();
                m.pending.pop_front();
                w.op_name = "flash completed (progress)";
                const bool is_stale = !m.active || p.session != m.session;
                if ( is_stale )
                {
                    ++stale;
                    if ( m.active )
                        ++m.stale_in_session;
                }
                const std::size_t rs = std::max< std::size_t >( o.n, 7 );
                std::unique_ptr< std::uint8_t[] > out( new std::uint8_t[ rs ] );
                std::size_t os = 0;
                boot->progress( rs, out.get(), os );
                V_CHECK( os <= rs, "response.size", "step ", step, ": progress value of ", os, " octets for a buffer of ", rs );
                if ( !is_stale && m.pure && m.stale_in_session == 0 && os >= 4 )
                {
                    const std::uint32_t got = std::uint32_t( out[ 0 ] ) | ( std::uint32_t( out[ 1 ] ) << 8 ) | ( std::uint32_t( out[ 2 ] ) << 16 ) | ( std::uint32_t( out[ 3 ] ) << 24 );
                    V_CHECK_SIG( got == p.crc, "crc.announced", "kind=progress", "step ", step, ": the progress notification announces checksum ", hx( got ),
                        ", the chain up to the end of the flashed block is ", hx( p.crc ) );
                }
            }
            break;
            }
        }

        W = nullptr;
        rep.nontrivial = near_boundary || odd_length;
        rep.label( verif::cat( "page=", cf.page ) );
        rep.label( verif::cat( "regions=", cf.name ) );
        rep.label_if( near_boundary, "address-within-a-page-of-a-region-boundary" );
        rep.label_if( odd_length, "cp-length!=nominal" );
        rep.label_if( pages_flashed >= 1, "pages-flashed>=1" );
        rep.label_if( pages_flashed >= 1, verif::cat( "pages-flashed>=1:page=", cf.page ) );
        rep.label_if( last_page_flashed, "last-page-of-a-region-flashed" );
        rep.label_if( start_at_end, "start-flash-at-region-end-requested" );
        rep.label_if( pages_flashed >= 3, "pages-flashed>=3" );
        rep.label_if( multi_page_writes != 0, "one-write-spans-pages" );
        rep.label_if( overruns != 0, "buffer-overrun-reported" );
        rep.label_if( flushes != 0, "flush-accepted" );
        rep.label_if( reads_done != 0, "read-procedure-completed" );
        rep.label_if( stale != 0, "completion-after-session-ended" );
        rep.label_if( run_reset != 0, "run-or-reset" );
        rep.label_if( cp_rejected != 0, "cp-rejected" );
    }
}

#ifndef C39_BOOT_NO_MAIN  // engines/comp/c39_fuzz.cpp includes this file and brings its own main()
int main( int argc, char** argv )
{
    verif::Harness< Case > h;
    h.gen       = gen_case;
    h.to_text   = to_text;
    h.from_text = from_text;
    h.run       = run;
    return verif::run_main( argc, argv, h );
}
#endif
