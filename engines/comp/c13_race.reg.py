# C13: notification_queue under a deterministic two-context scheduler (lib/sched.hpp), needs hook 1 (yield points in notification_queue.hpp)
target('c13_race', 'engines/comp/c13_race.cpp',
       quick=dict(cases=480000, size=60),
       thorough=dict(cases=3000000, size=80))
# exhaustive enumeration of complete schedule trees; thorough tier only (quick: 0 cases). parts == procs; cases == number of
# trees of dfs_space() (17952).
target('c13_race_dfs', 'engines/comp/c13_race.cpp',
       quick=dict(cases=0),
       thorough=dict(cases=17952, size=10, procs=8, opts={'mode': 'dfs', 'parts': 8}))
prop('C13', ['c13_race', 'c13_race_dfs'], 'comp',
     rule='a case = one of 13 priority partitions (levels of 1 characteristic use the two-flag specialisation; <5>, <9> spread one level over '
          'several queue bytes), a sequential start-up (0..5 operations), a producer program of 0..3 queue_notification/queue_indication, a '
          'consumer program of 0..3 dequeue/confirm and a schedule (choice before every load and every store of shared queue memory) for free '
          'interleaving or interrupt nesting in either direction; non-trivial = a context switch happens between a load and a later store of '
          'the same queue byte inside one operation; distinct = distinct serialised (programs, schedule). With exclude=F-13 the preemptions that '
          'let the other context store into such a window are dropped (case counted in excluded_known). Target c13_race_dfs (thorough only) '
          'enumerates depth first EVERY schedule (free interleaving and nesting in both directions) of every pair of a producer program of 1..2 '
          'requests with a consumer program of one dequeue, two dequeues, or two dequeues with a confirmation in between, on <1>, <2>, <1,1> from '
          'every start state (every subset of pending requests, with and without outstanding confirmation) and on <5> (characteristics 0, 3, 4: '
          'two of them share a queue byte) from four start states',
     technique='deterministic schedule exploration (rapidcheck generated schedules + bounded exhaustive depth-first enumeration) with a linearizability oracle against the documented queue behaviour',
     level_text='every generated or enumerated interleaving is executed on the real queue; the observed history (results and real-time order) '
                'followed by a sequential drain must be linearizable with respect to: queue_x returns true iff the request is not pending, '
                'dequeue returns some pending eligible request or empty only if there is none. Lost and duplicated requests and unjustified '
                'refusals are exactly the non-linearizable histories. Sampling for the random target; complete for the stated sub-space of the '
                'dfs target when all dfs-part classes are present. Sequential consistency is assumed.',
     level_note='trusted: lib/sched.hpp, the linearizability search in engines/comp/c13_race.cpp, hook 1 (every shared access of add/remove/at and of '
                'the size-1 specialisation is preceded by a yield point; clear_indications_and_confirmations is only used sequentially)',
     assumptions=COMMON_ASSUME + ['sequentially consistent memory; one requesting context and one link layer context; interleaving granularity = single loads/stores of queue bytes'],
     exhaustive_thorough=True)
