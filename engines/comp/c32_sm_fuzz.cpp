// C32..C35, libFuzzer variant: bytes are decoded into the same Case the rapidcheck harness uses (configuration, case parameters,
// bonds, steps relative to the reference state) and run through the same run() with the same oracles (engines/comp/c32_sm.cpp).
// The property (oracle set, non-trivial rule) comes from VERIF_FUZZ_PROPERTY (default C32).
// fuzz-extra-src: $REPO/bluetoe/utility/address.cpp
// fuzz-libs: -lrapidcheck
#define main c32_sm_rapidcheck_main
#include "c32_sm.cpp"
#undef main

#include <fuzzer/FuzzedDataProvider.h>

extern "C" int LLVMFuzzerTestOneInput( const std::uint8_t* data, std::size_t size )
{
    static bool init = false;
    if ( !init )
    {
        init = true;
        auto& S    = verif::Session::get();
        S.property = std::getenv( "VERIF_FUZZ_PROPERTY" ) ? std::getenv( "VERIF_FUZZ_PROPERTY" ) : "C32";
        if ( std::getenv( "VERIF_FUZZ_EXCLUDE" ) )
            S.opts[ "exclude" ] = std::getenv( "VERIF_FUZZ_EXCLUDE" );
    }
    FuzzedDataProvider fdp( data, size );
    Case               c;
    c.cfg       = fdp.ConsumeIntegralInRange< int >( 0, static_cast< int >( configs().size() ) - 1 );
    c.seed      = fdp.ConsumeIntegralInRange< std::uint32_t >( 1, 0xffffff );
    c.user_mode = fdp.ConsumeIntegralInRange< int >( 0, 2 );
    c.oob       = fdp.ConsumeIntegralInRange< int >( 0, 1 );
    c.passkey   = fdp.ConsumeIntegralInRange< std::uint32_t >( 1, 999999 );
    for ( int n = fdp.ConsumeIntegralInRange< int >( 0, 2 ); n > 0; --n )
    {
        Bond b;
        b.this_peer = fdp.ConsumeIntegralInRange< int >( 0, 1 );
        b.ediv      = fdp.ConsumeBool() ? 0 : fdp.ConsumeIntegral< std::uint16_t >();
        b.rand      = fdp.ConsumeBool() ? 0 : fdp.ConsumeIntegralInRange< std::uint64_t >( 1, 0xffffffffffffull );
        c.bonds.push_back( b );
    }
    // half of the steps are the conforming central's next step, so that deep protocol states are reached
    while ( fdp.remaining_bytes() != 0 && c.steps.size() < 60 )
    {
        Step      s;
        const int k = fdp.ConsumeIntegralInRange< int >( 0, 19 );
        s.kind      = k < 10 ? static_cast< int >( NEXT ) : k - 10;
        if ( s.kind == RAW )
            s.raw = fdp.ConsumeBytes< std::uint8_t >( fdp.ConsumeIntegralInRange< std::size_t >( 0, 20 ) );
        else
        {
            s.a = fdp.ConsumeIntegralInRange< int >( 0, 0x3fff );
            s.b = fdp.ConsumeIntegralInRange< int >( 0, 0x3fff );
        }
        c.steps.push_back( s );
    }
    if ( std::getenv( "VERIF_FUZZ_DECODE" ) )
        std::cout << to_text( c );
    verif::Report rep;
    try
    {
        run( c, rep );
    }
    catch ( const verif::failure& f )
    {
        std::cerr << "VERIF-FUZZ-VIOLATION oracle=" << f.oracle << " " << f.msg << "\n" << to_text( c );
        __builtin_trap();
    }
    return 0;
}
