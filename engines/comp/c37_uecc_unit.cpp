// micro-ecc of the repo (bluetoe/bindings/nordic/uECC/uECC.c), the library security_tool_box.cpp calls for P-256.
// It is a C file that uses `private` and `public` as identifiers; the check driver compiles every source of a target
// with one C++ compiler invocation, so it is pulled in here with the two names renamed. The curve is selected the
// way bluetoe/bindings/nordic/uECC/CMakeLists.txt does (uECC_CURVE=uECC_secp256r1).
#define uECC_CURVE uECC_secp256r1
#define private uecc_private_
#define public uecc_public_
#include "uECC.c"
