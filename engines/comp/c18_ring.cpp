// C18: bluetoe::link_layer::pdu_ring_buffer against a FIFO-of-byte-strings model (DESIGN.md section 4, C18)
//
// Generated: a ring configuration (Size x PDU layout; both the default layout and the real nRF encrypted
// layout from bluetoe/nrf.hpp, which is includable on the host through engines/comp/nrf_stub/nrf.h) and a sequence
// of alloc_front / push_front / next_end / pop_end / more_than_one / reset calls. Allocation sizes are either
// absolute or placed *relative to the model's free space* (exactly fitting the tail, the gap in front of the
// oldest PDU, one more, one less) so that the boundaries of the allocation rule are hit by construction.
//
// Oracle (reference model: deque of (offset, memory image)):
//  * next_end() is the oldest pushed PDU: same address, same size, same bytes; empty iff the model is empty
//  * more_than_one() == (model holds >= 2 PDUs)
//  * an allocated block has the requested size, lies inside the storage and overlaps no live PDU; the harness
//    scribbles over the *whole* block before it writes the PDU, afterwards every live PDU must still be intact
//  * the storage is an exact-size heap block: any access outside of it is an ASan report
//  * allocation failure is checked in ONE direction only (DESIGN.md C18 / section 9): with f = offset behind the
//    newest PDU and e = offset of the oldest PDU (e = f for an empty ring), a request of n bytes must succeed if
//    (f >= e) n <= Size - f or n < e, resp. (e > f) n < e - f. A success the rule does not promise is no alarm.
#include "verif.hpp"

#include <bluetoe/nrf.hpp>
#include <bluetoe/ring_buffer.hpp>

#include <deque>
#include <memory>

namespace {

    namespace ll = bluetoe::link_layer;
    using default_layout   = ll::default_pdu_layout;
    using encrypted_layout = bluetoe::nrf_details::encrypted_pdu_layout;

    struct ring_if
    {
        virtual ~ring_if() {}
        virtual std::uint8_t*   storage()                                        = 0;
        virtual ll::read_buffer alloc( std::size_t n )                           = 0;
        virtual void            push( ll::read_buffer b )                        = 0;
        virtual ll::read_buffer next_end()                                       = 0;
        virtual void            pop()                                            = 0;
        virtual bool            more_than_one()                                  = 0;
        virtual void            reset()                                          = 0;
        virtual void            write_pdu( std::uint8_t* at, std::size_t mem, std::uint8_t llid, std::size_t len, std::uint8_t seed ) = 0;
    };

    template < std::size_t Size, class Layout >
    struct ring_impl : ring_if
    {
        // exact size heap block: ASan red zones on both sides take the place of canaries
        std::unique_ptr< std::uint8_t[] >                   store;
        ll::pdu_ring_buffer< Size, ll::read_buffer, Layout > ring;

        ring_impl() : store( new std::uint8_t[ Size ] ), ring( ( std::memset( store.get(), 0x5a, Size ), store.get() ) ) {}

        std::uint8_t*   storage() override { return store.get(); }
        ll::read_buffer alloc( std::size_t n ) override { return ring.alloc_front( store.get(), n ); }
        void            push( ll::read_buffer b ) override { ring.push_front( store.get(), b ); }
        ll::read_buffer next_end() override { return ring.next_end(); }
        void            pop() override { ring.pop_end( store.get() ); }
        bool            more_than_one() override { return ring.more_than_one(); }
        void            reset() override { ring.reset( store.get() ); }

        void write_pdu( std::uint8_t* at, std::size_t mem, std::uint8_t llid, std::size_t len, std::uint8_t seed ) override
        {
            const ll::read_buffer b{ at, mem };
            Layout::header( at, static_cast< std::uint16_t >( llid | ( len << 8 ) ) );
            auto body = Layout::body( b );
            for ( std::size_t i = 0; i != len; ++i )
                body.first[ i ] = static_cast< std::uint8_t >( seed * 31 + i * 7 + 1 );
        }
    };

    struct config
    {
        std::size_t                                  size;
        std::size_t                                  overhead;  // memory size of a PDU without payload
        const char*                                  layout;
        std::function< std::unique_ptr< ring_if >() > make;
    };

    template < std::size_t Size, class Layout >
    config cfg( const char* name )
    {
        return config{ Size, Layout::data_channel_pdu_memory_size( 0 ), name, [] { return std::unique_ptr< ring_if >( new ring_impl< Size, Layout >() ); } };
    }

    const std::vector< config >& configs()
    {
        static const std::vector< config > c = {
            // minimal rings (one or two tiny PDUs), the link layer minimum 29 and its neighbours, typical and large ones
            cfg< 3, default_layout >( "default" ), cfg< 4, default_layout >( "default" ), cfg< 5, default_layout >( "default" ),
            cfg< 7, default_layout >( "default" ), cfg< 8, default_layout >( "default" ), cfg< 16, default_layout >( "default" ),
            cfg< 29, default_layout >( "default" ), cfg< 30, default_layout >( "default" ), cfg< 31, default_layout >( "default" ),
            cfg< 32, default_layout >( "default" ), cfg< 33, default_layout >( "default" ), cfg< 61, default_layout >( "default" ),
            cfg< 64, default_layout >( "default" ), cfg< 100, default_layout >( "default" ), cfg< 251, default_layout >( "default" ),
            cfg< 300, default_layout >( "default" ), cfg< 600, default_layout >( "default" ),
            cfg< 4, encrypted_layout >( "nrf-encrypted" ), cfg< 5, encrypted_layout >( "nrf-encrypted" ), cfg< 6, encrypted_layout >( "nrf-encrypted" ),
            cfg< 8, encrypted_layout >( "nrf-encrypted" ), cfg< 16, encrypted_layout >( "nrf-encrypted" ),
            cfg< 30, encrypted_layout >( "nrf-encrypted" ), cfg< 31, encrypted_layout >( "nrf-encrypted" ), cfg< 32, encrypted_layout >( "nrf-encrypted" ),
            cfg< 33, encrypted_layout >( "nrf-encrypted" ), cfg< 34, encrypted_layout >( "nrf-encrypted" ), cfg< 62, encrypted_layout >( "nrf-encrypted" ),
            cfg< 64, encrypted_layout >( "nrf-encrypted" ), cfg< 100, encrypted_layout >( "nrf-encrypted" ), cfg< 252, encrypted_layout >( "nrf-encrypted" ),
            cfg< 300, encrypted_layout >( "nrf-encrypted" ), cfg< 600, encrypted_layout >( "nrf-encrypted" ),
        };
        return c;
    }

    enum op_kind { ALLOC, PUSH, PEEK, POP, MTO, RESET, PUT };
    enum alloc_mode { A_ABS, A_SMALL, A_END, A_GAP };
    enum push_mode { P_FULL, P_ONE, P_RND };

    struct Op
    {
        int kind;
        int mode;   // alloc mode (ALLOC, PUT) or push mode (PUSH)
        int x;
        int pmode;  // push mode of PUT
        int y;
    };

    struct Case
    {
        int               cfg;
        std::vector< Op > ops;
    };

    rc::Gen< Op > gen_op()
    {
        using rc::gen::just;
        const auto amode = rc::gen::weightedElement< int >( { { 4, A_ABS }, { 6, A_SMALL }, { 3, A_END }, { 3, A_GAP } } );
        const auto pmode = rc::gen::weightedElement< int >( { { 3, P_FULL }, { 1, P_ONE }, { 3, P_RND } } );
        return rc::gen::weightedOneOf< Op >( {
            // allocate and push in one go (the common use)
            { 12, rc::gen::build< Op >( rc::gen::set( &Op::kind, just< int >( PUT ) ), rc::gen::set( &Op::mode, amode ),
                      rc::gen::set( &Op::x, verif::range< int >( 0, 700 ) ), rc::gen::set( &Op::pmode, pmode ),
                      rc::gen::set( &Op::y, verif::range< int >( 0, 700 ) ) ) },
            // the two halves on their own: pops, peeks and further allocations happen in between
            { 3, rc::gen::build< Op >( rc::gen::set( &Op::kind, just< int >( ALLOC ) ), rc::gen::set( &Op::mode, amode ),
                     rc::gen::set( &Op::x, verif::range< int >( 0, 700 ) ) ) },
            { 3, rc::gen::build< Op >( rc::gen::set( &Op::kind, just< int >( PUSH ) ), rc::gen::set( &Op::mode, pmode ),
                     rc::gen::set( &Op::x, verif::range< int >( 0, 700 ) ) ) },
            { 1, rc::gen::build< Op >( rc::gen::set( &Op::kind, just< int >( PEEK ) ) ) },
            { 9, rc::gen::build< Op >( rc::gen::set( &Op::kind, just< int >( POP ) ) ) },
            { 1, rc::gen::build< Op >( rc::gen::set( &Op::kind, just< int >( MTO ) ) ) },
            { 1, rc::gen::build< Op >( rc::gen::set( &Op::kind, rc::gen::weightedElement< int >( { { 1, RESET }, { 4, PEEK } } ) ) ) },
        } );
    }

    rc::Gen< Case > gen_case()
    {
        return rc::gen::build< Case >(
            rc::gen::set( &Case::cfg, verif::range< int >( 0, static_cast< int >( configs().size() ) - 1 ) ),
            rc::gen::set( &Case::ops, rc::gen::container< std::vector< Op > >( gen_op() ) ) );
    }

    const char* const alloc_names[] = { "abs", "small", "end", "gap" };
    const char* const push_names[]  = { "full", "one", "rnd" };

    std::string to_text( const Case& c )
    {
        std::ostringstream os;
        const auto&        cf = configs()[ c.cfg ];
        os << "cfg " << c.cfg << "  # size " << cf.size << " layout " << cf.layout << "\n";
        for ( auto& o : c.ops )
        {
            switch ( o.kind )
            {
            case ALLOC: os << "alloc " << alloc_names[ o.mode ] << " " << o.x << "\n"; break;
            case PUSH: os << "push " << push_names[ o.mode ] << " " << o.x << "\n"; break;
            case PUT: os << "put " << alloc_names[ o.mode ] << " " << o.x << " " << push_names[ o.pmode ] << " " << o.y << "\n"; break;
            case PEEK: os << "peek\n"; break;
            case POP: os << "pop\n"; break;
            case MTO: os << "mto\n"; break;
            case RESET: os << "reset\n"; break;
            }
        }
        return os.str();
    }

    int index_of( const char* const* names, int n, const std::string& s )
    {
        for ( int i = 0; i != n; ++i )
            if ( s == names[ i ] )
                return i;
        return 0;
    }

    Case from_text( const std::string& t )
    {
        Case         c{ 0, {} };
        verif::Lines L( t );
        for ( auto& l : L.lines )
        {
            if ( l[ 0 ] == "cfg" )
                c.cfg = static_cast< int >( verif::tok_int( l, 1 ) ) % static_cast< int >( configs().size() );
            else if ( l[ 0 ] == "alloc" )
                c.ops.push_back( { ALLOC, index_of( alloc_names, 4, verif::tok_str( l, 1 ) ), static_cast< int >( verif::tok_int( l, 2 ) ), 0, 0 } );
            else if ( l[ 0 ] == "put" )
                c.ops.push_back( { PUT, index_of( alloc_names, 4, verif::tok_str( l, 1 ) ), static_cast< int >( verif::tok_int( l, 2 ) ),
                    index_of( push_names, 3, verif::tok_str( l, 3 ) ), static_cast< int >( verif::tok_int( l, 4 ) ) } );
            else if ( l[ 0 ] == "push" )
                c.ops.push_back( { PUSH, index_of( push_names, 3, verif::tok_str( l, 1 ) ), static_cast< int >( verif::tok_int( l, 2 ) ), 0, 0 } );
            else if ( l[ 0 ] == "peek" ) c.ops.push_back( { PEEK, 0, 0, 0, 0 } );
            else if ( l[ 0 ] == "pop" ) c.ops.push_back( { POP, 0, 0, 0, 0 } );
            else if ( l[ 0 ] == "mto" ) c.ops.push_back( { MTO, 0, 0, 0, 0 } );
            else if ( l[ 0 ] == "reset" ) c.ops.push_back( { RESET, 0, 0, 0, 0 } );
        }
        return c;
    }

    // reference model -------------------------------------------------------------------------
    struct live_pdu
    {
        std::size_t                 off;
        std::vector< std::uint8_t > image;  // complete in-memory image (header, layout gap, body)
    };

    void run( const Case& c, verif::Report& rep )
    {
        const config&  cf   = configs()[ c.cfg ];
        auto           r    = cf.make();
        std::uint8_t*  base = r->storage();
        const std::size_t S = cf.size, ovh = cf.overhead;
        // the length field of a PDU is 8 bit wide. F-18b: push_front() computes the in-memory length in 8 bits, PDUs with a
        // memory size above 255 are lost; while that is an open finding the generator stays below
        const bool        exclude_f18b = verif::opt_has( "exclude", "F-18b" );
        const std::size_t max_alloc    = exclude_f18b ? 255 : ovh + 255;
        bool              clipped      = false;  // a request was reduced because of the exclusion

        std::deque< live_pdu > q;
        std::size_t            f = 0;  // offset behind the newest PDU (== offset of the oldest if the ring is empty)
        ll::read_buffer        cur{ nullptr, 0 };
        unsigned               serial = 0;

        unsigned wraps = 0, max_live_at_wrap = 0, refused_ok = 0, pushes = 0, pops = 0, max_live = 0, alloc_mid_empty = 0, boundary_allocs = 0,
                 unpromised_success = 0, pop_between = 0;

        auto check_live = [&]( std::size_t step, const char* after ) {
            for ( auto& p : q )
                V_CHECK( std::memcmp( base + p.off, p.image.data(), p.image.size() ) == 0, "ring.pdu-modified", "step ", step, ": live PDU at offset ", p.off,
                    " (", p.image.size(), " bytes) changed after ", after, "; now ", verif::hex( base + p.off, p.image.size() ), " expected ",
                    verif::hex( p.image ) );
        };

        auto check_next_end = [&]( std::size_t step ) {
            const auto n = r->next_end();
            if ( q.empty() )
            {
                V_CHECK( n.size == 0, "ring.fifo", "step ", step, ": next_end() returns ", n.size, " bytes from an empty ring" );
                return;
            }
            V_CHECK( n.size != 0, "ring.fifo", "step ", step, ": next_end() is empty but ", q.size(), " PDU(s) were pushed and not popped (oldest at offset ",
                q.front().off, ")" );
            V_CHECK( n.buffer == base + q.front().off, "ring.fifo", "step ", step, ": next_end() points to offset ", n.buffer - base, ", the oldest PDU is at ",
                q.front().off );
            V_CHECK( n.size == q.front().image.size(), "ring.fifo", "step ", step, ": next_end() size ", n.size, " != ", q.front().image.size() );
            V_CHECK( std::memcmp( n.buffer, q.front().image.data(), n.size ) == 0, "ring.fifo", "step ", step, ": next_end() bytes differ from what was pushed" );
        };

        auto do_alloc = [&]( std::size_t step, int mode, int x ) {
            const std::size_t e = q.empty() ? f : q.front().off;
            long              n = 0;
            switch ( mode )
            {
            case A_ABS: n = static_cast< long >( ovh + x % ( std::min( S, max_alloc ) - ovh + 2 ) ); break;
            case A_SMALL: n = static_cast< long >( ovh + 1 + x % 6 ); break;
            case A_END: n = static_cast< long >( S - f ) + ( x % 5 ) - 2; break;
            case A_GAP: n = ( e > f ? static_cast< long >( e - f ) : static_cast< long >( e ) ) + ( x % 5 ) - 2; break;
            }
            n = std::max< long >( n, static_cast< long >( ovh ) );
            if ( exclude_f18b && n > static_cast< long >( max_alloc ) && n <= static_cast< long >( ovh + 255 ) )
                clipped = true;
            n = std::min< long >( n, static_cast< long >( max_alloc ) );
            const std::size_t sz = static_cast< std::size_t >( n );

            const bool promised = f >= e ? ( sz <= S - f || sz < e ) : ( sz < e - f );
            if ( mode == A_END || mode == A_GAP )
                ++boundary_allocs;
            if ( q.empty() && f != 0 )
                ++alloc_mid_empty;

            const auto b  = r->alloc( sz );
            const auto b2 = r->alloc( sz );  // documented to be idempotent
            V_CHECK( b.buffer == b2.buffer && b.size == b2.size, "ring.alloc-idempotent", "step ", step, ": two alloc_front(", sz, ") calls in a row differ" );

            if ( b.size == 0 )
            {
                V_CHECK( !promised, "ring.alloc-refused", "step ", step, ": alloc_front(", sz, ") failed with Size=", S, " front offset=", f, " oldest offset=", e,
                    q.empty() ? " (ring empty)" : "", " although contiguous space is free under the ring's rules" );
                ++refused_ok;
                cur = ll::read_buffer{ nullptr, 0 };
                return;
            }
            if ( !promised )
                ++unpromised_success;
            V_CHECK( b.size == sz, "ring.alloc-size", "step ", step, ": alloc_front(", sz, ") returned ", b.size, " bytes" );
            V_CHECK( b.buffer >= base && b.buffer + b.size <= base + S, "ring.alloc-outside", "step ", step, ": alloc_front(", sz, ") returned [", b.buffer - base,
                ",", b.buffer - base + static_cast< long >( b.size ), ") outside of the storage of ", S, " bytes" );
            const std::size_t off = static_cast< std::size_t >( b.buffer - base );
            for ( auto& p : q )
                V_CHECK( off + sz <= p.off || p.off + p.image.size() <= off, "ring.alloc-overlap", "step ", step, ": alloc_front(", sz, ") returned [", off, ",",
                    off + sz, ") which overlaps the live PDU [", p.off, ",", p.off + p.image.size(), ")" );
            // the caller may use all of it
            std::memset( b.buffer, 0xa0 | ( serial & 0xf ), b.size );
            check_live( step, "writing into the allocated block" );
            cur = b;
        };

        auto do_push = [&]( std::size_t step, int mode, int x ) {
            if ( cur.size < ovh + 1 )
                return;
            const std::size_t max_len = std::min< std::size_t >( cur.size - ovh, 255 );
            const std::size_t len     = mode == P_FULL ? max_len : mode == P_ONE ? 1 : 1 + x % max_len;
            const std::size_t mem     = ovh + len;
            ++serial;
            r->write_pdu( cur.buffer, mem, static_cast< std::uint8_t >( 1 + x % 3 ), len, static_cast< std::uint8_t >( serial ) );
            live_pdu   p{ static_cast< std::size_t >( cur.buffer - base ), std::vector< std::uint8_t >( cur.buffer, cur.buffer + mem ) };
            const bool wrapped = !q.empty() && p.off < q.back().off;
            r->push( cur );
            if ( wrapped )
                ++wraps;
            q.push_back( p );
            f   = p.off + mem;
            cur = ll::read_buffer{ nullptr, 0 };
            ++pushes;
            max_live = std::max< unsigned >( max_live, static_cast< unsigned >( q.size() ) );
            if ( wrapped )
                max_live_at_wrap = std::max< unsigned >( max_live_at_wrap, static_cast< unsigned >( q.size() ) );
            check_live( step, "push_front" );
            check_next_end( step );
        };

        for ( std::size_t step = 0; step != c.ops.size(); ++step )
        {
            const Op& o = c.ops[ step ];

            switch ( o.kind )
            {
            case ALLOC:
                do_alloc( step, o.mode, o.x );
                break;
            case PUSH:
                do_push( step, o.mode, o.x );
                break;
            case PUT:
                do_alloc( step, o.mode, o.x );
                do_push( step, o.pmode, o.y );
                break;
            case PEEK:
                check_next_end( step );
                break;
            case POP:
                check_next_end( step );
                if ( q.empty() )
                    break;  // precondition of pop_end: not empty
                if ( cur.size )
                    ++pop_between;
                r->pop();
                q.pop_front();
                ++pops;
                check_live( step, "pop_end" );
                check_next_end( step );
                break;
            case MTO: {
                const bool m = r->more_than_one();
                V_CHECK( m == ( q.size() >= 2 ), "ring.more-than-one", "step ", step, ": more_than_one() == ", m, " with ", q.size(), " PDU(s) stored" );
            }
            break;
            case RESET:
                r->reset();
                q.clear();
                f   = 0;
                cur = ll::read_buffer{ nullptr, 0 };
                check_next_end( step );
                break;
            }
            {
                const bool m = r->more_than_one();
                V_CHECK( m == ( q.size() >= 2 ), "ring.more-than-one", "step ", step, ": more_than_one() == ", m, " with ", q.size(), " PDU(s) stored" );
            }
        }

        // drain: everything that was pushed comes out in order
        while ( !q.empty() )
        {
            check_next_end( c.ops.size() );
            r->pop();
            q.pop_front();
            check_live( c.ops.size(), "pop_end (drain)" );
        }
        check_next_end( c.ops.size() );

        rep.excluded   = clipped;
        rep.nontrivial = wraps != 0;  // a push below the previous PDU while older PDUs are stored: >= 2 live PDUs across the wrap
        rep.label( verif::cat( "layout=", cf.layout ) );
        rep.label( S <= 16 ? "size<=16" : S <= 34 ? "size=29..34" : S <= 100 ? "size=61..100" : "size>=251" );
        rep.label_if( wraps != 0, "wrapped-with>=2-live" );
        rep.label_if( wraps >= 3, "wrapped>=3-times" );
        rep.label_if( wraps >= 10, "wrapped>=10-times" );
        rep.label_if( max_live_at_wrap >= 4, "wrapped-with>=4-live" );
        rep.label_if( refused_ok != 0, "alloc-refused-legitimately" );
        rep.label_if( unpromised_success != 0, "alloc-success-not-promised-by-rule" );
        rep.label_if( alloc_mid_empty != 0, "alloc-on-empty-ring-with-pointers-mid-buffer" );
        rep.label_if( boundary_allocs != 0, "alloc-at-rule-boundary" );
        rep.label_if( pop_between != 0, "pop-between-alloc-and-push" );
        rep.label_if( max_live >= 3, "live>=3" );
        rep.label_if( max_live >= 8, "live>=8" );
        rep.label_if( pushes >= 20, "pushes>=20" );
    }
}

// a small quarantine keeps the working set (and the page-fault time) of the many short-lived allocations low; ASAN_OPTIONS from
// the driver are applied on top of this.
// exitcode: the driver only recognises a dead worker as a crash if its exit status is neither 0 nor 1 (ASan's default is 1)
extern "C" const char* __asan_default_options() { return "exitcode=66:quarantine_size_mb=8"; }

int main( int argc, char** argv )
{
    verif::Harness< Case > h;
    h.gen       = gen_case;
    h.to_text   = to_text;
    h.from_text = from_text;
    h.run       = run;
    return verif::run_main( argc, argv, h );
}
