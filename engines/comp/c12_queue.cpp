// C12: bluetoe::notification_queue against a set model (DESIGN.md section 4, C12)
//
// Generated: a priority partition (one of the instantiated compositions) and a sequence of
// queue_notification / queue_indication / dequeue / confirm / clear operations.
// Oracle: set of pending (index, kind) + outstanding flag; priority order between levels;
// round-robin fairness between the characteristics of one level.
#include "verif.hpp"

#include <bluetoe/notification_queue.hpp>

#include <memory>
#include <set>

namespace {

    using entry = bluetoe::details::notification_queue_entry_type;

    struct empty_mixin
    {
    };

    struct queue_if
    {
        virtual ~queue_if() {}
        virtual bool                            queue_notification( std::size_t ) = 0;
        virtual bool                            queue_indication( std::size_t )   = 0;
        virtual std::pair< entry, std::size_t > dequeue()                         = 0;
        virtual void                            confirmed()                       = 0;
        virtual void                            clear()                           = 0;
    };

    template < int... Sizes >
    struct queue_impl : queue_if
    {
        bluetoe::notification_queue< std::tuple< std::integral_constant< int, Sizes >... >, empty_mixin > q;

        bool                            queue_notification( std::size_t i ) override { return q.queue_notification( i ); }
        bool                            queue_indication( std::size_t i ) override { return q.queue_indication( i ); }
        std::pair< entry, std::size_t > dequeue() override { return q.dequeue_indication_or_confirmation(); }
        void                            confirmed() override { q.indication_confirmed(); }
        void                            clear() override { q.clear_indications_and_confirmations(); }
    };

    struct config
    {
        std::vector< int >                            sizes;
        std::function< std::unique_ptr< queue_if >() > make;
    };

    template < int... Sizes >
    config cfg()
    {
        return config{ { Sizes... }, [] { return std::unique_ptr< queue_if >( new queue_impl< Sizes... >() ); } };
    }

    const std::vector< config >& configs()
    {
        static const std::vector< config > c = {
            cfg< 1 >(), cfg< 2 >(), cfg< 3 >(), cfg< 4 >(), cfg< 5 >(), cfg< 8 >(), cfg< 9 >(),
            cfg< 1, 1 >(), cfg< 1, 2 >(), cfg< 2, 1 >(), cfg< 3, 3 >(), cfg< 1, 7 >(), cfg< 4, 4 >(), cfg< 5, 1 >(),
            cfg< 1, 1, 1 >(), cfg< 2, 1, 3 >(), cfg< 1, 4, 1 >(), cfg< 3, 2, 1 >(), cfg< 4, 1, 3 >(),
            cfg< 1, 1, 1, 1 >(), cfg< 2, 2, 2, 2 >(), cfg< 1, 3, 1, 3 >(), cfg< 5, 1, 1, 1 >(), cfg< 1, 2, 1, 4 >(),
        };
        return c;
    }

    enum op_kind { Q_NOT, Q_IND, DEQ, CONF, CLEAR };

    struct Op
    {
        int kind;
        int idx;  // taken modulo the number of characteristics
    };

    struct Case
    {
        int               cfg;
        std::vector< Op > ops;
    };

    rc::Gen< Op > gen_op()
    {
        return rc::gen::build< Op >(
            rc::gen::set( &Op::kind, rc::gen::weightedElement< int >( { { 4, Q_NOT }, { 4, Q_IND }, { 6, DEQ }, { 3, CONF }, { 1, CLEAR } } ) ),
            rc::gen::set( &Op::idx, verif::range< int >( 0, 8 ) ) );
    }

    rc::Gen< Case > gen_case()
    {
        return rc::gen::build< Case >(
            rc::gen::set( &Case::cfg, verif::range< int >( 0, static_cast< int >( configs().size() ) - 1 ) ),
            rc::gen::set( &Case::ops, rc::gen::container< std::vector< Op > >( gen_op() ) ) );
    }

    std::string to_text( const Case& c )
    {
        std::ostringstream os;
        os << "cfg " << c.cfg << "  # sizes";
        for ( int s : configs()[ c.cfg ].sizes )
            os << " " << s;
        os << "\n";
        static const char* names[] = { "qn", "qi", "deq", "conf", "clear" };
        for ( auto& o : c.ops )
            os << names[ o.kind ] << " " << o.idx << "\n";
        return os.str();
    }

    Case from_text( const std::string& t )
    {
        Case         c{ 0, {} };
        verif::Lines L( t );
        for ( auto& l : L.lines )
        {
            if ( l[ 0 ] == "cfg" ) c.cfg = static_cast< int >( verif::tok_int( l, 1 ) );
            else if ( l[ 0 ] == "qn" ) c.ops.push_back( { Q_NOT, static_cast< int >( verif::tok_int( l, 1 ) ) } );
            else if ( l[ 0 ] == "qi" ) c.ops.push_back( { Q_IND, static_cast< int >( verif::tok_int( l, 1 ) ) } );
            else if ( l[ 0 ] == "deq" ) c.ops.push_back( { DEQ, 0 } );
            else if ( l[ 0 ] == "conf" ) c.ops.push_back( { CONF, 0 } );
            else if ( l[ 0 ] == "clear" ) c.ops.push_back( { CLEAR, 0 } );
        }
        return c;
    }

    // reference model -------------------------------------------------------------------------
    struct model
    {
        std::vector< int > sizes;
        std::vector< int > level_of;     // per index
        int                total = 0;
        // pending[ idx ][ kind ]  kind 0 = notification, 1 = indication
        std::vector< std::array< bool, 2 > > pending;
        std::vector< std::vector< int > >    served_since;  // other indices served while this index waited
        bool                                 outstanding = false;

        explicit model( const std::vector< int >& s ) : sizes( s )
        {
            for ( std::size_t l = 0; l != s.size(); ++l )
                for ( int i = 0; i != s[ l ]; ++i )
                    level_of.push_back( static_cast< int >( l ) );
            total = static_cast< int >( level_of.size() );
            pending.assign( total, { { false, false } } );
            served_since.assign( total, {} );
        }

        bool eligible( int idx, int kind ) const { return pending[ idx ][ kind ] && ( kind == 0 || !outstanding ); }
    };

    void run( const Case& c, verif::Report& rep )
    {
        const config& cf = configs()[ c.cfg ];
        auto          q  = cf.make();
        model         m( cf.sizes );

        bool multi_level_dequeue = false, single_both = false;

        for ( std::size_t step = 0; step != c.ops.size(); ++step )
        {
            const Op& o   = c.ops[ step ];
            const int idx = o.idx % m.total;
            switch ( o.kind )
            {
            case Q_NOT:
            case Q_IND: {
                const int  kind     = o.kind == Q_NOT ? 0 : 1;
                const bool expected = !m.pending[ idx ][ kind ];
                const bool got      = kind == 0 ? q->queue_notification( idx ) : q->queue_indication( idx );
                V_CHECK( got == expected, "queue.return-value", "step ", step, ": queue_", kind ? "indication" : "notification", "(", idx,
                    ") returned ", got, " but the request was ", expected ? "not pending" : "already pending",
                    " (level size ", m.sizes[ m.level_of[ idx ] ], ")" );
                if ( !m.pending[ idx ][ kind ] )
                {
                    m.pending[ idx ][ kind ] = true;
                }
                if ( m.sizes[ m.level_of[ idx ] ] == 1 && m.pending[ idx ][ 0 ] && m.pending[ idx ][ 1 ] )
                    single_both = true;
            }
            break;
            case DEQ: {
                // levels with eligible entries
                int best_level = -1, levels_nonempty = 0;
                for ( int l = 0; l != static_cast< int >( m.sizes.size() ); ++l )
                {
                    bool any = false;
                    for ( int i = 0; i != m.total; ++i )
                        if ( m.level_of[ i ] == l && ( m.eligible( i, 0 ) || m.eligible( i, 1 ) ) )
                            any = true;
                    if ( any )
                    {
                        ++levels_nonempty;
                        if ( best_level < 0 )
                            best_level = l;
                    }
                }
                if ( levels_nonempty >= 2 )
                    multi_level_dequeue = true;

                const auto r = q->dequeue();
                if ( r.first == entry::empty )
                {
                    V_CHECK( best_level < 0, "queue.lost-request", "step ", step, ": dequeue returned empty although an eligible request is pending in level ",
                        best_level );
                    break;
                }
                const int kind = r.first == entry::notification ? 0 : 1;
                const int got  = static_cast< int >( r.second );
                V_CHECK( got >= 0 && got < m.total, "queue.invented-request", "step ", step, ": dequeued index ", got, " out of range" );
                V_CHECK( m.pending[ got ][ kind ], "queue.invented-request", "step ", step, ": dequeued (", got, ",", kind ? "ind" : "not",
                    ") which was not pending (duplicate or invented)" );
                V_CHECK( kind == 0 || !m.outstanding, "queue.second-indication", "step ", step, ": indication dequeued while a confirmation is outstanding" );
                V_CHECK( m.level_of[ got ] == best_level, "queue.priority", "step ", step, ": dequeued index ", got, " of level ", m.level_of[ got ],
                    " although level ", best_level, " holds an eligible request" );
                // fairness inside the level (per characteristic): no index is served twice while another index of
                // the same level had an eligible pending request at every dequeue in between and was not served
                for ( int i = 0; i != m.total; ++i )
                {
                    if ( i == got || m.level_of[ i ] != best_level )
                        continue;
                    if ( !m.eligible( i, 0 ) && !m.eligible( i, 1 ) )
                    {
                        m.served_since[ i ].clear();
                        continue;
                    }
                    auto& s = m.served_since[ i ];
                    V_CHECK( std::find( s.begin(), s.end(), got ) == s.end(), "queue.fairness", "step ", step, ": index ", got,
                        " served twice while index ", i, " of the same level had an eligible pending request all the time and was not served" );
                    s.push_back( got );
                }
                m.served_since[ got ].clear();
                m.pending[ got ][ kind ] = false;
                if ( kind == 1 )
                    m.outstanding = true;
            }
            break;
            case CONF:
                q->confirmed();
                m.outstanding = false;
                break;
            case CLEAR:
                q->clear();
                for ( auto& p : m.pending )
                    p = { { false, false } };
                for ( auto& s : m.served_since )
                    s.clear();
                m.outstanding = false;
                break;
            }
        }

        // drain: every pending request is dequeued exactly once
        int budget = 4 * m.total + 4;
        while ( budget-- )
        {
            bool any = false;
            for ( int i = 0; i != m.total; ++i )
                any = any || m.pending[ i ][ 0 ] || m.pending[ i ][ 1 ];
            if ( !any )
                break;
            const auto r = q->dequeue();
            if ( r.first == entry::empty )
            {
                V_CHECK( m.outstanding, "queue.lost-request", "drain: empty although requests are pending and no confirmation is outstanding" );
                q->confirmed();
                m.outstanding = false;
                continue;
            }
            const int kind = r.first == entry::notification ? 0 : 1;
            const int got  = static_cast< int >( r.second );
            V_CHECK( got < m.total && m.pending[ got ][ kind ], "queue.invented-request", "drain: dequeued (", got, ",", kind, ") which was not pending" );
            m.pending[ got ][ kind ] = false;
            if ( kind == 1 )
            {
                V_CHECK( !m.outstanding, "queue.second-indication", "drain: indication while outstanding" );
                m.outstanding = true;
            }
        }
        for ( int i = 0; i != m.total; ++i )
            V_CHECK( !m.pending[ i ][ 0 ] && !m.pending[ i ][ 1 ], "queue.lost-request", "drain: request for index ", i, " never dequeued" );
        q->confirmed();
        V_CHECK( q->dequeue().first == entry::empty, "queue.invented-request", "drain: queue not empty after every pending request was dequeued" );

        rep.nontrivial = multi_level_dequeue || single_both;
        rep.label_if( multi_level_dequeue, "dequeue-with-2-levels-nonempty" );
        rep.label_if( single_both, "size1-level-holds-both-kinds" );
        rep.label( verif::cat( "levels=", m.sizes.size() ) );
    }
}

int main( int argc, char** argv )
{
    verif::Harness< Case > h;
    h.gen       = gen_case;
    h.to_text   = to_text;
    h.from_text = from_text;
    h.run       = run;
    return verif::run_main( argc, argv, h );
}
