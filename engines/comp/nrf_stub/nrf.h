// Minimal host stand-in for Nordic's <nrf.h>, just enough for
// bluetoe/bindings/nordic/include/bluetoe/nrf.hpp to be included on the host so that harnesses can use the
// real bluetoe::nrf_details::encrypted_pdu_layout (C15-C19). No register is ever touched by those harnesses;
// nothing here emulates hardware behaviour.
#pragma once
#include <cstdint>

typedef volatile std::uint32_t verif_nrf_reg;
struct NRF_RADIO_Type { verif_nrf_reg dummy; };
struct NRF_TIMER_Type { verif_nrf_reg dummy; };
struct NRF_CLOCK_Type { verif_nrf_reg TASKS_HFCLKSTART, TASKS_HFCLKSTOP, TASKS_LFCLKSTART, EVENTS_HFCLKSTARTED, EVENTS_LFCLKSTARTED, LFCLKSRC; };
struct NRF_TEMP_Type { verif_nrf_reg dummy; };
struct NRF_RTC_Type { verif_nrf_reg TASKS_START, TASKS_STOP, EVTEN; };
struct NRF_CCM_Type { verif_nrf_reg dummy; };
struct NRF_AAR_Type { verif_nrf_reg dummy; };
struct NRF_PPI_Type { verif_nrf_reg dummy; };
struct NRF_RNG_Type { verif_nrf_reg TASKS_START, EVENTS_VALRDY, VALUE; };
struct NRF_ECB_Type { verif_nrf_reg TASKS_STARTECB, EVENTS_ENDECB, EVENTS_ERRORECB, ECBDATAPTR; };
struct NRF_GPIOTE_Type { verif_nrf_reg dummy; };
struct NVIC_Type { verif_nrf_reg dummy; };

namespace verif_nrf_stub {
    template < class T >
    inline T* instance( int n = 0 )
    {
        static T regs[ 2 ];
        return &regs[ n ];
    }
}

#define NRF_RADIO  ( verif_nrf_stub::instance< NRF_RADIO_Type >() )
#define NRF_TIMER0 ( verif_nrf_stub::instance< NRF_TIMER_Type >( 0 ) )
#define NRF_TIMER1 ( verif_nrf_stub::instance< NRF_TIMER_Type >( 1 ) )
#define NRF_CLOCK  ( verif_nrf_stub::instance< NRF_CLOCK_Type >() )
#define NRF_TEMP   ( verif_nrf_stub::instance< NRF_TEMP_Type >() )
#define NRF_RTC0   ( verif_nrf_stub::instance< NRF_RTC_Type >() )
#define NRF_CCM    ( verif_nrf_stub::instance< NRF_CCM_Type >() )
#define NRF_AAR    ( verif_nrf_stub::instance< NRF_AAR_Type >() )
#define NRF_PPI    ( verif_nrf_stub::instance< NRF_PPI_Type >() )
#define NRF_RNG    ( verif_nrf_stub::instance< NRF_RNG_Type >() )
#define NRF_ECB    ( verif_nrf_stub::instance< NRF_ECB_Type >() )
#define NRF_GPIOTE ( verif_nrf_stub::instance< NRF_GPIOTE_Type >() )
#define NVIC       ( verif_nrf_stub::instance< NVIC_Type >() )
#define __NVIC_PRIO_BITS 3
#define RTC_EVTEN_COMPARE0_Enabled 1
#define RTC_EVTEN_COMPARE0_Pos 16
#define RTC_EVTEN_COMPARE1_Enabled 1
#define RTC_EVTEN_COMPARE1_Pos 17
#define RTC_EVTEN_OVRFLW_Enabled 1
#define RTC_EVTEN_OVRFLW_Pos 1
#define CLOCK_LFCLKSRCCOPY_SRC_Pos 0
#define CLOCK_LFCLKSRCCOPY_SRC_RC 0
#define CLOCK_LFCLKSRCCOPY_SRC_Xtal 1
#define CLOCK_LFCLKSRCCOPY_SRC_Synth 2
