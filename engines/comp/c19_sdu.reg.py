_C19_NRF_INC = ['-I' + _os.path.join(_os.path.dirname(_os.path.abspath(__file__)), 'engines', 'comp', 'nrf_stub'),
                '-I$REPO/bluetoe/bindings/nordic/include']

_C19_IGNORE = _os.path.join(_os.path.dirname(_os.path.abspath(__file__)), 'engines', 'comp', 'c19_field_padding.ignorelist')

# field padding: intra-object overflows of ll_l2cap_sdu_buffer become ASan reports; the ignore list keeps the layout of
# std:: / rapidcheck types compatible with their prebuilt libraries
target('c19_sdu', 'engines/comp/c19_sdu.cpp', inc=_C19_NRF_INC,
       cxxflags=['-fsanitize-address-field-padding=1', '-fsanitize-ignorelist=' + _C19_IGNORE],
       quick=dict(cases=200000, size=120), thorough=dict(cases=2000000, size=200))
target('c19_sdu_fuzz', 'engines/comp/c19_sdu_fuzz.cpp', kind='fuzz',
       quick=dict(runs=40000, max_seconds=60, max_len=600), thorough=dict(runs=5000000, max_seconds=1200, max_len=600))
prop('C19', ['c19_sdu', 'c19_sdu_fuzz'], 'comp',
     rule='rapidcheck picks one of 18 instantiated ll_l2cap_sdu_buffer (MTU 23 specialisation, 24, 30, 65, 158, 247 x transmit/receive ring '
          'sizes x default / nRF encrypted layout, on top of the real ll_data_pdu_buffer), initial max_rx/max_tx sizes and a history of: '
          'outgoing SDUs of length 0..MTU and LL control PDUs, exchanges with an acknowledging central, next_ll_l2cap_received/free, max_tx '
          'changes, and incoming traffic generated as groups (correctly fragmented SDU, the same with an interleaved LL control PDU, orphan '
          'continuations, restart during reassembly, over-long continuation / start fragment, announced length > MTU, start fragment shorter '
          'than the L2CAP header, unfinished SDU); non-trivial: the incoming stream contains a malformed element or an SDU of >= 3 '
          'fragments was received or transmitted; distinct = distinct serialised cases',
     technique='model-based property testing (rapidcheck): independent reassembler / fragment checker; ASan with field padding for '
               'intra-object overflows',
     level_text='outgoing: every fragment the central accepts must continue the committed SDU (LLID 2 first, LLID 1 after, size within '
                'max_tx_size, byte exact, complete after a fault-free drain); incoming: everything handed out must be a stored LL control PDU '
                'or exactly one start fragment plus its continuations cut to the announced length, well-formed SDUs must be delivered; the '
                'object is heap allocated and its members are separated by poisoned padding, so reassembly writing outside of its buffer is '
                'an ASan report. Sampling, not proof.',
     level_note='trusted: reference reassembler and fragment checker in engines/comp/c19_sdu.cpp; ASan field padding; the central is fault '
                'free (loss/retransmission is C15); receive rings are at least twice max_rx_size so that the reception dead lock of '
                'DESIGN.md C18 cannot interfere; with MTU 23 the class is a documented pass-through and is checked as such',
     assumptions=COMMON_ASSUME)
