target('c26_whitelist', 'engines/comp/c26_whitelist.cpp', extra_src=['$REPO/bluetoe/utility/address.cpp'],
       quick=dict(cases=300000, size=120), thorough=dict(cases=1500000, size=200))
prop('C26', ['c26_whitelist'], 'comp',
     rule='rapidcheck picks one of 20 instantiated configurations (white_list<N>, N=1..8, over a radio without hardware list = software '
          'variant; N=5,8 over a radio whose list of 4 is too small = software variant that must not touch the radio; N=1..8 over a '
          'radio with exactly N entries and N=1,2 over a larger radio = radio-backed variant, with the harness radio either a reference '
          'set with a call log or a scripted radio returning prescribed answers) and a sequence (length grows with the rapidcheck size) '
          'of add/remove/clear/is_in/free_size/filter on|off/filter property/is_connection_request_in_filter/is_scan_request_in_filter/'
          'audit over 10 addresses (5 byte patterns differing in the first, the last or a middle byte x public/random); every case '
          'ends with a complete audit of all 10 addresses; non-trivial: an element that was not the last stored one was removed and '
          'the list queried afterwards, or the list was full (set variants); at least one scripted answer passed through (scripted radio); '
          'distinct = distinct serialised cases',
     technique='model-based property testing (rapidcheck) against a std::set reference of bounded capacity; call-log oracle for the radio-backed variant',
     level_text='every return value is compared with a bounded std::set model (add idempotent and refused only when full, remove deletes '
                'exactly the given address, free size, both filters accept iff filter off or member, filter properties read back); for the '
                'radio-backed variant each white list call must arrive at the harness radio as exactly one call of the corresponding '
                'radio_* function with the same argument and the radio\'s answer must come back unchanged (also for arbitrary scripted '
                'answers). Sampling of operation sequences, not proof.',
     level_note='trusted: the set model and the harness radio in engines/comp/c26_whitelist.cpp; with a radio that offers more entries than '
                'N the capacity observed is the radio\'s (the forwarding layer does not limit it to N) - asserted as such, see report; '
                'no real binding in the repo offers a hardware white list',
     assumptions=COMMON_ASSUME)
