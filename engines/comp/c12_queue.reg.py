target('c12_queue', 'engines/comp/c12_queue.cpp',
       quick=dict(cases=900000, size=120), thorough=dict(cases=10000000, size=200))
prop('C12', ['c12_queue'], 'comp',
     rule='rapidcheck generates a priority partition (24 instantiated compositions of 1..9 characteristics into 1..4 levels, '
          'single-entry levels in every position) and a sequence of queue_notification/queue_indication/dequeue/confirm/clear '
          'operations (length grows with the rapidcheck size); a case is non-trivial if it contains a dequeue while two or more '
          'levels hold eligible requests, or a single-entry level held both kinds at once; distinct = distinct serialised cases',
     technique='model-based property testing (rapidcheck) against a set-of-pending-requests reference model with priority and round-robin fairness oracles',
     level_text='generated operation sequences are compared step by step with an explicit set model: return values, exactly-once '
                'dequeue, strict priority between levels, no characteristic served twice while another of the same level stays '
                'pending; a final drain proves nothing is lost. Sampling, not proof.',
     level_note='trusted: the reference model in engines/comp/c12_queue.cpp, rapidcheck; fairness is asserted between '
                'characteristics of one level (not between the two kinds of one characteristic)',
     assumptions=COMMON_ASSUME)

