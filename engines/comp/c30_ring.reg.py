target('c30_ring', 'engines/comp/c30_ring.cpp',
       quick=dict(cases=400000, size=60), thorough=dict(cases=6000000, size=80))
