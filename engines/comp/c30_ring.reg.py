# C30: bluetoe::details::ring under a deterministic two-context scheduler (lib/sched.hpp), needs hook 2 (ring.hpp index type)
target('c30_ring', 'engines/comp/c30_ring.cpp',
       quick=dict(cases=960000, size=60),
       thorough=dict(cases=4000000, size=80))
# exhaustive enumeration of complete schedule trees; runs in the thorough tier only (quick: 0 cases).
# parts must equal the number of worker processes; `cases` is the number of trees of dfs_space() (2144), so every
# worker gets exactly its share. The evidence shows one class dfs-part-<k>-of-8-complete per finished share.
target('c30_ring_dfs', 'engines/comp/c30_ring.cpp',
       quick=dict(cases=0),
       thorough=dict(cases=2144, size=10, procs=8, opts={'mode': 'dfs', 'parts': 8}))
prop('C30', ['c30_ring', 'c30_ring_dfs'], 'comp',
     rule='a case = capacity S in 1..4, a start state (indices rotated by 0..S+1 push/pop pairs, 0..S elements in the ring), 1..4 try_push, '
          '1..4 try_pop and a schedule (choice at every load/store of an index and before every word of the two-word element copy) for free '
          'interleaving or interrupt nesting in either direction; non-trivial = a context switch happens between an element copy and the index '
          'store of the same operation; distinct = distinct serialised (programs, schedule). Target c30_ring_dfs (thorough only) does not sample: '
          'it enumerates depth first EVERY schedule of every tree of a fixed sub-space (nesting in both directions: S 1..4, all start states, '
          'up to 4+4 operations; free interleaving: S 1..2, all start states, all schedules while pushes+pops <= 5, beyond that all schedules with '
          'at most 4 preemptions up to 3+3 operations and at most 3 preemptions up to 4+4 operations); there '
          'a case is one tree, classes dfs-schedules-executed / dfs-trees-completed / dfs-part-k-of-8-complete count the work',
     technique='deterministic schedule exploration (rapidcheck generated schedules + bounded exhaustive depth-first enumeration) with a linearizability oracle against a bounded FIFO',
     level_text='every generated or enumerated interleaving is executed on the real ring with an instrumented index type and a two-word element whose '
                'copy can be interrupted; the observed history (results and real-time order) plus a final drain must be linearizable as a FIFO of '
                'capacity S and no popped element may be torn. Sampling for the random target; complete for the stated small sub-space of the dfs '
                'target when all dfs-part classes are present. Sequential consistency is assumed.',
     level_note='trusted: lib/sched.hpp (ucontext coroutines, one runs at a time), the linearizability search in engines/comp/c30_ring.cpp, hook 2 '
                '(index type replaced, std::atomic_int semantics modelled as sequentially consistent loads/stores)',
     assumptions=COMMON_ASSUME + ['sequentially consistent memory; interleaving granularity = index loads/stores and element words'],
     exhaustive_thorough=True)
