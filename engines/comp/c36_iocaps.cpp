// C36: pairing method selection of the three security managers against Core Vol 3 Part H, 2.3.5.1
// (Tables 2.6, 2.7, 2.8), complete enumeration (DESIGN.md section 4, C36)
//
// One case = one cell of the finite space
//     manager {legacy, lesc, legacy+lesc} x local input {none, yes/no, keyboard} x local output {none, numeric}
//     x local OOB {callback: no data, callback: data, no OOB option (keyboard+display only)}
//     x remote IO capability 0..4 x remote OOB flag x AuthReq 0..0x1f
// driven through a real Pairing Request into a freshly constructed manager; what the manager selected is read from the
// connection data (legacy_pairing_algorithm() / lesc_pairing_algorithm()) and the Pairing Response.
// The driver enumerates the cells in order (case number i -> cell i mod CELLS); passes after the first repeat the cells with
// other values of the request fields the selection must not depend on (max key size, key distribution, address type, CT2/RFU
// bits), derived from the seed and the case number.
//
// Oracle (written from the specification, not from bluetoe):
//   * Pairing Response byte 1 == IO capability of the local configuration (Table 2.5: input x output)
//   * pairing type: LE Secure Connections iff the SC bit is set in the request and in the response
//   * OOB: legacy - used iff both sides have OOB data (Table 2.6); LESC - used iff at least one side has (Table 2.7)
//   * otherwise Table 2.8 [responder = local][initiator = remote], legacy resp. LESC entries
//   * "neither side sets MITM => Just Works" is not asserted (DESIGN.md): Just Works is accepted in place of the table entry
//     when neither request nor response carries the MITM bit
#include "verif.hpp"

#include <bluetoe/link_state.hpp>
#include <bluetoe/security_manager.hpp>
#include <bluetoe/address.hpp>

#include <memory>

namespace {
    using namespace bluetoe;
    using u128 = details::uint128_t;

    // ---------------------------------------------------------------- toy security toolbox (no cryptography is needed to select a method)
    struct toy
    {
        link_layer::device_address local_address() const { return link_layer::public_device_address( { 1, 2, 3, 4, 5, 6 } ); }
        u128                       create_srand() { return u128{ { 1, 2, 3 } }; }
        details::longterm_key_t    create_long_term_key() { return { u128{ { 9, 9 } }, 0x1122334455667788ull, 0x4242 }; }
        u128                       c1( const u128& k, const u128&, const u128&, const u128& ) const { return k; }
        u128                       s1( const u128& k, const u128&, const u128& ) { return k; }
        bool                       is_valid_public_key( const std::uint8_t* ) const { return true; }
        std::pair< details::ecdh_public_key_t, details::ecdh_private_key_t > generate_keys() { return {}; }
        u128                       select_random_nonce() { return u128{ { 7 } }; }
        details::ecdh_shared_secret_t p256( const std::uint8_t*, const std::uint8_t* ) { return {}; }
        u128                       f4( const std::uint8_t*, const std::uint8_t*, const u128& k, std::uint8_t ) { return k; }
        std::pair< u128, u128 >    f5( const details::ecdh_shared_secret_t, const u128& a, const u128& b, const link_layer::device_address&, const link_layer::device_address& ) { return { a, b }; }
        u128                       f6( const u128& k, const u128&, const u128&, const u128&, const details::io_capabilities_t&, const link_layer::device_address&, const link_layer::device_address& ) { return k; }
        std::uint32_t              g2( const std::uint8_t*, const std::uint8_t*, const u128&, const u128& ) { return 123456; }
        u128                       create_passkey() { return u128{ { 0x40, 0xe2, 0x01 } }; }
    };

    // ---------------------------------------------------------------- user interface / OOB objects the options bind to (reset per case)
    struct io_t
    {
        void sm_pairing_yes_no( pairing_yes_no_response& ) {}
        void sm_pairing_numeric_output( int ) {}
        int  sm_pairing_passkey() { return 123456; }
        bool sm_pairing_yes_no() { return true; }
    } io;

    struct oob_t
    {
        bool                       has_data = false;
        int                        asked    = 0;
        link_layer::device_address asked_for;
        std::pair< bool, oob_authentication_data_t > sm_oob_authentication_data( const link_layer::device_address& a )
        {
            ++asked;
            asked_for = a;
            return { has_data, oob_authentication_data_t{ { 0x0b, 0x0b } } };
        }
    } oob;

    enum { M_LEGACY, M_LESC, M_BOTH, M_MATRIX };
    const char* const manager_names[] = { "legacy_security_manager", "lesc_security_manager", "security_manager", "io_capabilities_matrix" };
    const char* const io_names[]      = { "DisplayOnly", "DisplayYesNo", "KeyboardOnly", "NoInputNoOutput", "KeyboardDisplay" };

    struct observed
    {
        std::vector< std::uint8_t > response;
        int                         state;     // sm_pairing_state
        int                         legacy;    // legacy_pairing_algorithm or -1
        int                         lesc;      // lesc_pairing_algorithm or -1
    };

    struct sm_if
    {
        virtual ~sm_if() {}
        virtual observed request( const std::vector< std::uint8_t >& pdu, bool remote_random ) = 0;
    };

    template < int Kind, class Manager, typename... Options >
    struct sm_t : sm_if, Manager::template impl< sm_t< Kind, Manager, Options... >, Options... >, toy
    {
        using manager_type      = typename Manager::template impl< toy, Options... >;
        using connection_data_t = typename manager_type::template channel_data_t< details::link_state >;

        template < class C >
        static int legacy_of( const C& c, std::true_type ) { return static_cast< int >( c.legacy_pairing_algorithm() ); }
        template < class C >
        static int legacy_of( const C&, std::false_type ) { return -1; }
        template < class C >
        static int lesc_of( const C& c, std::true_type ) { return static_cast< int >( c.lesc_pairing_algorithm() ); }
        template < class C >
        static int lesc_of( const C&, std::false_type ) { return -1; }

        observed request( const std::vector< std::uint8_t >& pdu, bool remote_random ) override
        {
            std::unique_ptr< connection_data_t > con( new connection_data_t() );
            static const std::uint8_t            remote[ 6 ] = { 9, 9, 9, 9, 9, 0xc9 };
            con->remote_connection_created( link_layer::device_address( remote, remote_random ) );

            // exact size heap buffers
            std::unique_ptr< std::uint8_t[] > in( new std::uint8_t[ pdu.size() ] );
            std::copy( pdu.begin(), pdu.end(), in.get() );
            std::unique_ptr< std::uint8_t[] > out( new std::uint8_t[ 65 ] );
            std::size_t                       n = 65;
            this->l2cap_input( in.get(), pdu.size(), out.get(), n, *con );

            observed o;
            o.response.assign( out.get(), out.get() + std::min< std::size_t >( n, 65 ) );
            o.state  = static_cast< int >( con->state() );
            o.legacy = legacy_of( *con, std::integral_constant< bool, Kind != M_LESC >() );
            o.lesc   = lesc_of( *con, std::integral_constant< bool, Kind != M_LEGACY >() );
            return o;
        }
    };

    struct config
    {
        int                                         manager;
        int                                         input;     // 0 none, 1 yes/no, 2 keyboard
        int                                         output;    // 0 none, 1 numeric
        bool                                        oob_option;
        std::function< std::unique_ptr< sm_if >() > make;
    };

    using in_none = pairing_no_input;
    using in_yn   = pairing_yes_no< io_t, io >;
    using in_kb   = pairing_keyboard< io_t, io >;
    using out_no  = pairing_no_output;
    using out_num = pairing_numeric_output< io_t, io >;
    using oob_opt = oob_authentication_callback< oob_t, oob >;

    template < int Kind, class Manager, class In, class Out >
    config with_oob( int in, int out )
    {
        return config{ Kind, in, out, true, [] { return std::unique_ptr< sm_if >( new sm_t< Kind, Manager, In, Out, oob_opt >() ); } };
    }

    // pairing_keyboard<> lacks sm_pairing_request_yes_no(): it does not compile with lesc_security_manager / security_manager
    // (the LESC code path asks for it unconditionally). The keyboard rows of the LESC table are therefore only reachable
    // through io_capabilities_matrix<> (below).
    template < int Kind, class Manager >
    void add_manager( std::vector< config >& c, std::true_type /* keyboard compiles */ )
    {
        c.push_back( with_oob< Kind, Manager, in_none, out_no >( 0, 0 ) );
        c.push_back( with_oob< Kind, Manager, in_none, out_num >( 0, 1 ) );
        c.push_back( with_oob< Kind, Manager, in_yn, out_no >( 1, 0 ) );
        c.push_back( with_oob< Kind, Manager, in_yn, out_num >( 1, 1 ) );
        c.push_back( with_oob< Kind, Manager, in_kb, out_no >( 2, 0 ) );
        c.push_back( with_oob< Kind, Manager, in_kb, out_num >( 2, 1 ) );
        // without any OOB option (and with the options in the other order)
        c.push_back( config{ Kind, 2, 1, false, [] { return std::unique_ptr< sm_if >( new sm_t< Kind, Manager, out_num, in_kb >() ); } } );
    }

    template < int Kind, class Manager >
    void add_manager( std::vector< config >& c, std::false_type )
    {
        c.push_back( with_oob< Kind, Manager, in_none, out_no >( 0, 0 ) );
        c.push_back( with_oob< Kind, Manager, in_none, out_num >( 0, 1 ) );
        c.push_back( with_oob< Kind, Manager, in_yn, out_no >( 1, 0 ) );
        c.push_back( with_oob< Kind, Manager, in_yn, out_num >( 1, 1 ) );
        c.push_back( config{ Kind, 1, 1, false, [] { return std::unique_ptr< sm_if >( new sm_t< Kind, Manager, out_num, in_yn >() ); } } );
    }

    // the mapping functions themselves, without a manager around them: answers as if a manager without OOB data had
    // responded (SC bit of the request decides which of the two functions is the one that counts)
    template < class... Options >
    struct matrix_t : sm_if
    {
        using matrix = details::io_capabilities_matrix< Options... >;
        observed request( const std::vector< std::uint8_t >& pdu, bool ) override
        {
            const bool sc = ( pdu[ 3 ] & 0x08 ) != 0;
            observed   o;
            o.response = { 0x02, static_cast< std::uint8_t >( matrix::get_io_capabilities() ), 0, static_cast< std::uint8_t >( sc ? 0x08 : 0x00 ), 16, 0, 0 };
            o.state    = static_cast< int >( sc ? details::sm_pairing_state::lesc_pairing_requested : details::sm_pairing_state::legacy_pairing_requested );
            o.legacy   = static_cast< int >( matrix::select_legacy_pairing_algorithm( pdu[ 1 ] ) );
            o.lesc     = static_cast< int >( matrix::select_lesc_pairing_algorithm( pdu[ 1 ] ) );
            return o;
        }
    };

    template < class... Options >
    config matrix_cfg( int in, int out )
    {
        return config{ M_MATRIX, in, out, false, [] { return std::unique_ptr< sm_if >( new matrix_t< Options... >() ); } };
    }

    const std::vector< config >& configs()
    {
        static const std::vector< config > c = [] {
            std::vector< config > r;
            add_manager< M_LEGACY, legacy_security_manager >( r, std::true_type() );
            add_manager< M_LESC, lesc_security_manager >( r, std::false_type() );
            add_manager< M_BOTH, security_manager >( r, std::false_type() );
            r.push_back( matrix_cfg<>( 0, 0 ) );   // defaults: no input, no output
            r.push_back( matrix_cfg< out_num >( 0, 1 ) );
            r.push_back( matrix_cfg< in_yn >( 1, 0 ) );
            r.push_back( matrix_cfg< out_num, in_yn >( 1, 1 ) );
            r.push_back( matrix_cfg< in_kb >( 2, 0 ) );
            r.push_back( matrix_cfg< in_kb, out_num >( 2, 1 ) );
            return r;
        }();
        return c;
    }

    // ---------------------------------------------------------------- the cell space
    struct Case
    {
        int pass        = 0;   // not part of the case text: number of the enumeration pass (label only)
        int cfg         = 0;
        int local_oob   = 0;   // callback answers "data present" (ignored without OOB option)
        int remote_io   = 0;
        int remote_oob  = 0;
        int auth_req    = 0;   // bits 0..4
        // fields the selection must not depend on
        int auth_high   = 0;   // bits 5..7 of AuthReq (CT2, RFU)
        int max_key     = 16;
        int ikd         = 0;
        int rkd         = 0;
        int addr_random = 1;
    };

    struct cell_space
    {
        std::vector< Case > all;
        cell_space()
        {
            for ( int i = 0; i != static_cast< int >( configs().size() ); ++i )
            {
                const config& cf = configs()[ i ];
                for ( int local_oob = 0; local_oob != ( cf.oob_option ? 2 : 1 ); ++local_oob )
                    for ( int remote_io = 0; remote_io != 5; ++remote_io )
                        for ( int remote_oob = 0; remote_oob != ( cf.manager == M_MATRIX ? 1 : 2 ); ++remote_oob )
                            for ( int auth = 0; auth != 32; ++auth )
                            {
                                if ( cf.manager == M_MATRIX && auth != 0x04 && auth != 0x0c )
                                    continue;   // the mapping functions take the remote IO capability only: one legacy and one LESC cell
                                Case c;
                                c.cfg        = i;
                                c.local_oob  = local_oob;
                                c.remote_io  = remote_io;
                                c.remote_oob = remote_oob;
                                c.auth_req   = auth;
                                all.push_back( c );
                            }
            }
        }
        std::size_t size() const { return all.size(); }
    };

    const cell_space& cells()
    {
        static const cell_space s;
        return s;
    }

    std::uint64_t splitmix( std::uint64_t x )
    {
        x += 0x9e3779b97f4a7c15ull;
        x = ( x ^ ( x >> 30 ) ) * 0xbf58476d1ce4e5b9ull;
        x = ( x ^ ( x >> 27 ) ) * 0x94d049bb133111ebull;
        return x ^ ( x >> 31 );
    }

    Case case_of_index( std::uint64_t i )
    {
        const std::size_t n    = cells().size();
        const std::uint64_t pass = i / n;
        Case                c    = cells().all[ i % n ];
        c.pass                   = static_cast< int >( pass );
        // the first pass of the first worker uses the canonical values of the irrelevant fields (the driver passes
        // seed = VERIF_SEED*1000 + worker + 1); all other passes derive them from seed and case number
        const std::uint64_t seed = verif::Session::get().seed;
        if ( pass != 0 || ( seed % 1000 ) != 1 )
        {
            std::uint64_t r = splitmix( seed * 0x100000000ull + i );
            c.max_key     = 7 + static_cast< int >( r % 10 ); r >>= 8;
            c.ikd         = static_cast< int >( r % 16 );     r >>= 8;
            c.rkd         = static_cast< int >( r % 16 );     r >>= 8;
            c.addr_random = static_cast< int >( r % 2 );      r >>= 8;
            c.auth_high   = static_cast< int >( r % 8 );
        }
        return c;
    }

    rc::Gen< Case > gen_case()
    {
        // enumeration: the n-th generated case is cell n; there is nothing to shrink in a cell
        return rc::gen::exec( [] {
            static std::uint64_t next = 0;
            return case_of_index( next++ );
        } );
    }

    std::string to_text( const Case& c )
    {
        const config&      cf = configs()[ c.cfg ];
        static const char* in_names[]  = { "pairing_no_input", "pairing_yes_no", "pairing_keyboard" };
        static const char* out_names[] = { "pairing_no_output", "pairing_numeric_output" };
        std::ostringstream os;
        os << "cfg " << c.cfg << "  # " << manager_names[ cf.manager ] << " " << in_names[ cf.input ] << " " << out_names[ cf.output ]
           << ( cf.oob_option ? " oob_authentication_callback" : " (no OOB option)" ) << "\n";
        os << "oob " << c.local_oob << "\n";
        os << "preq " << c.remote_io << " " << c.remote_oob << " 0x" << std::hex << ( c.auth_req | ( c.auth_high << 5 ) ) << std::dec << " " << c.max_key << " " << c.ikd << " "
           << c.rkd << " " << c.addr_random << "  # remote io=" << io_names[ c.remote_io % 5 ] << " oob=" << c.remote_oob << ( c.auth_req & 1 ? " bonding" : "" )
           << ( c.auth_req & 4 ? " MITM" : "" ) << ( c.auth_req & 8 ? " SC" : "" ) << ( c.auth_req & 16 ? " keypress" : "" ) << "\n";
        return os.str();
    }

    Case from_text( const std::string& t )
    {
        Case         c;
        verif::Lines L( t );
        for ( auto& l : L.lines )
        {
            if ( l[ 0 ] == "cfg" )
                c.cfg = static_cast< int >( verif::tok_int( l, 1 ) ) % static_cast< int >( configs().size() );
            else if ( l[ 0 ] == "oob" )
                c.local_oob = static_cast< int >( verif::tok_int( l, 1 ) ) & 1;
            else if ( l[ 0 ] == "preq" )
            {
                c.remote_io   = static_cast< int >( verif::tok_int( l, 1 ) ) % 5;
                c.remote_oob  = static_cast< int >( verif::tok_int( l, 2 ) ) & 1;
                const int a   = static_cast< int >( verif::tok_int( l, 3 ) );
                c.auth_req    = a & 0x1f;
                c.auth_high   = ( a >> 5 ) & 7;
                c.max_key     = static_cast< int >( verif::tok_int( l, 4, 16 ) );
                c.ikd         = static_cast< int >( verif::tok_int( l, 5 ) ) & 15;
                c.rkd         = static_cast< int >( verif::tok_int( l, 6 ) ) & 15;
                c.addr_random = static_cast< int >( verif::tok_int( l, 7, 1 ) ) & 1;
                if ( c.max_key < 7 || c.max_key > 16 )
                    c.max_key = 16;
            }
        }
        return c;
    }

    // ---------------------------------------------------------------- specification tables
    enum io_cap { DisplayOnly = 0, DisplayYesNo = 1, KeyboardOnly = 2, NoInputNoOutput = 3, KeyboardDisplay = 4 };

    // Table 2.5 (Core Vol 3 Part H 2.3.2): local input capability (rows) x local output capability (columns)
    //                 no output           numeric output
    //   no input      NoInputNoOutput     DisplayOnly
    //   yes / no      NoInputNoOutput     DisplayYesNo
    //   keyboard      KeyboardOnly        KeyboardDisplay
    const int table_2_5[ 3 ][ 2 ] = { { NoInputNoOutput, DisplayOnly }, { NoInputNoOutput, DisplayYesNo }, { KeyboardOnly, KeyboardDisplay } };

    enum method {
        JW,   // Just Works, unauthenticated
        RD,   // Passkey Entry: responder displays, initiator inputs
        RI,   // Passkey Entry: initiator displays, responder inputs
        BI,   // Passkey Entry: initiator and responder input
        NC,   // Numeric Comparison (LE Secure Connections only)
        OOB
    };
    const char* const method_names[] = { "Just Works", "Passkey Entry (responder displays)", "Passkey Entry (responder inputs)", "Passkey Entry (both input)", "Numeric Comparison",
        "OOB" };

    // Table 2.8, rows: responder, columns: initiator, order DisplayOnly, DisplayYesNo, KeyboardOnly, NoInputNoOutput, KeyboardDisplay
    const method table_2_8_legacy[ 5 ][ 5 ] = {
        /* DisplayOnly      */ { JW, JW, RD, JW, RD },
        /* DisplayYesNo     */ { JW, JW, RD, JW, RD },
        /* KeyboardOnly     */ { RI, RI, BI, JW, RI },
        /* NoInputNoOutput  */ { JW, JW, JW, JW, JW },
        /* KeyboardDisplay  */ { RI, RI, RD, JW, RI },
    };
    const method table_2_8_lesc[ 5 ][ 5 ] = {
        /* DisplayOnly      */ { JW, JW, RD, JW, RD },
        /* DisplayYesNo     */ { JW, NC, RD, JW, NC },
        /* KeyboardOnly     */ { RI, RI, BI, JW, RI },
        /* NoInputNoOutput  */ { JW, JW, JW, JW, JW },
        /* KeyboardDisplay  */ { RI, NC, RD, JW, NC },
    };

    // what bluetoe's enumerations mean for a responder (io_capabilities.hpp names them from the local point of view)
    method from_legacy( int a )
    {
        switch ( static_cast< details::legacy_pairing_algorithm >( a ) )
        {
        case details::legacy_pairing_algorithm::just_works: return JW;
        case details::legacy_pairing_algorithm::oob_authentication: return OOB;
        case details::legacy_pairing_algorithm::passkey_entry_display: return RD;
        case details::legacy_pairing_algorithm::passkey_entry_input: return RI;
        }
        return JW;
    }
    method from_lesc( int a )
    {
        switch ( static_cast< details::lesc_pairing_algorithm >( a ) )
        {
        case details::lesc_pairing_algorithm::just_works: return JW;
        case details::lesc_pairing_algorithm::oob_authentication: return OOB;
        case details::lesc_pairing_algorithm::passkey_entry_display: return RD;
        case details::lesc_pairing_algorithm::passkey_entry_input: return RI;
        case details::lesc_pairing_algorithm::numeric_comparison: return NC;
        }
        return JW;
    }

    void run( const Case& c, verif::Report& rep )
    {
        const config& cf = configs()[ c.cfg ];
        io            = io_t();
        oob           = oob_t();
        oob.has_data  = cf.oob_option && c.local_oob;
        const bool local_has_oob = oob.has_data;

        auto sm = cf.make();

        const std::uint8_t          auth = static_cast< std::uint8_t >( c.auth_req | ( c.auth_high << 5 ) );
        std::vector< std::uint8_t > pdu  = { 0x01, static_cast< std::uint8_t >( c.remote_io ), static_cast< std::uint8_t >( c.remote_oob ), auth,
            static_cast< std::uint8_t >( c.max_key ), static_cast< std::uint8_t >( c.ikd ), static_cast< std::uint8_t >( c.rkd ) };

        const observed o = sm->request( pdu, c.addr_random != 0 );

        const int         local_io = table_2_5[ cf.input ][ cf.output ];
        const std::string ctx = verif::cat( manager_names[ cf.manager ], " local ", io_names[ local_io ], cf.oob_option ? ( local_has_oob ? " +OOB data" : " no OOB data" ) : " no OOB option",
            "; request io=", io_names[ c.remote_io ], " oob=", c.remote_oob, " auth=0x", std::hex, int( auth ), std::dec, " -> response ", verif::hex( o.response ), ": " );
        const std::string cellsig = verif::cat( "mgr=", cf.manager, " local_io=", local_io, " remote_io=", c.remote_io, " local_oob=", local_has_oob ? 1 : 0, " remote_oob=", c.remote_oob,
            " sc=", ( c.auth_req >> 3 ) & 1, " mitm=", ( c.auth_req >> 2 ) & 1 );

        rep.label( manager_names[ cf.manager ] );
        rep.label( verif::cat( "enumeration-pass=", c.pass, "-of-this-worker (", cells().size(), " cells per pass)" ) );

        V_CHECK_SIG( o.response.size() >= 2, "pairing.response", cellsig, ctx, "no answer to a Pairing Request" );

        const bool request_sc = ( c.auth_req & 0x08 ) != 0;
        if ( o.response[ 0 ] == 0x05 )
        {
            // Pairing Failed: only the LESC-only manager may refuse a request, and only one without the SC bit
            V_CHECK_SIG( cf.manager == M_LESC && !request_sc, "pairing.refused", cellsig, ctx, "a well formed Pairing Request was refused" );
            rep.label( "lesc-only-manager-refuses-legacy-request" );
            rep.nontrivial = !( local_io == NoInputNoOutput && c.remote_io == NoInputNoOutput );
            return;
        }

        V_CHECK_SIG( o.response[ 0 ] == 0x02 && o.response.size() == 7, "pairing.response", cellsig, ctx, "not a Pairing Response" );
        V_CHECK_SIG( o.response[ 1 ] == local_io, "pairing.advertised-io-capability", cellsig, ctx, "advertised IO capability is ", int( o.response[ 1 ] ), ", the configuration is ",
            io_names[ local_io ] );

        const bool response_sc = ( o.response[ 3 ] & 0x08 ) != 0;
        const bool lesc        = request_sc && response_sc;
        const bool mitm_any    = ( c.auth_req & 0x04 ) != 0 || ( o.response[ 3 ] & 0x04 ) != 0;

        // which kind of pairing did the manager start?
        const bool started_legacy = o.state == static_cast< int >( details::sm_pairing_state::legacy_pairing_requested );
        const bool started_lesc   = o.state == static_cast< int >( details::sm_pairing_state::lesc_pairing_requested );
        V_CHECK_SIG( started_legacy || started_lesc, "pairing.state", cellsig, ctx, "pairing state after the response is ", o.state );
        V_CHECK_SIG( started_lesc == lesc, "pairing.type", cellsig, ctx, "SC bit request/response ", request_sc, "/", response_sc, " but the manager started ",
            started_lesc ? "LESC" : "legacy", " pairing" );

        const method got = lesc ? from_lesc( o.lesc ) : from_legacy( o.legacy );

        // OOB: Table 2.6 (legacy: both), Table 2.7 (LESC: at least one)
        const bool oob_expected = lesc ? ( c.remote_oob || local_has_oob ) : ( c.remote_oob && local_has_oob );
        method     expected     = oob_expected ? OOB : ( lesc ? table_2_8_lesc : table_2_8_legacy )[ local_io ][ c.remote_io ];
        // bluetoe has one value for "the responder inputs"
        if ( expected == BI )
            expected = RI;

        const bool accepted = got == expected || ( !oob_expected && !mitm_any && got == JW );
        V_CHECK_SIG( accepted, oob_expected || got == OOB ? "pairing.oob-rule" : "pairing.table-2.8", verif::cat( cellsig, " got=", static_cast< int >( got ), " expected=", static_cast< int >( expected ) ), ctx,
            lesc ? "LESC" : "legacy", " pairing selected '", method_names[ got ], "', the specification gives '", method_names[ expected ], "'" );

        rep.nontrivial = !( local_io == NoInputNoOutput && c.remote_io == NoInputNoOutput );
        rep.label( lesc ? "type=LESC" : "type=legacy" );
        rep.label( verif::cat( "method=", method_names[ expected ] ) );
        rep.label_if( oob_expected, lesc ? "oob-by-table-2.7" : "oob-by-table-2.6" );
        rep.label_if( !mitm_any, "no-MITM-on-either-side" );
        rep.label_if( c.max_key != 16 || c.ikd || c.rkd || c.auth_high || !c.addr_random, "irrelevant-fields-varied" );
    }
}

// a sanitizer report must not look like an oracle failure (exit code 1) to the driver
extern "C" const char* __asan_default_options() { return "exitcode=86"; }

int main( int argc, char** argv )
{
    verif::Harness< Case > h;
    h.gen       = gen_case;
    h.to_text   = to_text;
    h.from_text = from_text;
    h.run       = run;
    if ( argc == 2 && std::string( argv[ 1 ] ) == "--cells" )
    {
        std::cout << cells().size() << "\n";
        return 0;
    }
    return verif::run_main( argc, argv, h );
}
