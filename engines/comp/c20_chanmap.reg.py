target('c20_chanmap', 'engines/comp/c20_chanmap.cpp', extra_src=['$REPO/bluetoe/link_layer/channel_map.cpp'],
       quick=dict(cases=240000, size=100), thorough=dict(cases=2000000, size=150))
prop('C20', ['c20_chanmap'], 'comp',
     rule='rapidcheck generates sequences of reset(map,hop) / reset(map) / data_channel queries: 40 bit maps with the number of used '
          'channels uniform over 0..37 (random subsets, random RFU bits) plus raw random and two-channel maps, hops 0..31 and a few '
          'large values (weighted towards the valid 5..16), connection event counters 0..65535 (weighted towards 0..80 and the wrap '
          'points), a query of all 37 indices after every case; a case is non-trivial if at least one channel was checked while a '
          'map with 2..36 used channels was in force; distinct = distinct serialised cases',
     technique='model-based property testing (rapidcheck) against Channel Selection Algorithm #1 written out from the Core specification',
     level_text='every queried data channel is compared with a literal CSA#1 reference (lastUnmappedChannel walked event by event from 0, '
                'remapping table in ascending order) for the map and hop of the last accepted reset; reset() must accept exactly the '
                'requests with hop 5..16 and at least two used channels, and a rejected request must leave sequence and hop in force. '
                'Sampling of the 2^37 x 12 x 2^16 space, not proof.',
     level_note='trusted: the CSA#1 reference in engines/comp/c20_chanmap.cpp; component level only (channel_map); how the link layer turns '
                'the event counter into the index is decided by C23 and the link-layer checks',
     assumptions=COMMON_ASSUME)
