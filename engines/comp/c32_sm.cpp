// C32 - C35: the security managers (legacy / LESC / combined) under a reference central (DESIGN.md section 4)
//
// The harness is everything around the security manager: the central (it computes its side of every confirm /
// check value), the SecurityFunctions tool box (cheap deterministic mixing functions instead of AES / ECDH -- the
// managers are generic over the tool box and the properties are about the state machine), the user (yes/no,
// keyboard, display), the OOB data source and the bond data base.
//
// Generated: manager x local IO configuration x bonding x OOB option (compile time configurations, all instantiated
// here), per case parameters (user answer mode, OOB data present, pre-existing bonds, seeds of all "random" values)
// and a sequence of steps. Steps are relative to the reference state ("the correct next PDU", "another opcode",
// "right opcode, wrong length", "wrong value / invalid parameter", poll, user yes/no, encryption toggle, key probe,
// raw bytes) and are turned into concrete PDUs while the case runs.
//
// Oracle: a reference state machine of the pairing protocol that classifies every PDU that is *actually sent* from
// its bytes and the reference state (never from the generator's intent) and is advanced by the observed output as
// well as by the input. The selected property (--property) switches the assertions:
//   C32  order / length / parameters / verified values;  C33  find_key();  C34  key distribution;  C35  pairing status
// A deviation that belongs to another property ends the case silently (label `stopped:other-property`).
#include "verif.hpp"

#include <bluetoe/address.hpp>
#include <bluetoe/link_state.hpp>
#include <bluetoe/security_manager.hpp>

#include <memory>

#ifndef SM_ONLY
#define SM_ONLY -1  // -1: all managers in this binary; 0 legacy, 1 lesc, 2 combined
#endif

namespace {

    using namespace bluetoe;
    using u128   = details::uint128_t;
    using bytes  = std::vector< std::uint8_t >;
    using addr_t = link_layer::device_address;
    using pub_t  = details::ecdh_public_key_t;
    using priv_t = details::ecdh_private_key_t;
    using dh_t   = details::ecdh_shared_secret_t;

    // ----------------------------------------------------------------------------------------- toy cryptography
    // every function depends on all of its arguments (and their order), nothing else is required of them
    struct Hash
    {
        std::uint64_t h1 = 0xcbf29ce484222325ull, h2 = 0x9e3779b97f4a7c15ull;

        Hash& byte( std::uint8_t b )
        {
            h1 = ( h1 ^ b ) * 0x100000001b3ull;
            h2 = ( h2 + b + 0x7f ) * 0xff51afd7ed558ccdull;
            h2 ^= h2 >> 29;
            return *this;
        }
        Hash& mem( const std::uint8_t* p, std::size_t n )
        {
            for ( std::size_t i = 0; i != n; ++i )
                byte( p[ i ] );
            byte( 0xfe );
            return byte( static_cast< std::uint8_t >( n ) );
        }
        template < class A >
        Hash& arr( const A& a )
        {
            return mem( a.data(), a.size() );
        }
        Hash& u64( std::uint64_t v )
        {
            for ( int i = 0; i != 8; ++i )
                byte( static_cast< std::uint8_t >( v >> ( 8 * i ) ) );
            return *this;
        }
        Hash& addr( const addr_t& a )
        {
            byte( a.is_random() ? 1 : 0 );
            for ( auto b : a )
                byte( b );
            return *this;
        }
        void out( std::uint8_t* p, std::size_t n ) const
        {
            std::uint64_t s = h2, cur = 0;
            for ( std::size_t i = 0; i != n; ++i )
            {
                if ( i % 8 == 0 )
                {
                    s += 0x9e3779b97f4a7c15ull;
                    std::uint64_t z = s ^ h1;
                    z   = ( z ^ ( z >> 30 ) ) * 0xbf58476d1ce4e5b9ull;
                    z   = ( z ^ ( z >> 27 ) ) * 0x94d049bb133111ebull;
                    cur = z ^ ( z >> 31 );
                }
                p[ i ] = static_cast< std::uint8_t >( cur >> ( 8 * ( i % 8 ) ) );
            }
        }
        u128 out16() const
        {
            u128 r;
            out( r.data(), r.size() );
            return r;
        }
        std::uint64_t out64() const
        {
            std::uint8_t b[ 8 ];
            out( b, 8 );
            std::uint64_t r = 0;
            for ( int i = 0; i != 8; ++i )
                r |= static_cast< std::uint64_t >( b[ i ] ) << ( 8 * i );
            return r;
        }
    };

    u128 t_c1( const u128& k, const u128& r, const u128& p1, const u128& p2 ) { return Hash().byte( 1 ).arr( k ).arr( r ).arr( p1 ).arr( p2 ).out16(); }
    u128 t_s1( const u128& k, const u128& r1, const u128& r2 ) { return Hash().byte( 2 ).arr( k ).arr( r1 ).arr( r2 ).out16(); }

    // "elliptic curve": public x = private xor mask, public y = g( x ); shared secret = h( private A xor private B )
    std::uint8_t t_mask( std::size_t i ) { return static_cast< std::uint8_t >( 0x35 + 7 * i ); }
    std::uint8_t t_y( std::uint8_t x, std::size_t i ) { return static_cast< std::uint8_t >( x * 5 + 3 * i + 1 ); }
    pub_t        t_pub( const priv_t& priv )
    {
        pub_t p;
        for ( std::size_t i = 0; i != 32; ++i )
        {
            p[ i ]      = priv[ i ] ^ t_mask( i );
            p[ 32 + i ] = t_y( p[ i ], i );
        }
        return p;
    }
    bool t_valid_pub( const std::uint8_t* p )
    {
        for ( std::size_t i = 0; i != 32; ++i )
            if ( p[ 32 + i ] != t_y( p[ i ], i ) )
                return false;
        return true;
    }
    dh_t t_dh( const std::uint8_t* priv, const std::uint8_t* pub )
    {
        std::uint8_t s[ 32 ];
        for ( std::size_t i = 0; i != 32; ++i )
            s[ i ] = priv[ i ] ^ pub[ i ] ^ t_mask( i );
        dh_t r;
        Hash().byte( 3 ).mem( s, 32 ).out( r.data(), r.size() );
        return r;
    }
    u128 t_f4( const std::uint8_t* u, const std::uint8_t* v, const u128& x, std::uint8_t z ) { return Hash().byte( 4 ).mem( u, 32 ).mem( v, 32 ).arr( x ).byte( z ).out16(); }
    std::pair< u128, u128 > t_f5( const dh_t& w, const u128& n1, const u128& n2, const addr_t& a1, const addr_t& a2 )
    {
        Hash h;
        h.byte( 5 ).arr( w ).arr( n1 ).arr( n2 ).addr( a1 ).addr( a2 );
        Hash m = h, l = h;
        return { m.byte( 0 ).out16(), l.byte( 1 ).out16() };
    }
    u128 t_f6( const u128& w, const u128& n1, const u128& n2, const u128& r, const details::io_capabilities_t& io, const addr_t& a1, const addr_t& a2 )
    {
        return Hash().byte( 6 ).arr( w ).arr( n1 ).arr( n2 ).arr( r ).arr( io ).addr( a1 ).addr( a2 ).out16();
    }
    std::uint32_t t_g2( const std::uint8_t* u, const std::uint8_t* v, const u128& x, const u128& y )
    {
        return static_cast< std::uint32_t >( Hash().byte( 7 ).mem( u, 32 ).mem( v, 32 ).arr( x ).arr( y ).out64() % 1000000u );
    }
    u128 le128( std::uint32_t v )
    {
        u128 r{ { 0 } };
        for ( int i = 0; i != 4; ++i )
            r[ i ] = static_cast< std::uint8_t >( v >> ( 8 * i ) );
        return r;
    }

    // the SecurityFunctions base of the manager under test
    struct toy
    {
        std::uint32_t seed = 0;
        unsigned      n_srand = 0, n_nonce = 0, n_keys = 0, n_passkey = 0;
        addr_t        local;
        u128          last_passkey{ { 0 } };

        addr_t local_address() const { return local; }
        u128   create_srand() { return Hash().byte( 10 ).u64( seed ).u64( n_srand++ ).out16(); }
        u128   select_random_nonce() { return Hash().byte( 11 ).u64( seed ).u64( n_nonce++ ).out16(); }
        std::pair< pub_t, priv_t > generate_keys()
        {
            priv_t p;
            Hash().byte( 12 ).u64( seed ).u64( n_keys++ ).out( p.data(), p.size() );
            return { t_pub( p ), p };
        }
        u128 passkey_no( unsigned n ) const { return le128( 1 + static_cast< std::uint32_t >( Hash().byte( 13 ).u64( seed ).u64( n ).out64() % 999999u ) ); }
        u128 create_passkey()
        {
            last_passkey = passkey_no( n_passkey++ );
            return last_passkey;
        }
        details::longterm_key_t create_long_term_key() { return { Hash().byte( 14 ).u64( seed ).out16(), 0x1122334455667788ull, 0x4242 }; }

        u128 c1( const u128& k, const u128& r, const u128& p1, const u128& p2 ) const { return t_c1( k, r, p1, p2 ); }
        u128 s1( const u128& k, const u128& r1, const u128& r2 ) { return t_s1( k, r1, r2 ); }
        bool is_valid_public_key( const std::uint8_t* k ) const { return t_valid_pub( k ); }
        dh_t p256( const std::uint8_t* priv, const std::uint8_t* pub ) { return t_dh( priv, pub ); }
        u128 f4( const std::uint8_t* u, const std::uint8_t* v, const u128& x, std::uint8_t z ) { return t_f4( u, v, x, z ); }
        std::pair< u128, u128 > f5( const dh_t w, const u128& n1, const u128& n2, const addr_t& a1, const addr_t& a2 ) { return t_f5( w, n1, n2, a1, a2 ); }
        u128 f6( const u128& w, const u128& n1, const u128& n2, const u128& r, const details::io_capabilities_t& io, const addr_t& a1, const addr_t& a2 )
        {
            return t_f6( w, n1, n2, r, io, a1, a2 );
        }
        std::uint32_t g2( const std::uint8_t* u, const std::uint8_t* v, const u128& x, const u128& y ) { return t_g2( u, v, x, y ); }
    };

    // ----------------------------------------------------------------------------------------- the user, OOB, bonds
    struct io_t
    {
        pairing_yes_no_response* pending = nullptr;
        int                      mode    = 0;  // 0 answers later (asynchronous), 1 answers yes at once, 2 answers no at once
        unsigned                 asks = 0, shown_count = 0, kbd_calls = 0;
        int                      shown     = -1;
        std::uint32_t            kbd_value = 1;

        void sm_pairing_yes_no( pairing_yes_no_response& r )
        {
            ++asks;
            if ( mode == 0 )
                pending = &r;
            else
                r.yes_no_response( mode == 1 );
        }
        void sm_pairing_numeric_output( int v )
        {
            ++shown_count;
            shown = v;
        }
        int sm_pairing_passkey()
        {
            ++kbd_calls;
            return static_cast< int >( kbd_value );
        }
    } g_io;

    struct oob_t
    {
        bool                      present = false;
        oob_authentication_data_t data{ { 0 } };
        unsigned                  calls = 0;

        std::pair< bool, oob_authentication_data_t > sm_oob_authentication_data( const addr_t& )
        {
            ++calls;
            return { present, present ? data : oob_authentication_data_t{ { 0 } } };
        }
    } g_oob;

    struct bond
    {
        addr_t        peer;
        std::uint16_t ediv;
        std::uint64_t rand;
        u128          key;
    };

    struct db_t
    {
        std::vector< bond >     entries;
        unsigned                created = 0;
        std::uint32_t           seed    = 0;
        details::longterm_key_t last_created{};

        template < class Radio >
        details::longterm_key_t create_new_bond( Radio&, const addr_t& )
        {
            ++created;
            last_created.longterm_key = Hash().byte( 20 ).u64( seed ).u64( created ).out16();
            last_created.rand         = Hash().byte( 21 ).u64( seed ).u64( created ).out64() | 1u;
            last_created.ediv         = static_cast< std::uint16_t >( 1 + Hash().byte( 22 ).u64( seed ).u64( created ).out64() % 0xfffe );
            return last_created;
        }
        template < class Connection >
        void store_bond( const details::longterm_key_t& k, const Connection& c )
        {
            entries.push_back( bond{ c.remote_address(), k.ediv, k.rand, k.longterm_key } );
        }
        std::pair< bool, u128 > find_key( std::uint16_t ediv, std::uint64_t rand, const addr_t& peer ) const
        {
            for ( auto i = entries.rbegin(); i != entries.rend(); ++i )
                if ( i->ediv == ediv && i->rand == rand && i->peer == peer )
                    return { true, i->key };
            return { false, u128{ { 0 } } };
        }
        template < class Connection >
        void restore_cccds( Connection& )
        {
        }
    } g_db;

    // ----------------------------------------------------------------------------------------- configurations
    enum { LEGACY = 0, LESC = 1, COMBINED = 2 };

    struct sm_if
    {
        virtual ~sm_if() {}
        virtual bytes                   in( const bytes& )                       = 0;
        virtual bytes                   out()                                    = 0;
        virtual std::pair< bool, u128 > find_key( std::uint16_t, std::uint64_t ) = 0;
        virtual device_pairing_status   status()                                 = 0;
        virtual bool                    idle()                                   = 0;
        virtual void                    encrypted( bool )                        = 0;
        virtual bool                    encrypted()                              = 0;
        virtual toy&                    tb()                                     = 0;
        virtual void                    connect( const addr_t& )                 = 0;
    };

    template < class Manager, std::size_t MTU, typename... Options >
    struct sm_obj : Manager::template impl< sm_obj< Manager, MTU, Options... >, Options... >, toy
    {
        using manager_type      = typename Manager::template impl< toy, Options... >;
        using connection_data_t = typename manager_type::template channel_data_t< details::link_state >;
        connection_data_t con   = connection_data_t();  // the way link_layer creates it
    };

    template < class Manager, std::size_t MTU, typename... Options >
    struct sm_impl : sm_if
    {
        sm_obj< Manager, MTU, Options... > s;

        bytes in( const bytes& pdu ) override
        {
            // exact size heap buffers: reads past the PDU and writes past the MTU are ASan reports
            std::unique_ptr< std::uint8_t[] > ib( new std::uint8_t[ pdu.size() ] );
            std::copy( pdu.begin(), pdu.end(), ib.get() );
            std::unique_ptr< std::uint8_t[] > ob( new std::uint8_t[ MTU ] );
            std::size_t                       n = MTU;
            s.l2cap_input( ib.get(), pdu.size(), ob.get(), n, s.con );
            V_CHECK( n <= MTU, "sm.output-size", "l2cap_input reports ", n, " octets of output for a buffer of ", MTU );
            return bytes( ob.get(), ob.get() + n );
        }
        bytes out() override
        {
            std::unique_ptr< std::uint8_t[] > ob( new std::uint8_t[ MTU ] );
            std::size_t                       n = MTU;
            s.l2cap_output( ob.get(), n, s.con );
            V_CHECK( n <= MTU, "sm.output-size", "l2cap_output reports ", n, " octets of output for a buffer of ", MTU );
            return bytes( ob.get(), ob.get() + n );
        }
        std::pair< bool, u128 > find_key( std::uint16_t e, std::uint64_t r ) override { return s.con.find_key( e, r ); }
        device_pairing_status   status() override { return s.con.local_device_pairing_status(); }
        bool                    idle() override { return s.con.state() == details::sm_pairing_state::idle; }
        void                    encrypted( bool e ) override { s.con.is_encrypted( e ); }
        bool                    encrypted() override { return s.con.is_encrypted(); }
        toy&                    tb() override { return s; }
        void                    connect( const addr_t& a ) override { s.con.remote_connection_created( a ); }
    };

    struct config
    {
        std::string                                 name;
        int                                         manager;
        bool                                        bonding, oob;
        std::size_t                                 mtu;
        std::function< std::unique_ptr< sm_if >() > make;
    };

    template < class Manager, std::size_t MTU, typename... Options >
    config mk( const char* name, int manager, bool bonding, bool oob )
    {
        return config{ name, manager, bonding, oob, MTU, [] { return std::unique_ptr< sm_if >( new sm_impl< Manager, MTU, Options... >() ); } };
    }

    using YN = pairing_yes_no< io_t, g_io >;
    using KB = pairing_keyboard< io_t, g_io >;
    using DI = pairing_numeric_output< io_t, g_io >;
    using BD = bonding_data_base< db_t, g_db >;
    using OB = oob_authentication_callback< oob_t, g_oob >;
    using MI = require_man_in_the_middle_protection;

    // pairing_keyboard has no yes/no interface, so it compiles with the legacy manager only
    const std::vector< config >& configs()
    {
        static const std::vector< config > c = {
#if SM_ONLY == -1 || SM_ONLY == 0
            mk< legacy_security_manager, 23, OB >( "legacy in=none out=none", LEGACY, false, true ),
            mk< legacy_security_manager, 23, OB, DI >( "legacy in=none out=display", LEGACY, false, true ),
            mk< legacy_security_manager, 23, OB, YN >( "legacy in=yesno out=none", LEGACY, false, true ),
            mk< legacy_security_manager, 23, OB, YN, DI >( "legacy in=yesno out=display", LEGACY, false, true ),
            mk< legacy_security_manager, 23, OB, KB >( "legacy in=keyboard out=none", LEGACY, false, true ),
            mk< legacy_security_manager, 23, OB, KB, DI >( "legacy in=keyboard out=display", LEGACY, false, true ),
            mk< legacy_security_manager, 23, OB, BD >( "legacy in=none out=none bonding", LEGACY, true, true ),
            mk< legacy_security_manager, 23, OB, DI, BD >( "legacy in=none out=display bonding", LEGACY, true, true ),
            mk< legacy_security_manager, 23, OB, YN, BD >( "legacy in=yesno out=none bonding", LEGACY, true, true ),
            mk< legacy_security_manager, 23, BD, YN, DI >( "legacy in=yesno out=display bonding no-oob-option", LEGACY, true, false ),
            mk< legacy_security_manager, 23, OB, KB, BD >( "legacy in=keyboard out=none bonding", LEGACY, true, true ),
            mk< legacy_security_manager, 23, OB, KB, DI, BD, MI >( "legacy in=keyboard out=display bonding mitm", LEGACY, true, true ),
            mk< legacy_security_manager, 23 >( "legacy defaults", LEGACY, false, false ),
#endif
#if SM_ONLY == -1 || SM_ONLY == 1
            mk< lesc_security_manager, 65, OB >( "lesc in=none out=none", LESC, false, true ),
            mk< lesc_security_manager, 65, OB, DI >( "lesc in=none out=display", LESC, false, true ),
            mk< lesc_security_manager, 65, OB, YN >( "lesc in=yesno out=none", LESC, false, true ),
            mk< lesc_security_manager, 65, OB, YN, DI >( "lesc in=yesno out=display", LESC, false, true ),
            mk< lesc_security_manager, 65, OB, BD >( "lesc in=none out=none bonding", LESC, true, true ),
            mk< lesc_security_manager, 65, OB, DI, BD >( "lesc in=none out=display bonding", LESC, true, true ),
            mk< lesc_security_manager, 65, YN, DI, BD, MI >( "lesc in=yesno out=display bonding mitm no-oob-option", LESC, true, false ),
            mk< lesc_security_manager, 65 >( "lesc defaults", LESC, false, false ),
#endif
#if SM_ONLY == -1 || SM_ONLY == 2
            mk< security_manager, 65, OB >( "combined in=none out=none", COMBINED, false, true ),
            mk< security_manager, 65, OB, DI >( "combined in=none out=display", COMBINED, false, true ),
            mk< security_manager, 65, OB, YN >( "combined in=yesno out=none", COMBINED, false, true ),
            mk< security_manager, 65, OB, YN, DI >( "combined in=yesno out=display", COMBINED, false, true ),
            mk< security_manager, 65, OB, BD >( "combined in=none out=none bonding", COMBINED, true, true ),
            mk< security_manager, 65, OB, DI, BD >( "combined in=none out=display bonding", COMBINED, true, true ),
            mk< security_manager, 65, OB, YN, DI, BD >( "combined in=yesno out=display bonding", COMBINED, true, true ),
            mk< security_manager, 65, YN, DI, MI >( "combined in=yesno out=display mitm no-oob-option", COMBINED, false, false ),
            mk< security_manager, 65 >( "combined defaults", COMBINED, false, false ),
#endif
        };
        return c;
    }

    // ----------------------------------------------------------------------------------------- the generated case
    enum step_kind { NEXT, OP, LEN, BAD, POLL, YES, NO, ENC, PROBE, RAW };
    const char* const step_names[] = { "next", "op", "len", "bad", "poll", "yes", "no", "enc", "probe", "raw" };

    struct Step
    {
        int   kind = POLL;
        int   a = 0, b = 0;
        bytes raw;
    };

    struct Bond
    {
        int           this_peer = 1;
        std::uint16_t ediv      = 0;
        std::uint64_t rand      = 0;
    };

    struct Case
    {
        int                 cfg       = 0;
        std::uint32_t       seed      = 1;
        int                 user_mode = 0;
        int                 oob       = 0;
        std::uint32_t       passkey   = 1;
        std::vector< Bond > bonds;
        std::vector< Step > steps;
    };

    int property_mask()
    {
        const std::string& p = verif::property();
        return p == "C32" ? 1 : p == "C33" ? 2 : p == "C34" ? 4 : p == "C35" ? 8 : 15;
    }
    enum { P32 = 1, P33 = 2, P34 = 4, P35 = 8 };

    rc::Gen< Step > gen_step()
    {
        using W = std::pair< std::size_t, int >;
        std::vector< W > w;
        switch ( property_mask() )
        {
        case P33: w = { { 50, NEXT }, { 5, OP }, { 2, LEN }, { 5, BAD }, { 6, POLL }, { 4, YES }, { 1, NO }, { 1, ENC }, { 22, PROBE }, { 1, RAW } }; break;
        case P34: w = { { 52, NEXT }, { 3, OP }, { 1, LEN }, { 3, BAD }, { 20, POLL }, { 2, YES }, { 1, NO }, { 14, ENC }, { 2, PROBE }, { 1, RAW } }; break;
        case P35: w = { { 90, NEXT }, { 1, OP }, { 1, LEN }, { 2, BAD }, { 2, POLL }, { 3, YES }, { 1, NO }, { 1, ENC }, { 1, PROBE }, { 0, RAW } }; break;
        default: w = { { 50, NEXT }, { 9, OP }, { 5, LEN }, { 8, BAD }, { 9, POLL }, { 6, YES }, { 2, NO }, { 2, ENC }, { 2, PROBE }, { 2, RAW } }; break;
        }
        int total = 0;
        for ( auto& e : w )
            total += static_cast< int >( e.first );
        const auto kind_gen = rc::gen::map( verif::range< int >( 0, total - 1 ), [ w ]( int x ) {
            for ( auto& e : w )
            {
                if ( x < static_cast< int >( e.first ) )
                    return e.second;
                x -= static_cast< int >( e.first );
            }
            return static_cast< int >( NEXT );
        } );
        return rc::gen::mapcat( kind_gen, []( int kind ) -> rc::Gen< Step > {
            if ( kind == RAW )
                return rc::gen::map( verif::bytes( 0, 20 ), []( const bytes& b ) {
                    Step s;
                    s.kind = RAW;
                    s.raw  = b;
                    return s;
                } );
            return rc::gen::map( rc::gen::pair( verif::range< int >( 0, 0x3fff ), verif::range< int >( 0, 0x3fff ) ), [ kind ]( const std::pair< int, int >& ab ) {
                Step s;
                s.kind = kind;
                s.a    = ab.first;
                s.b    = ab.second;
                return s;
            } );
        } );
    }

    rc::Gen< Bond > gen_bond()
    {
        return rc::gen::build< Bond >( rc::gen::set( &Bond::this_peer, rc::gen::weightedElement< int >( { { 3, 1 }, { 1, 0 } } ) ),
            rc::gen::set( &Bond::ediv, rc::gen::weightedOneOf< std::uint16_t >( { { 1, rc::gen::just< std::uint16_t >( 0 ) }, { 3, verif::range< std::uint16_t >( 1, 0xffff ) } } ) ),
            rc::gen::set( &Bond::rand,
                rc::gen::weightedOneOf< std::uint64_t >( { { 1, rc::gen::just< std::uint64_t >( 0 ) }, { 3, verif::range< std::uint64_t >( 1, 0xffffffffffffull ) } } ) ) );
    }

    rc::Gen< Case > gen_case()
    {
        // configurations with yes/no input and a display (numeric comparison, asynchronous user answers) get three tickets
        std::vector< int > tickets;
        for ( int i = 0; i != static_cast< int >( configs().size() ); ++i )
            tickets.insert( tickets.end(), configs()[ i ].name.find( "in=yesno out=display" ) != std::string::npos ? 3 : 1, i );
        const auto cfg_gen = rc::gen::map( verif::range< int >( 0, static_cast< int >( tickets.size() ) - 1 ), [ tickets ]( int t ) { return tickets[ t ]; } );

        return rc::gen::build< Case >( rc::gen::set( &Case::cfg, cfg_gen ),
            rc::gen::set( &Case::seed, verif::range< std::uint32_t >( 1, 0xffffff ) ),
            rc::gen::set( &Case::user_mode, rc::gen::weightedElement< int >( { { 5, 0 }, { 3, 1 }, { 1, 2 } } ) ),
            rc::gen::set( &Case::oob, rc::gen::weightedElement< int >( { { 2, 0 }, { 1, 1 } } ) ),
            rc::gen::set( &Case::passkey, verif::range< std::uint32_t >( 1, 999999 ) ),
            rc::gen::set( &Case::bonds,
                rc::gen::mapcat( rc::gen::weightedElement< std::size_t >( { { 3, 0 }, { 2, 1 }, { 1, 2 } } ),
                    []( std::size_t n ) { return rc::gen::container< std::vector< Bond > >( n, gen_bond() ); } ) ),
            rc::gen::set( &Case::steps, rc::gen::container< std::vector< Step > >( gen_step() ) ) );
    }

    std::string to_text( const Case& c )
    {
        std::ostringstream os;
        const int          n = static_cast< int >( configs().size() );
        os << "cfg " << c.cfg << "  # " << configs()[ ( ( c.cfg % n ) + n ) % n ].name << "\n";
        os << "param seed " << c.seed << "\n";
        os << "param user " << c.user_mode << "  # 0 answers later, 1 yes at once, 2 no at once\n";
        os << "param oob " << c.oob << "\n";
        os << "param passkey " << c.passkey << "\n";
        for ( auto& b : c.bonds )
            os << "param bond " << b.this_peer << " " << b.ediv << " " << b.rand << "\n";
        for ( auto& s : c.steps )
        {
            os << step_names[ s.kind ];
            if ( s.kind == RAW )
                os << " " << verif::hex( s.raw );
            else if ( s.kind != POLL && s.kind != YES && s.kind != NO )
                os << " " << s.a << " " << s.b;
            os << "\n";
        }
        return os.str();
    }

    Case from_text( const std::string& t )
    {
        Case         c;
        verif::Lines L( t );
        for ( auto& l : L.lines )
        {
            if ( l[ 0 ] == "cfg" )
                c.cfg = static_cast< int >( verif::tok_int( l, 1 ) );
            else if ( l[ 0 ] == "param" && l.size() >= 3 )
            {
                if ( l[ 1 ] == "seed" ) c.seed = static_cast< std::uint32_t >( std::strtoul( l[ 2 ].c_str(), nullptr, 0 ) );
                else if ( l[ 1 ] == "user" ) c.user_mode = static_cast< int >( verif::tok_int( l, 2 ) );
                else if ( l[ 1 ] == "oob" ) c.oob = static_cast< int >( verif::tok_int( l, 2 ) );
                else if ( l[ 1 ] == "passkey" ) c.passkey = static_cast< std::uint32_t >( std::strtoul( l[ 2 ].c_str(), nullptr, 0 ) );
                else if ( l[ 1 ] == "bond" && l.size() >= 5 )
                {
                    Bond b;
                    b.this_peer = static_cast< int >( verif::tok_int( l, 2 ) );
                    b.ediv      = static_cast< std::uint16_t >( std::strtoul( l[ 3 ].c_str(), nullptr, 0 ) );
                    b.rand      = std::strtoull( l[ 4 ].c_str(), nullptr, 0 );
                    c.bonds.push_back( b );
                }
            }
            else
            {
                for ( int k = 0; k != 10; ++k )
                    if ( l[ 0 ] == step_names[ k ] )
                    {
                        Step s;
                        s.kind = k;
                        if ( k == RAW )
                            s.raw = verif::unhex( verif::tok_str( l, 1 ) );
                        else
                        {
                            s.a = static_cast< int >( verif::tok_int( l, 1 ) );
                            s.b = static_cast< int >( verif::tok_int( l, 2 ) );
                        }
                        c.steps.push_back( s );
                    }
            }
        }
        return c;
    }

    // ----------------------------------------------------------------------------------------- reference + central
    struct stop_case
    {
    };  // a deviation that is another property's business

    const char* status_name( device_pairing_status s )
    {
        switch ( s )
        {
        case device_pairing_status::no_key: return "no_key";
        case device_pairing_status::unauthenticated_key: return "unauthenticated_key";
        case device_pairing_status::authenticated_key: return "authenticated_key";
        default: return "authenticated_key_with_secure_connection";
        }
    }

    // pairing methods of Vol 3 Part H 2.3.5.1, Table 2.8 (rows: responder, columns: initiator)
    enum method { JW, RESP_DISPLAYS, RESP_INPUTS, NUMCOMP, OOB };
    const char* const method_names[] = { "just-works", "passkey-responder-displays", "passkey-responder-inputs", "numeric-comparison", "oob" };

    method table_2_8( int resp_io, int init_io, bool sc )
    {
        // 0 DisplayOnly, 1 DisplayYesNo, 2 KeyboardOnly, 3 NoInputNoOutput, 4 KeyboardDisplay
        static const method legacy[ 5 ][ 5 ] = {
            /* responder DisplayOnly     */ { JW, JW, RESP_DISPLAYS, JW, RESP_DISPLAYS },
            /* responder DisplayYesNo    */ { JW, JW, RESP_DISPLAYS, JW, RESP_DISPLAYS },
            /* responder KeyboardOnly    */ { RESP_INPUTS, RESP_INPUTS, RESP_INPUTS, JW, RESP_INPUTS },
            /* responder NoInputNoOutput */ { JW, JW, JW, JW, JW },
            /* responder KeyboardDisplay */ { RESP_INPUTS, RESP_INPUTS, RESP_DISPLAYS, JW, RESP_INPUTS },
        };
        if ( resp_io > 4 || init_io > 4 )
            return JW;
        if ( sc && ( resp_io == 1 || resp_io == 4 ) && ( init_io == 1 || init_io == 4 ) )
            return NUMCOMP;
        return legacy[ resp_io ][ init_io ];
    }

    struct Runner
    {
        const Case&    c;
        const config&  cf;
        sm_if&         sm;
        verif::Report& rep;
        const int      mask;
        toy&           tb;
        addr_t         remote, other_peer;
        std::string    trace;  // the concrete traffic of the case, appended to every failure message

        // reference state -------------------------------------------------------------------------------------
        enum St { IDLE, L_REQ, L_CONF, S_REQ, S_KEYS, S_CONF, S_RAND, S_WAIT, S_YES, S_NO, DONE } st = IDLE;
        bool  lesc = false;
        bytes preq, pres;
        u128  p1{}, p2{};
        u128  mconfirm{}, tkp{}, key{};
        int   tkp_kind = JW;  // JW (TK = 0), RESP_DISPLAYS, RESP_INPUTS, OOB
        pub_t pka{}, pkb{};
        u128  na{}, nb{}, ea{}, ltk{};
        bool  ea_received = false, ea_ok = false, have_ea = false;
        bool  nc_asked = false, nc_shown = false, user_yes = false;
        bool  auth = false;
        bool  allow06 = false, allow07 = false;
        details::longterm_key_t dist_key{};

        // the central's own values ----------------------------------------------------------------------------
        unsigned n_mrand = 0, n_priv = 0, n_na = 0;
        u128     cur_mrand{};
        priv_t   a_priv{};
        bool     have_priv = false;

        // statistics --------------------------------------------------------------------------------------------
        unsigned rejected = 0, rejected_deep = 0, aborts = 0, completed_legacy = 0, completed_lesc = 0, probes = 0, probes_after_abort = 0;
        unsigned async_answers = 0, late_answers = 0, polls_after_completion = 0, toggles_after_completion = 0, dist_pdus = 0;
        unsigned pairings_started = 0, completed_mitm_method = 0;
        bool     deep = false, reached_confirm = false, reached_random = false, reached_dhkey = false, dh_while_waiting = false;
        method   cur_method = JW;

        Runner( const Case& c_, const config& cf_, sm_if& sm_, verif::Report& rep_ )
            : c( c_ ), cf( cf_ ), sm( sm_ ), rep( rep_ ), mask( property_mask() ), tb( sm_.tb() )
        {
        }

        // assertions: fail if the oracle belongs to the selected property, otherwise end the case
        template < class... Ts >
        void chk( int m, bool cond, const char* oracle, const std::string& sig, const Ts&... msg )
        {
            if ( cond )
                return;
            if ( mask & m )
                verif::fail( oracle, verif::cat( msg..., "  [config: ", cf.name, "]  trace: ", trace ), sig );
            // The deviation is another property's business and the reference can not follow any further. Before the case ends,
            // the own property is judged once more in the state the reference is sure about: if the reference has not seen a
            // pairing complete successfully, no key may be offered for (0,0) and the status has to be no_key.
            if ( !stopping_ )
            {
                stopping_ = true;
                if ( mask & P33 )
                    probe( 0, 0, false );
                if ( mask & P35 )
                    check_status();
            }
            throw stop_case{};
        }
        bool stopping_ = false;

        void chk_idle( const char* when )
        {
            if ( ( mask & P32 ) && !sm.idle() )
                verif::fail( "sm.not-idle-after-failure", verif::cat( "pairing is not idle after Pairing Failed (", when, ")  [config: ", cf.name, "]  trace: ", trace ), sig_base() );
        }

        std::string sig_base() const
        {
            static const char* const mgr[] = { "legacy", "lesc", "combined" };
            return verif::cat( "mgr=", mgr[ cf.manager ] );
        }

        static const char* st_name( St s )
        {
            static const char* const n[] = { "idle", "legacy-requested", "legacy-confirmed", "lesc-requested", "lesc-keys-exchanged", "lesc-confirm-sent",
                "lesc-random-exchanged", "lesc-waiting-for-user", "lesc-user-said-yes", "lesc-user-said-no", "completed" };
            return n[ s ];
        }

        void to_idle()
        {
            if ( st != IDLE )
                ++aborts;
            st = IDLE;
        }

        void must_fail( const bytes& pdu, const bytes& out, const char* why )
        {
            const bool failed = out.size() == 2 && out[ 0 ] == 0x05;
            ++rejected;
            if ( deep )
                ++rejected_deep;
            chk( P32, failed, "sm.not-rejected", verif::cat( sig_base(), " state=", st_name( st ), " opcode=", pdu.empty() ? -1 : pdu[ 0 ] ), "not answered with Pairing Failed (", why,
                ", reference state '", st_name( st ), "'): PDU ", verif::hex( pdu ), ", response ", verif::hex( out ) );
            chk_idle( why );
            to_idle();
        }

        void complete( bool is_lesc )
        {
            st = DONE;
            if ( is_lesc )
            {
                key  = ltk;
                auth = nc_asked && nc_shown && user_yes;
                ++completed_lesc;
            }
            else
            {
                auth = tkp_kind != JW;
                ++completed_legacy;
                if ( cf.bonding )
                {
                    allow06 = allow07 = true;
                    dist_key          = g_db.last_created;
                }
            }
            if ( cur_method != JW )
                ++completed_mitm_method;
        }

        // ---------------------------------------------------------------------------------------- input path
        void feed( bytes pdu )
        {
            if ( pdu.size() > cf.mtu )
                pdu.resize( cf.mtu );  // L2CAP would not deliver more than the channel's MTU

            const unsigned asks0 = g_io.asks, shown0 = g_io.shown_count, kbd0 = g_io.kbd_calls, pk0 = tb.n_passkey, oob0 = g_oob.calls;
            const bytes    out   = sm.in( pdu );
            trace += verif::cat( " | in ", verif::hex( pdu ), " -> ", verif::hex( out ) );

            const bool failed = out.size() == 2 && out[ 0 ] == 0x05;
            const int  op     = pdu.empty() ? -1 : pdu[ 0 ];
            const bool value  = pdu.size() == 17;  // confirm, random and DHKey check carry a 128 bit value
            u128       v{};
            if ( value )
                std::copy( pdu.begin() + 1, pdu.end(), v.begin() );

            switch ( st )
            {
            case IDLE:
            case DONE: {
                const bool was_done = st == DONE;
                if ( op != 0x01 || pdu.size() != 7 )
                    return must_fail( pdu, out, was_done ? "pairing is complete" : "only a Pairing Request starts a pairing" );
                const bool sc          = ( pdu[ 3 ] & 0x08 ) != 0;
                const bool hard        = pdu[ 1 ] > 4 || pdu[ 2 ] > 1 || pdu[ 4 ] < 7 || pdu[ 4 ] > 16;
                const bool soft        = ( pdu[ 5 ] & 0xf0 ) || ( pdu[ 6 ] & 0xf0 ) || ( pdu[ 3 ] & 0xe0 );  // reserved bits: both answers are fine
                const bool must_reject = hard || ( cf.manager == LESC && !sc );
                if ( must_reject )
                    return must_fail( pdu, out, hard ? "invalid parameter" : "no Secure Connections flag for a LESC only manager" );
                if ( failed )
                {
                    chk( P32, soft || was_done, "sm.rejected-in-order", sig_base(), "a valid Pairing Request ", verif::hex( pdu ), " in idle state is answered with ", verif::hex( out ) );
                    chk_idle( "answer to a request" );
                    ++rejected;
                    return to_idle();
                }
                chk( P32, out.size() == 7 && out[ 0 ] == 0x02, "sm.bad-response", sig_base(), "Pairing Request ", verif::hex( pdu ), " answered with ", verif::hex( out ) );
                preq = pdu;
                pres = out;
                lesc = cf.manager == LESC || ( cf.manager == COMBINED && sc );
                st   = lesc ? S_REQ : L_REQ;
                ++pairings_started;
                nc_asked = nc_shown = user_yes = ea_received = ea_ok = have_ea = false;
                tkp_kind                                                       = JW;
                // c1 parameters (Vol 3 Part H 2.2.3): p1 = pres || preq || rat || iat, p2 = padding || ia || ra
                p1      = u128{ { static_cast< std::uint8_t >( remote.is_random() ? 1 : 0 ), static_cast< std::uint8_t >( tb.local.is_random() ? 1 : 0 ) } };
                std::copy( preq.begin(), preq.end(), p1.begin() + 2 );
                std::copy( pres.begin(), pres.end(), p1.begin() + 9 );
                p2 = u128{ { 0 } };
                std::copy( tb.local.begin(), tb.local.end(), p2.begin() );
                std::copy( remote.begin(), remote.end(), p2.begin() + 6 );
                // which method would Table 2.8 select (generator steering and labels only)
                if ( lesc )
                    cur_method = ( preq[ 2 ] || pres[ 2 ] || ( g_oob.calls > oob0 && g_oob.present ) ) ? OOB : table_2_8( pres[ 1 ], preq[ 1 ], true );
                else
                    cur_method = ( preq[ 2 ] && pres[ 2 ] ) ? OOB : table_2_8( pres[ 1 ], preq[ 1 ], false );
                return;
            }
            case L_REQ:
                if ( op != 0x03 || !value )
                    return must_fail( pdu, out, "Pairing Confirm expected" );
                chk( P32, out.size() == 17 && out[ 0 ] == 0x03, "sm.rejected-in-order", sig_base(), "Pairing Confirm ", verif::hex( pdu ), " after the features were exchanged is answered with ",
                    verif::hex( out ) );
                mconfirm = v;
                // the temporary key the peripheral uses, as the user / the OOB channel see it
                if ( tb.n_passkey > pk0 )
                {
                    tkp_kind = RESP_DISPLAYS;
                    tkp      = tb.last_passkey;
                }
                else if ( g_io.kbd_calls > kbd0 )
                {
                    tkp_kind = RESP_INPUTS;
                    tkp      = le128( g_io.kbd_value );
                }
                else if ( preq[ 2 ] == 1 && cf.oob && g_oob.present )
                {
                    tkp_kind = OOB;
                    tkp      = g_oob.data;
                }
                else
                {
                    tkp_kind = JW;
                    tkp      = u128{ { 0 } };
                }
                st              = L_CONF;
                deep            = true;
                reached_confirm = true;
                return;
            case L_CONF: {
                if ( op != 0x04 || !value )
                    return must_fail( pdu, out, "Pairing Random expected" );
                const bool verifies = t_c1( tkp, v, p1, p2 ) == mconfirm;
                if ( !verifies )
                {
                    chk( P32, !( !out.empty() && out[ 0 ] == 0x04 ), "sm.random-revealed", sig_base(), "the peripheral reveals its random value although the confirm value of the central does not verify: ",
                        verif::hex( out ) );
                    return must_fail( pdu, out, "the confirm value does not verify" );
                }
                chk( P32, out.size() == 17 && out[ 0 ] == 0x04, "sm.rejected-in-order", sig_base(), "Pairing Random ", verif::hex( pdu ), " matching the confirm value is answered with ",
                    verif::hex( out ) );
                u128 srand;
                std::copy( out.begin() + 1, out.end(), srand.begin() );
                key            = t_s1( tkp, srand, v );
                ltk            = key;
                reached_random = true;
                complete( false );
                return;
            }
            case S_REQ:
                if ( op != 0x0c || pdu.size() != 65 || !t_valid_pub( &pdu[ 1 ] ) )
                    return must_fail( pdu, out, "valid Pairing Public Key expected" );
                chk( P32, out.size() == 65 && out[ 0 ] == 0x0c, "sm.rejected-in-order", sig_base(), "a valid Pairing Public Key is answered with ", verif::hex( out ) );
                std::copy( pdu.begin() + 1, pdu.end(), pka.begin() );
                std::copy( out.begin() + 1, out.end(), pkb.begin() );
                st   = S_KEYS;
                deep = true;
                return;
            case S_KEYS:
                return must_fail( pdu, out, "the peripheral's Pairing Confirm was not sent yet" );
            case S_CONF: {
                if ( op != 0x04 || !value )
                    return must_fail( pdu, out, "Pairing Random expected" );
                const bool asked = g_io.asks > asks0;
                na               = v;
                if ( asked )
                {
                    nc_asked = true;
                    nc_shown = g_io.shown_count > shown0;
                }
                if ( failed )
                {
                    chk( P32, asked && g_io.mode == 2, "sm.rejected-in-order", sig_base(), "Pairing Random ", verif::hex( pdu ), " after the confirm value was sent is answered with ",
                        verif::hex( out ) );
                    chk_idle( "answer to a request" );
                    return to_idle();
                }
                chk( P32, out.size() == 17 && out[ 0 ] == 0x04, "sm.bad-response", sig_base(), "Pairing Random answered with ", verif::hex( out ) );
                std::copy( out.begin() + 1, out.end(), nb.begin() );
                reached_random = true;
                // what the central computes now (Vol 3 Part H 2.3.5.6.5): DHKey, MacKey || LTK = f5(...), Ea = f6( MacKey, Na, Nb, 0, IOcapA, A, B )
                if ( have_priv )
                {
                    const dh_t                      dh = t_dh( a_priv.data(), pkb.data() );
                    const auto                      mk = t_f5( dh, na, nb, remote, tb.local );
                    const details::io_capabilities_t ioa{ { preq[ 1 ], preq[ 2 ], preq[ 3 ] } };
                    ltk     = mk.second;
                    ea      = t_f6( mk.first, na, nb, u128{ { 0 } }, ioa, remote, tb.local );
                    have_ea = true;
                }
                ea_received = ea_ok = false;
                if ( !asked )
                    st = S_RAND;
                else if ( g_io.mode == 0 )
                    st = S_WAIT;
                else
                {
                    user_yes = g_io.mode == 1;
                    st       = user_yes ? S_YES : S_NO;
                }
                return;
            }
            case S_RAND:
            case S_YES:
                if ( st == S_YES && ea_received )
                    return must_fail( pdu, out, "the DHKey check was already received" );
                if ( op != 0x0d || !value )
                    return must_fail( pdu, out, "Pairing DHKey Check expected" );
                reached_dhkey = true;
                if ( !have_ea || v != ea )
                {
                    chk( P32, !( !out.empty() && out[ 0 ] == 0x0d ), "sm.dhkey-unverified", verif::cat( sig_base(), " when=response" ), "the peripheral sends its DHKey check in response to a DHKey check that does not verify: ",
                        verif::hex( out ) );
                    return must_fail( pdu, out, "the DHKey check does not verify" );
                }
                chk( P32, out.size() == 17 && out[ 0 ] == 0x0d, "sm.rejected-in-order", sig_base(), "a correct DHKey check is answered with ", verif::hex( out ) );
                complete( true );
                return;
            case S_WAIT:
                if ( op != 0x0d || !value || ea_received )
                    return must_fail( pdu, out, ea_received ? "the DHKey check was already received" : "Pairing DHKey Check expected" );
                reached_dhkey    = true;
                dh_while_waiting = true;
                chk( P32, !( !out.empty() && out[ 0 ] == 0x0d ), "sm.dhkey-unverified", verif::cat( sig_base(), " when=waiting" ), "the peripheral sends its DHKey check while the user did not answer: ", verif::hex( out ) );
                if ( have_ea && v == ea )
                {
                    chk( P32, out.empty(), "sm.rejected-in-order", sig_base(), "a correct DHKey check while the user is asked is answered with ", verif::hex( out ) );
                    ea_received = ea_ok = true;
                }
                else if ( failed )
                {
                    chk_idle( "answer to a request" );
                    ++rejected;
                    ++rejected_deep;
                    to_idle();
                }
                else
                {
                    // the failure may be reported once the user answered
                    chk( P32, out.empty(), "sm.bad-response", sig_base(), "a wrong DHKey check while the user is asked is answered with ", verif::hex( out ) );
                    ea_received = true;
                    ea_ok       = false;
                }
                return;
            case S_NO:
                return must_fail( pdu, out, "the user rejected the numeric comparison" );
            }
        }

        // ---------------------------------------------------------------------------------------- output path
        void poll()
        {
            const bytes out = sm.out();
            trace += verif::cat( " | poll -> ", verif::hex( out ) );
            if ( st == DONE )
                ++polls_after_completion;
            if ( out.empty() )
                return;
            switch ( out[ 0 ] )
            {
            case 0x03:
                chk( P32, st == S_KEYS && out.size() == 17, "sm.unexpected-output", sig_base(), "Pairing Confirm ", verif::hex( out ), " sent in reference state '", st_name( st ), "'" );
                st              = S_CONF;
                reached_confirm = true;
                break;
            case 0x0d:
                chk( P32, st == S_YES && ea_received && ea_ok && out.size() == 17, "sm.dhkey-unverified", verif::cat( sig_base(), " when=poll" ), "the peripheral sends its DHKey check ",
                    ea_received ? "after a DHKey check that does not verify" : "without having received the central's DHKey check", " (reference state '", st_name( st ), "'): ", verif::hex( out ) );
                complete( true );
                break;
            case 0x05:
                chk( P32, out.size() == 2 && ( st == S_NO || ( st == S_YES && ea_received && !ea_ok ) ), "sm.unexpected-output", sig_base(), "Pairing Failed ", verif::hex( out ),
                    " sent in reference state '", st_name( st ), "'" );
                chk_idle( "sent by the peripheral" );
                to_idle();
                break;
            case 0x06:
            case 0x07: {
                ++dist_pdus;
                const bool  ltk_pdu = out[ 0 ] == 0x06;
                bool&       allow   = ltk_pdu ? allow06 : allow07;
                const char* what    = ltk_pdu ? "Encryption Information" : "Central Identification";
                chk( P34, cf.bonding && ( completed_legacy != 0 ), "dist.before-completion", sig_base(), what, " ", verif::hex( out ), " sent although no pairing with key distribution completed" );
                chk( P34, sm.encrypted(), "dist.unencrypted", sig_base(), what, " ", verif::hex( out ), " sent over an unencrypted link" );
                chk( P34, allow, "dist.repeated", sig_base(), what, " ", verif::hex( out ), " sent a second time for the same pairing" );
                allow = false;
                if ( ltk_pdu )
                    chk( P34, out.size() == 17 && std::equal( dist_key.longterm_key.begin(), dist_key.longterm_key.end(), out.begin() + 1 ), "dist.content", sig_base(), what, " ",
                        verif::hex( out ), " is not the long term key of the bond that the pairing created" );
                else
                    chk( P34, out.size() == 11 && details::read_16bit( &out[ 1 ] ) == dist_key.ediv && details::read_64bit( &out[ 3 ] ) == dist_key.rand, "dist.content", sig_base(), what, " ",
                        verif::hex( out ), " does not carry EDIV / Rand of the bond that the pairing created" );
                break;
            }
            default:
                chk( P32, false, "sm.unexpected-output", sig_base(), "unexpected output ", verif::hex( out ), " in reference state '", st_name( st ), "'" );
            }
        }

        void user( bool yes )
        {
            if ( !g_io.pending )
                return;
            pairing_yes_no_response* p = g_io.pending;
            g_io.pending               = nullptr;
            const bool late            = st != S_WAIT;
            trace += verif::cat( " | user ", yes ? "yes" : "no", late ? " (late)" : "" );
            p->yes_no_response( yes );
            ++async_answers;
            if ( late )
            {
                ++late_answers;
                return;  // the pairing this answer belongs to is over: no effect expected
            }
            user_yes = yes;
            st       = yes ? S_YES : S_NO;
        }

        void probe( std::uint16_t ediv, std::uint64_t rand, bool explicit_probe )
        {
            const auto got   = sm.find_key( ediv, rand );
            const bool local = st == DONE && ediv == 0 && rand == 0;
            const auto db    = cf.bonding ? g_db.find_key( ediv, rand, remote ) : std::pair< bool, u128 >{ false, u128{ { 0 } } };
            if ( explicit_probe )
            {
                ++probes;
                if ( aborts || pairings_started > 1 )
                    ++probes_after_abort;
                trace += verif::cat( " | find_key(", ediv, ",", rand, ") -> ", got.first ? verif::hex( got.second.data(), 16 ) : std::string( "none" ) );
            }
            chk( P33, got.first || !( local || db.first ), "key.not-offered", sig_base(), "find_key(", ediv, ",", rand, ") offers no key in reference state '", st_name( st ), "' (",
                local ? "pairing completed" : "bond data base holds a key", ")" );
            chk( P33, !got.first || local || db.first, "key.offered", verif::cat( sig_base(), " state=", st_name( st ) ), "find_key(", ediv, ",", rand, ") offers the key ",
                verif::hex( got.second.data(), 16 ), " in reference state '", st_name( st ), "' although no pairing completed and the bond data base has no such entry" );
            if ( got.first )
                chk( P33, ( local && got.second == key ) || ( db.first && got.second == db.second ), "key.value", sig_base(), "find_key(", ediv, ",", rand, ") offers ",
                    verif::hex( got.second.data(), 16 ), " but the pairing produced ", local ? verif::hex( key.data(), 16 ) : std::string( "-" ), " and the bond data base holds ",
                    db.first ? verif::hex( db.second.data(), 16 ) : std::string( "-" ) );
        }

        // the assertions of the selected property come first: a deviation that is another property's business ends the case
        void after_step()
        {
            if ( mask & P35 )
                check_status();
            probe( 0, 0, false );
            if ( !( mask & P35 ) )
                check_status();
        }

        void check_status()
        {
            const auto expected = st != DONE ? device_pairing_status::no_key : auth ? device_pairing_status::authenticated_key : device_pairing_status::unauthenticated_key;
            const auto got      = sm.status();
            chk( P35, got == expected, "status.mismatch", verif::cat( sig_base(), " path=", lesc ? "lesc" : "legacy", " selected=", method_names[ cur_method ], " reported=", status_name( got ) ),
                "local_device_pairing_status() is ", status_name( got ), " but the exchange performed gives ", status_name( expected ), " (reference state '", st_name( st ),
                "', method Table 2.8 selects: ", method_names[ cur_method ],
                st != DONE  ? ""
                : lesc      ? ( nc_asked ? ( user_yes ? ", the user confirmed the comparison value" : ", the user did not confirm" ) : ", the user was not asked, one commitment round with z = 0" )
                            : verif::cat( ", temporary key used: ", method_names[ tkp_kind ] ),
                ")" );
        }

        // ---------------------------------------------------------------------------------------- the central
        bytes request( int a, int b ) const
        {
            std::uint8_t auth_req = static_cast< std::uint8_t >( ( b & 1 ) | ( ( b & 2 ) ? 0 : 4 ) | ( ( b & 8 ) ? 0x10 : 0 ) );  // bonding, MITM (mostly), keypress
            const bool   sc       = cf.manager == LESC ? true : ( b & 4 ) != 0;
            if ( sc )
                auth_req |= 8;
            return bytes{ 0x01, static_cast< std::uint8_t >( a % 5 ), static_cast< std::uint8_t >( ( a / 5 ) % 6 == 0 ? 1 : 0 ), auth_req, static_cast< std::uint8_t >( 7 + ( b >> 4 ) % 10 ),
                static_cast< std::uint8_t >( ( b >> 8 ) & 7 ), static_cast< std::uint8_t >( ( b >> 11 ) & 7 ) };
        }

        u128 central_tk( int variant ) const
        {
            if ( variant % 4 == 1 && preq.size() == 7 && preq[ 2 ] == 1 && cf.oob && g_oob.present )
                return g_oob.data;
            switch ( cur_method )
            {
            case OOB: return g_oob.data;
            case RESP_DISPLAYS: return tb.passkey_no( tb.n_passkey );  // what the peripheral is going to display
            case RESP_INPUTS: return le128( g_io.kbd_value );          // what the user types in at the peripheral
            default: return u128{ { 0 } };
            }
        }

        bytes with_value( std::uint8_t opcode, const u128& v ) const
        {
            bytes r{ opcode };
            r.insert( r.end(), v.begin(), v.end() );
            return r;
        }

        bytes confirm( bool good, int variant = 0 )
        {
            cur_mrand      = Hash().byte( 40 ).u64( c.seed ).u64( ++n_mrand ).out16();
            const u128 use = good ? cur_mrand : Hash().byte( 43 ).u64( c.seed ).u64( n_mrand ).out16();
            return with_value( 0x03, t_c1( central_tk( variant ), use, p1, p2 ) );
        }

        bytes public_key( bool good, int a = 0, int b = 0 )
        {
            Hash().byte( 41 ).u64( c.seed ).u64( ++n_priv ).out( a_priv.data(), a_priv.size() );
            have_priv = true;
            pub_t pk  = t_pub( a_priv );
            if ( !good )
                pk[ a % 64 ] ^= static_cast< std::uint8_t >( 1 << ( b % 8 ) );
            bytes r{ 0x0c };
            r.insert( r.end(), pk.begin(), pk.end() );
            return r;
        }

        bytes some_value( std::uint8_t opcode ) { return with_value( opcode, Hash().byte( 44 ).u64( c.seed ).u64( ++n_na ).out16() ); }

        bytes dhkey( bool good, int a = 0, int b = 0 )
        {
            if ( !have_ea )
                return some_value( 0x0d );
            u128 v = ea;
            if ( !good )
                v[ a % 16 ] ^= static_cast< std::uint8_t >( 1 << ( b % 8 ) );
            return with_value( 0x0d, v );
        }

        // the PDU a conforming central sends in the current reference state (`good`) or a variant with a wrong value
        bytes expected_pdu( bool good, int a, int b )
        {
            switch ( st )
            {
            case IDLE:
            case DONE: {
                bytes r = request( a, b );
                if ( !good )
                    switch ( a % 7 )
                    {
                    case 0: r[ 1 ] = static_cast< std::uint8_t >( 5 + b % 251 ); break;
                    case 1: r[ 2 ] = static_cast< std::uint8_t >( 2 + b % 254 ); break;
                    case 2: r[ 4 ] = static_cast< std::uint8_t >( b % 7 ); break;
                    case 3: r[ 4 ] = static_cast< std::uint8_t >( 17 + b % 239 ); break;
                    case 4: r[ 5 ] |= static_cast< std::uint8_t >( 0x10 << ( b % 4 ) ); break;
                    case 5: r[ 6 ] |= static_cast< std::uint8_t >( 0x10 << ( b % 4 ) ); break;
                    default: r[ 3 ] = static_cast< std::uint8_t >( r[ 3 ] ^ 0x08 ); break;  // the other pairing flavour
                    }
                return r;
            }
            case L_REQ: return confirm( good, b );
            case L_CONF: {
                u128 v = cur_mrand;
                if ( !good )
                    v[ a % 16 ] ^= static_cast< std::uint8_t >( 1 << ( b % 8 ) );
                return with_value( 0x04, v );
            }
            case S_REQ: return public_key( good, a, b );
            case S_KEYS:
            case S_CONF: return some_value( 0x04 );
            default: return dhkey( good, a, b );
            }
        }

        void next( int a, int b )
        {
            // a user who still looks at the display of a pairing that ended meanwhile
            if ( g_io.pending && st != S_WAIT && a % 3 == 0 )
                return user( b % 2 == 0 );

            switch ( st )
            {
            case S_KEYS:
            case S_NO: return poll();
            case S_WAIT:
                if ( !ea_received && ( a & 1 ) )
                    return feed( dhkey( true ) );
                return user( b % 8 != 0 );
            case S_YES:
                if ( ea_received )
                    return poll();
                return feed( dhkey( true ) );
            case DONE:
                switch ( a % 4 )
                {
                case 0:
                case 1:
                    if ( !sm.encrypted() )
                        return encrypt( true );
                    return poll();
                case 2: return probe( 0, 0, true );
                default:
                    if ( b % 2 )
                        return feed( request( a, b ) );
                    return poll();
                }
            default: return feed( expected_pdu( true, a, b ) );
            }
        }

        void encrypt( bool e )
        {
            sm.encrypted( e );
            trace += verif::cat( " | encrypted=", e );
            if ( completed_legacy )
                ++toggles_after_completion;
        }

        void other_opcode( int x, int a, int b )
        {
            x &= 15;
            switch ( x )
            {
            case 0x01: return feed( request( a, b ) );
            case 0x03: return feed( st == L_REQ ? confirm( true ) : some_value( 0x03 ) );
            case 0x04: return feed( st == L_CONF ? with_value( 0x04, cur_mrand ) : some_value( 0x04 ) );
            case 0x0c: return feed( public_key( true ) );
            case 0x0d: return feed( dhkey( true ) );
            default: {
                static const std::size_t len[] = { 0, 7, 7, 17, 17, 2, 17, 11, 17, 8, 17, 2, 65, 17, 2, 0 };
                bytes                    r( len[ x ] ? len[ x ] : 1 + a % 6, static_cast< std::uint8_t >( b ) );
                r[ 0 ] = static_cast< std::uint8_t >( x );
                return feed( r );
            }
            }
        }

        void wrong_length( int d, int a, int b )
        {
            bytes r = expected_pdu( true, a, b );
            switch ( d % 5 )
            {
            case 0: r.pop_back(); break;
            case 1: r.push_back( static_cast< std::uint8_t >( b ) ); break;
            case 2: r.resize( 1 ); break;
            case 3: r.clear(); break;
            default: r.resize( r.size() / 2 ); break;
            }
            feed( r );
        }

        void key_probe( int a, int b )
        {
            std::uint16_t ediv = 0;
            std::uint64_t rand = 0;
            if ( a % 10 != 0 && !g_db.entries.empty() )
            {
                const bond& e = g_db.entries[ static_cast< std::size_t >( b ) % g_db.entries.size() ];
                ediv          = e.ediv;
                rand          = e.rand;
            }
            switch ( a % 10 )
            {
            case 0: break;
            case 1:
            case 2: break;  // exact
            case 3: ++ediv; break;
            case 4: rand ^= 1; break;
            case 5: ediv = 0; break;
            case 6: rand = 0; break;
            case 7: ediv = static_cast< std::uint16_t >( b ), rand = 0; break;
            case 8: ediv = 0, rand = static_cast< std::uint64_t >( b ); break;
            default: ediv = static_cast< std::uint16_t >( a * 7 + b ), rand = Hash().u64( a ).u64( b ).out64(); break;
            }
            probe( ediv, rand, true );
        }

        void run_steps()
        {
            for ( const Step& s : c.steps )
            {
                switch ( s.kind )
                {
                case NEXT: next( s.a, s.b ); break;
                case OP: other_opcode( s.a, s.b, s.a >> 4 ); break;
                case LEN: wrong_length( s.a, s.b, s.a >> 3 ); break;
                case BAD: feed( expected_pdu( false, s.a, s.b ) ); break;
                case POLL: poll(); break;
                case YES: user( true ); break;
                case NO: user( false ); break;
                case ENC: encrypt( ( s.a & 1 ) != 0 ); break;
                case PROBE: key_probe( s.a, s.b ); break;
                case RAW: feed( s.raw ); break;
                }
                after_step();
            }
            // drain: whatever is still pending comes out now, under the same rules
            if ( mask & ( P34 | P32 ) )
                for ( int i = 0; i != 6; ++i )
                {
                    poll();
                    after_step();
                }
        }
    };

    void run( const Case& c, verif::Report& rep )
    {
        const int     n  = static_cast< int >( configs().size() );
        const config& cf = configs()[ ( ( c.cfg % n ) + n ) % n ];

        // all state the declarations bind to is reset here
        g_io           = io_t();
        g_io.mode      = c.user_mode % 3;
        g_io.kbd_value = c.passkey ? c.passkey % 1000000 : 1;
        g_oob          = oob_t();
        g_oob.present  = c.oob != 0;
        g_oob.data     = Hash().byte( 30 ).u64( c.seed ).out16();
        g_db           = db_t();
        g_db.seed      = c.seed;

        auto   sm = cf.make();
        Runner r( c, cf, *sm, rep );

        std::uint8_t a[ 6 ], b[ 6 ], o[ 6 ];
        Hash().byte( 31 ).u64( c.seed ).out( a, 6 );
        Hash().byte( 32 ).u64( c.seed ).out( b, 6 );
        Hash().byte( 33 ).u64( c.seed ).out( o, 6 );
        r.tb.seed    = c.seed;
        r.tb.local   = addr_t( a, ( c.seed & 1 ) != 0 );
        r.remote     = addr_t( b, ( c.seed & 2 ) != 0 );
        r.other_peer = addr_t( o, ( c.seed & 2 ) != 0 );
        sm->connect( r.remote );
        for ( auto& bd : c.bonds )
            g_db.entries.push_back( bond{ bd.this_peer ? r.remote : r.other_peer, bd.ediv, bd.rand, Hash().byte( 34 ).u64( bd.ediv ).u64( bd.rand ).u64( bd.this_peer ).out16() } );

        bool stopped = false;
        try
        {
            r.run_steps();
        }
        catch ( const stop_case& )
        {
            stopped = true;
        }

        if ( verif::opt( "trace" ) == "1" )  // diagnostic: <binary> --property C32 --replay f.case --opt trace=1
            std::cout << "TRACE [" << cf.name << "]" << r.trace << "\n";

        static const char* const mgr[] = { "legacy", "lesc", "combined" };
        const std::string        m     = mgr[ cf.manager ];
        rep.label( "manager:" + m );
        rep.label_if( stopped, "stopped:other-property" );
        rep.label_if( r.reached_confirm, "depth1:confirm-exchanged:" + m );
        rep.label_if( r.reached_random, "depth2:random-exchanged:" + m );
        rep.label_if( r.reached_dhkey, "depth3:dhkey-check-received:" + m );
        rep.label_if( r.completed_legacy != 0, "depth4:completed-legacy:" + m );
        rep.label_if( r.completed_lesc != 0, "depth4:completed-lesc:" + m );
        rep.label_if( r.completed_legacy + r.completed_lesc > 1, "depth5:two-pairings-completed" );
        rep.label_if( r.dist_pdus != 0, "depth5:keys-distributed" );
        rep.label_if( r.dist_pdus >= 2, "depth5:both-key-pdus-distributed" );
        rep.label_if( r.rejected_deep != 0, "rejected-step-inside-a-pairing" );
        rep.label_if( r.async_answers != 0, "asynchronous-user-answer" );
        rep.label_if( r.late_answers != 0, "user-answer-after-pairing-ended" );
        rep.label_if( r.dh_while_waiting, "dhkey-check-while-user-is-asked" );
        rep.label_if( r.completed_mitm_method != 0, "completed-with-method-other-than-just-works" );
        rep.label_if( r.completed_mitm_method != 0, verif::cat( "completed:", m, ":", r.lesc ? "lesc" : "legacy", ":", method_names[ r.cur_method ] ) );
        rep.label_if( r.probes_after_abort != 0, "probe-after-abort-or-repeated-pairing" );
        rep.label_if( r.toggles_after_completion != 0 && r.polls_after_completion != 0, "encryption-toggled-and-polled-after-completion" );

        switch ( property_mask() )
        {
        case P32: rep.nontrivial = !stopped && r.deep && ( r.rejected_deep != 0 || r.async_answers != 0 ); break;
        case P33: rep.nontrivial = !stopped && r.probes_after_abort != 0; break;
        case P34: rep.nontrivial = !stopped && cf.bonding && r.completed_legacy != 0 && r.toggles_after_completion != 0 && r.polls_after_completion != 0; break;
        case P35: rep.nontrivial = !stopped && r.completed_mitm_method != 0; break;
        default: rep.nontrivial = !stopped && r.deep; break;
        }
    }
}

// the default quarantine (256 MB) makes the many short cases page-fault bound; nothing here lives longer than a case
extern "C" const char* __asan_default_options() { return "quarantine_size_mb=4:malloc_context_size=3"; }

int main( int argc, char** argv )
{
    verif::Harness< Case > h;
    h.gen       = gen_case;
    h.to_text   = to_text;
    h.from_text = from_text;
    h.run       = run;
    return verif::run_main( argc, argv, h );
}
