// C40: cycling speed and cadence control point against a reference "procedure pending" model (DESIGN.md section 4, C40)
//
// The harness is the link layer and the client of a bluetoe::server<> with the cycling_speed_and_cadence service: it queues
// the indications/notifications the server asks for into the connection data, polls l2cap_output(), sends confirmations.
// Configurations: 0 wheel + two sensor locations; 1 the same with a shared write queue (Prepare/Execute Write);
//                 2 wheel + one sensor location (location procedures unsupported); 3 crank only + two sensor locations.
// Operations (one per line):
//   sub <v>               Write Request to the CCCD of the control point (bit 1 = indications)
//   subm <v>              Write Request to the CCCD of the measurement characteristic (bit 0 = notifications)
//   write <hex> [imm]     Write Request to the control point; `imm`: the application confirms a Set Cumulative Value from inside
//                         its set_cumulative_wheel_revolutions() callback
//   pwrite <hex> [imm]    Prepare Write Request + Execute Write Request with the same value (configuration 1 only)
//   appconfirm            application calls confirm_cumulative_wheel_revolutions() (only if a Set Cumulative Value waits for it)
//   notify                application calls notify_timed_update()
//   poll                  l2cap_output()
//   conf                  Handle Value Confirmation
//   read                  Read Request on the control point value
//   reconnect             client_disconnected(), fresh connection data
// Reference model: a procedure is pending from the Write Response of a control point write until its response indication has
// been emitted. Oracle: a write is refused (Error Response) while a procedure is pending; a well formed write (right length
// for a known opcode, any length >= 1 for an unknown opcode) is accepted (Write Response) when none is pending and the
// indications are enabled - whatever malformed / refused writes came before; every accepted procedure is followed by
// exactly one indication `10 <request opcode> <result>` and no other control point indication is ever emitted.
#include "verif.hpp"

#include <bluetoe/server.hpp>
#include <bluetoe/services/csc.hpp>
#include <bluetoe/sensor_location.hpp>

#include <memory>

namespace {
    using namespace bluetoe;

    // ---------------------------------------------------------------- application side
    std::function< void( std::uint32_t ) > on_set_cumulative;
    bool                                   confirm_inside_callback = false;
    bool&                                  imm_flag() { return confirm_inside_callback; }

    struct app_handler
    {
        std::pair< std::uint32_t, std::uint16_t > cumulative_wheel_revolutions_and_time() { return { 1, 2 }; }
        std::pair< std::uint16_t, std::uint16_t > cumulative_crank_revolutions_and_time() { return { 3, 4 }; }
        void                                      set_cumulative_wheel_revolutions( std::uint32_t v )
        {
            if ( on_set_cumulative )
                on_set_cumulative( v );
        }
    };

    struct srv_if
    {
        virtual ~srv_if() {}
        virtual std::vector< std::uint8_t > input( const std::vector< std::uint8_t >& pdu ) = 0;
        virtual std::vector< std::uint8_t > output()                                        = 0;
        virtual void                        app_confirm()                                   = 0;
        virtual void                        app_notify()                                    = 0;
        virtual void                        reconnect()                                     = 0;
        std::uint16_t                       cp = 0, cp_cccd = 0, meas = 0, meas_cccd = 0;
    };

    template < class Server >
    struct srv_impl : srv_if
    {
        struct conn_t : Server::template channel_data_t< details::link_state >
        {
        };

        std::unique_ptr< Server > srv;
        std::unique_ptr< conn_t > con;

        static bool lcb( const details::notification_data& item, void* self, details::notification_type type )
        {
            srv_impl& s = *static_cast< srv_impl* >( self );
            switch ( type )
            {
            case details::notification_type::notification: return s.con->queue_notification( item.client_characteristic_configuration_index() );
            case details::notification_type::indication: return s.con->queue_indication( item.client_characteristic_configuration_index() );
            default: s.con->indication_confirmed(); return true;
            }
        }

        srv_impl() : srv( new Server ), con( new conn_t )
        {
            srv->notification_callback( &lcb, this );
            for ( std::size_t i = 0;; ++i )
            {
                const std::uint16_t h = Server::handle_mapping::handle_by_index( i );
                if ( !h )
                    break;
                const std::uint16_t u = srv->attribute_at( i ).uuid;
                if ( u == 0x2a55 )
                {
                    cp      = h;
                    cp_cccd = h + 1;
                }
                if ( u == 0x2a5b )
                {
                    meas      = h;
                    meas_cccd = h + 1;
                }
            }
        }

        std::vector< std::uint8_t > input( const std::vector< std::uint8_t >& pdu ) override
        {
            std::unique_ptr< std::uint8_t[] > in( new std::uint8_t[ pdu.size() ] );
            std::copy( pdu.begin(), pdu.end(), in.get() );
            std::unique_ptr< std::uint8_t[] > out( new std::uint8_t[ 23 ] );
            std::size_t                       n = 23;
            srv->l2cap_input( in.get(), pdu.size(), out.get(), n, *con );
            return std::vector< std::uint8_t >( out.get(), out.get() + std::min< std::size_t >( n, 23 ) );
        }

        std::vector< std::uint8_t > output() override
        {
            std::unique_ptr< std::uint8_t[] > out( new std::uint8_t[ 23 ] );
            std::size_t                       n = 23;
            srv->l2cap_output( out.get(), n, *con );
            return std::vector< std::uint8_t >( out.get(), out.get() + std::min< std::size_t >( n, 23 ) );
        }

        void app_confirm() override { srv->confirm_cumulative_wheel_revolutions( *srv ); }
        void app_notify() override { srv->notify_timed_update( *srv ); }
        void reconnect() override
        {
            srv->client_disconnected( *con );
            con.reset( new conn_t );
        }
    };

    using csc_a = cycling_speed_and_cadence< csc::handler< app_handler >, csc::wheel_revolution_data_supported, sensor_location::top_of_shoe, sensor_location::in_shoe >;
    using csc_c = cycling_speed_and_cadence< csc::handler< app_handler >, csc::wheel_revolution_data_supported, sensor_location::top_of_shoe >;
    using csc_d = cycling_speed_and_cadence< csc::handler< app_handler >, csc::crank_revolution_data_supported, sensor_location::top_of_shoe, sensor_location::left_crank >;

    using server_a = server< no_gap_service_for_gatt_servers, csc_a >;
    using server_b = server< no_gap_service_for_gatt_servers, shared_write_queue< 64 >, csc_a >;
    using server_c = server< no_gap_service_for_gatt_servers, csc_c >;
    using server_d = server< no_gap_service_for_gatt_servers, csc_d >;

    struct config
    {
        const char*                                  name;
        bool                                         queue;
        std::function< std::unique_ptr< srv_if >() > make;
    };

    const std::vector< config >& configs()
    {
        static const std::vector< config > c = {
            { "wheel+2 locations", false, [] { return std::unique_ptr< srv_if >( new srv_impl< server_a >() ); } },
            { "wheel+2 locations+write queue", true, [] { return std::unique_ptr< srv_if >( new srv_impl< server_b >() ); } },
            { "wheel+1 location", false, [] { return std::unique_ptr< srv_if >( new srv_impl< server_c >() ); } },
            { "crank+2 locations", false, [] { return std::unique_ptr< srv_if >( new srv_impl< server_d >() ); } },
        };
        return c;
    }

    // ---------------------------------------------------------------- case
    enum op_kind { SUB, SUBM, WRITE, PWRITE, APPCONFIRM, NOTIFY, POLL, CONF, READ, RECONNECT };

    struct Op
    {
        int                         kind = POLL;
        int                         v    = 0;     // CCCD value
        std::vector< std::uint8_t > data;         // control point value
        int                         imm  = 0;
    };

    struct Case
    {
        int               cfg = 0;
        std::vector< Op > ops;
    };

    rc::Gen< std::vector< std::uint8_t > > gen_cp_value()
    {
        using V = std::vector< std::uint8_t >;
        // well formed procedures, each kind of malformed one, unknown opcodes, garbage
        auto wellformed = rc::gen::oneOf< V >(
            rc::gen::map( rc::gen::container< V >( 4, rc::gen::arbitrary< std::uint8_t >() ), []( V v ) { v.insert( v.begin(), 0x01 ); return v; } ),
            rc::gen::map( rc::gen::element< std::uint8_t >( 0, 1, 2, 3, 4, 12, 13, 14, 15, 0xff ), []( std::uint8_t loc ) { return V{ 0x03, loc }; } ),
            rc::gen::just( V{ 0x04 } ) );
        auto malformed = rc::gen::mapcat( rc::gen::element< int >( 1, 3, 4 ), []( int opcode ) {
            return rc::gen::map( verif::bytes( 0, 7 ), [opcode]( V v ) {
                const std::size_t good = opcode == 1 ? 4 : opcode == 3 ? 1 : 0;
                if ( v.size() == good )
                    v.push_back( 0x55 );
                v.insert( v.begin(), static_cast< std::uint8_t >( opcode ) );
                return v;
            } );
        } );
        auto unknown = rc::gen::map( rc::gen::pair( rc::gen::weightedOneOf< int >( { { 3, rc::gen::element< int >( 0, 2, 5, 6 ) }, { 1, verif::range< int >( 5, 20 ) }, { 1, rc::gen::element< int >( 0x10, 0x80, 0xff ) } } ), verif::bytes( 0, 7 ) ),
            []( const std::pair< int, V >& p ) {
                V v = p.second;
                v.insert( v.begin(), static_cast< std::uint8_t >( p.first ) );
                return v;
            } );
        return rc::gen::weightedOneOf< V >( { { 6, wellformed }, { 4, malformed }, { 2, unknown }, { 1, rc::gen::just( V{} ) }, { 1, verif::bytes( 0, 8 ) } } );
    }

    rc::Gen< Op > gen_op()
    {
        return rc::gen::mapcat( rc::gen::weightedElement< int >( { { 4, SUB }, { 1, SUBM }, { 12, WRITE }, { 3, PWRITE }, { 3, APPCONFIRM }, { 1, NOTIFY }, { 8, POLL }, { 5, CONF },
                                    { 2, READ }, { 1, RECONNECT } } ),
            []( int k ) -> rc::Gen< Op > {
                switch ( k )
                {
                case SUB: return rc::gen::build< Op >( rc::gen::set( &Op::kind, rc::gen::just( k ) ), rc::gen::set( &Op::v, rc::gen::weightedElement< int >( { { 6, 2 }, { 2, 0 }, { 1, 1 }, { 1, 3 } } ) ) );
                case SUBM: return rc::gen::build< Op >( rc::gen::set( &Op::kind, rc::gen::just( k ) ), rc::gen::set( &Op::v, rc::gen::element< int >( 0, 1 ) ) );
                case WRITE:
                case PWRITE:
                    return rc::gen::build< Op >( rc::gen::set( &Op::kind, rc::gen::just( k ) ), rc::gen::set( &Op::data, gen_cp_value() ),
                        rc::gen::set( &Op::imm, rc::gen::weightedElement< int >( { { 2, 0 }, { 1, 1 } } ) ) );
                default: return rc::gen::build< Op >( rc::gen::set( &Op::kind, rc::gen::just( k ) ) );
                }
            } );
    }

    rc::Gen< Case > gen_case()
    {
        // most cases begin with enabling the indications, otherwise every write is refused for the CCCD
        return rc::gen::map( rc::gen::tuple( verif::range< int >( 0, static_cast< int >( configs().size() ) - 1 ), rc::gen::weightedElement< int >( { { 5, 1 }, { 1, 0 } } ),
                                 rc::gen::container< std::vector< Op > >( gen_op() ) ),
            []( const std::tuple< int, int, std::vector< Op > >& t ) {
                Case c;
                c.cfg = std::get< 0 >( t );
                if ( std::get< 1 >( t ) )
                {
                    Op s;
                    s.kind = SUB;
                    s.v    = 2;
                    c.ops.push_back( s );
                }
                c.ops.insert( c.ops.end(), std::get< 2 >( t ).begin(), std::get< 2 >( t ).end() );
                return c;
            } );
    }

    std::string to_text( const Case& c )
    {
        std::ostringstream os;
        os << "cfg " << c.cfg << "  # " << configs()[ c.cfg ].name << "\n";
        for ( auto& o : c.ops )
        {
            switch ( o.kind )
            {
            case SUB: os << "sub " << o.v << "\n"; break;
            case SUBM: os << "subm " << o.v << "\n"; break;
            case WRITE: os << "write " << verif::hex( o.data ) << ( o.imm ? " imm" : "" ) << "\n"; break;
            case PWRITE: os << "pwrite " << verif::hex( o.data ) << ( o.imm ? " imm" : "" ) << "\n"; break;
            case APPCONFIRM: os << "appconfirm\n"; break;
            case NOTIFY: os << "notify\n"; break;
            case POLL: os << "poll\n"; break;
            case CONF: os << "conf\n"; break;
            case READ: os << "read\n"; break;
            case RECONNECT: os << "reconnect\n"; break;
            }
        }
        return os.str();
    }

    Case from_text( const std::string& t )
    {
        Case         c;
        verif::Lines L( t );
        static const std::map< std::string, int > kinds = { { "sub", SUB }, { "subm", SUBM }, { "write", WRITE }, { "pwrite", PWRITE }, { "appconfirm", APPCONFIRM }, { "notify", NOTIFY },
            { "poll", POLL }, { "conf", CONF }, { "read", READ }, { "reconnect", RECONNECT } };
        for ( auto& l : L.lines )
        {
            if ( l[ 0 ] == "cfg" )
            {
                c.cfg = static_cast< int >( verif::tok_int( l, 1 ) ) % static_cast< int >( configs().size() );
                continue;
            }
            auto k = kinds.find( l[ 0 ] );
            if ( k == kinds.end() )
                continue;
            Op o;
            o.kind = k->second;
            if ( o.kind == SUB || o.kind == SUBM )
                o.v = static_cast< int >( verif::tok_int( l, 1 ) ) & 3;
            if ( o.kind == WRITE || o.kind == PWRITE )
            {
                o.data = verif::unhex( verif::tok_str( l, 1 ) );
                if ( o.data.size() > 18 )
                    o.data.resize( 18 );
                o.imm = verif::tok_str( l, 2 ) == "imm";
            }
            c.ops.push_back( o );
        }
        return c;
    }

    // ---------------------------------------------------------------- run
    enum tri { NO, YES, MAYBE };

    void run( const Case& c, verif::Report& rep )
    {
        const config& cf = configs()[ c.cfg ];
        on_set_cumulative = nullptr;
        imm_flag()        = false;
        auto srv          = cf.make();

        const bool exclude_f06  = verif::opt_has( "exclude", "F-06" );    // Read Request on the no_read_access control point reaches the read handler
        const bool exclude_f40b = verif::opt_has( "exclude", "F-40b" );   // a procedure pending at disconnect stays pending for the next connection
        const bool exclude_f07  = verif::opt_has( "exclude", "F-07" );    // Prepare Write runs the write handler as a permission probe (assert / null configuration)

        V_CHECK( srv->cp && srv->cp_cccd && srv->meas_cccd, "csc.setup", "control point / CCCD handles not found" );

        // model
        bool subscribed = false, meas_subscribed = false;
        tri  pending    = NO;      // a procedure has been accepted and its response indication has not been emitted yet
        int  opcode     = -1;      // request opcode of that procedure
        bool waits_app  = false;   // Set Cumulative Value accepted, the application has not confirmed yet
        tri  ind_queued = NO;      // the response indication has been requested from the link layer and not yet emitted
        tri  outstanding = NO;     // ATT: an indication has been sent and not confirmed (the next one has to wait)
        int  notif_queued = 0;     // 0/1: a measurement notification has been requested; it costs one poll (sent, or dropped when not subscribed)
        bool read_since_accept = false, refused_or_malformed_before = false, reconnected_while_pending = false;

        bool nt_malformed_then_ok = false, any_accept = false, any_busy_reject = false, any_malformed = false, any_cccd_reject = false, any_response = false, any_imm = false,
             any_deferred_confirm = false, any_pwrite = false, any_unknown_opcode = false, any_reconnect_pending = false, any_unsub_pending = false;

        auto well_formed = [&]( const std::vector< std::uint8_t >& v ) {
            if ( v.empty() )
                return false;
            switch ( v[ 0 ] )
            {
            case 1: return v.size() == 5;
            case 3: return v.size() == 2;
            case 4: return v.size() == 1;
            default: return true;   // unknown opcodes are answered "op code not supported" by a response indication
            }
        };

        auto is_error = []( const std::vector< std::uint8_t >& r, std::uint8_t req ) { return r.size() == 5 && r[ 0 ] == 0x01 && r[ 1 ] == req; };

        auto cccd_write = [&]( std::uint16_t handle, int v, std::size_t step ) {
            const auto r = srv->input( { 0x12, static_cast< std::uint8_t >( handle & 0xff ), static_cast< std::uint8_t >( handle >> 8 ), static_cast< std::uint8_t >( v ), 0x00 } );
            V_CHECK( r.size() == 1 && r[ 0 ] == 0x13, "csc.cccd-write", "step ", step, ": write of ", v, " to the CCCD ", handle, " answered ", verif::hex( r ) );
        };

        // outcome of a control point write, given whether the server accepted it
        auto judge_write = [&]( const Op& o, bool accepted, const std::vector< std::uint8_t >& resp, std::size_t step, const char* how ) {
            const bool wf = well_formed( o.data );
            const std::string ctx = verif::cat( "step ", step, " ", how, " ", verif::hex( o.data ), " -> ", verif::hex( resp ), " [", cf.name, "]: " );
            const std::string sig = verif::cat( "after_read=", read_since_accept ? 1 : 0, " after_refused_or_malformed=", refused_or_malformed_before ? 1 : 0, " wellformed=", wf ? 1 : 0,
                " pending=", pending == YES ? "yes" : pending == NO ? "no" : "maybe", " after_reconnect_while_pending=", reconnected_while_pending ? 1 : 0 );
            if ( !subscribed )
            {
                V_CHECK_SIG( !accepted, "csc.accepted-without-cccd", sig, ctx, "accepted although the indications of the control point are not enabled" );
                any_cccd_reject             = true;
                refused_or_malformed_before = true;
                return;
            }
            if ( o.data.empty() )
            {
                V_CHECK_SIG( !accepted, "csc.accepted-empty-write", sig, ctx, "a write without an opcode was accepted" );
                any_malformed               = true;
                refused_or_malformed_before = true;
                return;
            }
            if ( pending == YES )
            {
                V_CHECK_SIG( !accepted, "csc.accepted-while-pending", sig, ctx, "accepted although the procedure with opcode ", opcode, " still waits for its response indication",
                    read_since_accept ? " (a Read Request on the control point came in between)" : "" );
                any_busy_reject             = true;
                refused_or_malformed_before = true;
                return;
            }
            if ( !accepted )
            {
                // nothing is known to be pending: only a malformed write may be refused
                V_CHECK_SIG( !wf || pending == MAYBE, "csc.refused-while-idle", sig, ctx, "a well formed procedure was refused although no procedure is pending",
                    refused_or_malformed_before ? " (a refused or malformed write came before)" : "" );
                any_malformed               = any_malformed || !wf;
                refused_or_malformed_before = true;
                return;
            }
            // accepted: a new procedure is pending now
            if ( wf && refused_or_malformed_before )
                nt_malformed_then_ok = true;
            any_accept        = true;
            pending           = YES;
            opcode            = o.data[ 0 ];
            read_since_accept = false;
            if ( opcode != 1 && opcode != 3 && opcode != 4 )
                any_unknown_opcode = true;
            if ( opcode == 1 && wf )
            {
                // the application decides when the response goes out
                if ( o.imm )
                {
                    waits_app  = false;
                    ind_queued = YES;
                    any_imm    = true;
                }
                else
                {
                    waits_app  = true;
                    ind_queued = NO;
                }
            }
            else
            {
                waits_app  = false;
                ind_queued = YES;
            }
        };

        auto do_poll = [&]( std::size_t step, bool draining ) -> bool {
            const auto        out = srv->output();
            const std::string ctx = verif::cat( "step ", step, draining ? " drain" : " poll", " -> ", verif::hex( out ), " [", cf.name, "]: " );
            if ( out.empty() )
            {
                if ( notif_queued )
                {
                    notif_queued = 0;   // the poll went to a notification that was dropped
                    return false;
                }
                if ( ind_queued == YES && outstanding == NO && subscribed )
                    V_CHECK_SIG( false, "csc.response-missing", verif::cat( "opcode=", opcode ), ctx, "nothing to send although the response indication of the accepted procedure (opcode ",
                        opcode, ") is due" );
                notif_queued = 0;
                return false;
            }
            V_CHECK( out.size() >= 3, "csc.output", ctx, "short PDU" );
            const std::uint16_t h = static_cast< std::uint16_t >( out[ 1 ] | ( out[ 2 ] << 8 ) );
            if ( out[ 0 ] == 0x1b )
            {
                V_CHECK( h == srv->meas && meas_subscribed, "csc.output", ctx, "unexpected notification" );
                notif_queued = 0;
                return true;
            }
            V_CHECK( out[ 0 ] == 0x1d && h == srv->cp, "csc.output", ctx, "unexpected PDU" );
            V_CHECK_SIG( pending != NO && ind_queued != NO, "csc.spurious-response", verif::cat( "opcode=", opcode ), ctx, "control point indication although no accepted procedure waits for its response" );
            V_CHECK( outstanding != YES, "csc.output", ctx, "second indication before the confirmation of the first" );
            V_CHECK_SIG( out.size() >= 6 && out[ 3 ] == 0x10 && out[ 4 ] == opcode, "csc.response-opcode", verif::cat( "opcode=", opcode ), ctx, "the response is not `10 <request opcode ", opcode,
                "> <result>`" );
            any_response = true;
            pending      = NO;
            ind_queued   = NO;
            waits_app    = false;
            outstanding  = YES;
            opcode       = -1;
            return true;
        };

        on_set_cumulative = [&]( std::uint32_t ) {
            // the application may confirm from inside the callback
            if ( imm_flag() )
                srv->app_confirm();
        };

        for ( std::size_t step = 0; step != c.ops.size(); ++step )
        {
            const Op& o = c.ops[ step ];
            switch ( o.kind )
            {
            case SUB: {
                cccd_write( srv->cp_cccd, o.v, step );
                const bool now = ( o.v & 2 ) != 0;
                if ( subscribed && !now && pending != NO )
                {
                    // the response can not be delivered any more; whether the procedure still counts as pending is not
                    // specified (the client misbehaves): from here on both answers are accepted until a procedure is accepted
                    pending           = MAYBE;
                    ind_queued        = ind_queued == NO ? NO : MAYBE;
                    outstanding       = MAYBE;
                    any_unsub_pending = true;
                }
                subscribed = now;
            }
            break;
            case SUBM:
                cccd_write( srv->meas_cccd, o.v, step );
                meas_subscribed = ( o.v & 1 ) != 0;
                break;
            case WRITE: {
                std::vector< std::uint8_t > pdu = { 0x12, static_cast< std::uint8_t >( srv->cp & 0xff ), static_cast< std::uint8_t >( srv->cp >> 8 ) };
                pdu.insert( pdu.end(), o.data.begin(), o.data.end() );
                imm_flag()     = o.imm != 0;
                const auto r   = srv->input( pdu );
                imm_flag()     = false;
                const bool acc = r.size() == 1 && r[ 0 ] == 0x13;
                V_CHECK( acc || is_error( r, 0x12 ), "csc.write-response", "step ", step, " write ", verif::hex( o.data ), " answered ", verif::hex( r ) );
                judge_write( o, acc, r, step, "write" );
            }
            break;
            case PWRITE: {
                if ( !cf.queue )
                    break;
                if ( exclude_f07 )
                {
                    rep.excluded = true;
                    break;
                }
                any_pwrite = true;
                std::vector< std::uint8_t > pdu = { 0x16, static_cast< std::uint8_t >( srv->cp & 0xff ), static_cast< std::uint8_t >( srv->cp >> 8 ), 0x00, 0x00 };
                pdu.insert( pdu.end(), o.data.begin(), o.data.end() );
                const auto p = srv->input( pdu );
                if ( is_error( p, 0x16 ) )
                {
                    // refused before anything was queued: nothing may have changed
                    rep.label( "prepare-write-refused" );
                    break;
                }
                V_CHECK( p.size() == pdu.size() && p[ 0 ] == 0x17, "csc.write-response", "step ", step, " prepare write answered ", verif::hex( p ) );
                imm_flag()     = o.imm != 0;
                const auto r   = srv->input( { 0x18, 0x01 } );
                imm_flag()     = false;
                const bool acc = r.size() == 1 && r[ 0 ] == 0x19;
                V_CHECK( acc || is_error( r, 0x18 ), "csc.write-response", "step ", step, " execute write answered ", verif::hex( r ) );
                judge_write( o, acc, r, step, "prepare+execute write" );
            }
            break;
            case APPCONFIRM:
                if ( pending == YES && waits_app )
                {
                    srv->app_confirm();
                    waits_app            = false;
                    ind_queued           = YES;
                    any_deferred_confirm = true;
                }
                break;
            case NOTIFY:
                srv->app_notify();
                notif_queued = 1;
                break;
            case POLL: do_poll( step, false ); break;
            case CONF: {
                const auto r = srv->input( { 0x1e } );
                V_CHECK( r.empty(), "csc.output", "step ", step, ": confirmation answered ", verif::hex( r ) );
                outstanding = NO;
            }
            break;
            case READ: {
                if ( exclude_f06 )
                {
                    rep.excluded = true;
                    break;
                }
                srv->input( { 0x0a, static_cast< std::uint8_t >( srv->cp & 0xff ), static_cast< std::uint8_t >( srv->cp >> 8 ) } );
                if ( pending != NO )
                    read_since_accept = true;
            }
            break;
            case RECONNECT: {
                const bool was_pending = pending != NO;
                if ( was_pending && exclude_f40b )
                {
                    // F-40b excluded: finish the procedure before the link goes down
                    rep.excluded = true;
                    if ( waits_app )
                    {
                        srv->app_confirm();
                        waits_app  = false;
                        ind_queued = YES;
                    }
                    for ( int i = 0; i != 6 && pending == YES && subscribed; ++i )
                    {
                        if ( outstanding != NO )
                        {
                            srv->input( { 0x1e } );
                            outstanding = NO;
                        }
                        do_poll( step, true );
                    }
                }
                if ( pending != NO )
                    any_reconnect_pending = reconnected_while_pending = true;
                srv->reconnect();
                subscribed = meas_subscribed = false;
                // a procedure of the previous connection does not wait for anything any more
                pending     = ( pending != NO && exclude_f40b ) ? MAYBE : NO;
                ind_queued  = NO;
                waits_app   = false;
                outstanding = NO;
                notif_queued = 0;
                opcode      = pending == MAYBE ? opcode : -1;
            }
            break;
            }
        }

        // drain: every accepted procedure gets its response
        if ( pending == YES && subscribed )
        {
            if ( waits_app )
            {
                srv->app_confirm();
                waits_app  = false;
                ind_queued = YES;
            }
            for ( int i = 0; i != 8 && pending == YES; ++i )
            {
                if ( outstanding != NO )
                {
                    srv->input( { 0x1e } );
                    outstanding = NO;
                }
                do_poll( c.ops.size(), true );
            }
            V_CHECK_SIG( pending != YES, "csc.response-missing", verif::cat( "opcode=", opcode ), "drain [", cf.name, "]: the accepted procedure with opcode ", opcode, " never got its response indication" );
        }
        // and the control point is usable afterwards
        if ( subscribed && pending == NO )
        {
            const auto r = srv->input( { 0x12, static_cast< std::uint8_t >( srv->cp & 0xff ), static_cast< std::uint8_t >( srv->cp >> 8 ), 0x04 } );
            V_CHECK_SIG( r.size() == 1 && r[ 0 ] == 0x13, "csc.refused-while-idle",
                verif::cat( "after_read=0 after_refused_or_malformed=", refused_or_malformed_before ? 1 : 0, " wellformed=1 pending=no after_reconnect_while_pending=",
                    reconnected_while_pending ? 1 : 0 ),
                "final probe [", cf.name,
                "]: Request Supported Sensor Locations answered ", verif::hex( r ), " although no procedure is pending" );
        }
        on_set_cumulative = nullptr;

        rep.nontrivial = nt_malformed_then_ok;
        rep.label( cf.name );
        rep.label_if( any_accept, "procedure-accepted" );
        rep.label_if( any_response, "response-indication-seen" );
        rep.label_if( any_busy_reject, "write-while-pending-refused" );
        rep.label_if( any_malformed, "malformed-write" );
        rep.label_if( any_cccd_reject, "write-without-cccd-refused" );
        rep.label_if( any_imm, "set-cumulative-confirmed-inside-callback" );
        rep.label_if( any_deferred_confirm, "set-cumulative-confirmed-later" );
        rep.label_if( any_pwrite, "prepare+execute-write" );
        rep.label_if( any_unknown_opcode, "unknown-opcode-accepted" );
        rep.label_if( any_reconnect_pending, "reconnect-while-pending" );
        rep.label_if( any_unsub_pending, "unsubscribe-while-pending" );
        rep.label_if( read_since_accept, "read-request-while-pending" );
    }
}

// a sanitizer report must not look like an oracle failure (exit code 1) to the driver
extern "C" const char* __asan_default_options() { return "exitcode=86"; }

int main( int argc, char** argv )
{
    verif::Harness< Case > h;
    h.gen       = gen_case;
    h.to_text   = to_text;
    h.from_text = from_text;
    h.run       = run;
    return verif::run_main( argc, argv, h );
}
