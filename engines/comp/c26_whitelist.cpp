// C26: bluetoe::link_layer::white_list<N> against a bounded set model (DESIGN.md section 4, C26)
//
// Configurations (all instantiated in this TU, the index is part of the case):
//   sw  N=1..8   radio reports 0 hardware entries            -> software implementation
//   sw  N=5,8    radio reports 4 hardware entries (N > R)    -> still the software implementation, the radio must not be called
//   hw  N=1..8   radio reports exactly N entries             -> every call is forwarded to the radio
//   hw  N<R      radio reports more entries than N           -> forwarded; the capacity is the radio's
// The radio of the hw configurations is owned by the harness: in `set` mode it is a trivially correct set of capacity R
// with a call log, in `script` mode it returns the values the case prescribes (any bool / any size) so that "result passed
// through unchanged" is tested independently of set semantics.
// Oracle: std::set reference of capacity N (add true iff present or room; remove returns presence and removes exactly that
// element; free_size == N - |set|; filters accept iff filter off or member; filter properties read back what was set) and,
// for hw, the call log: exactly one radio call per white list call, the right function with the right argument.
#include "verif.hpp"

#include <bluetoe/white_list.hpp>
#include <bluetoe/address.hpp>

#include <memory>
#include <set>

namespace {

    using bluetoe::link_layer::device_address;

    // ---------------------------------------------------------------- address universe
    // 5 byte patterns x public/random; patterns differ in the last, the first, a middle byte only
    const std::uint8_t patterns[ 5 ][ 6 ] = {
        { 0x01, 0x02, 0x03, 0x04, 0x05, 0x06 },
        { 0x01, 0x02, 0x03, 0x04, 0x05, 0x07 },
        { 0x02, 0x02, 0x03, 0x04, 0x05, 0x06 },
        { 0x01, 0x02, 0x03, 0x05, 0x05, 0x06 },
        { 0xff, 0xff, 0xff, 0xff, 0xff, 0xff },
    };
    constexpr int universe = 10;

    device_address addr_of( int idx )
    {
        return device_address( patterns[ ( idx % universe ) / 2 ], ( idx % 2 ) == 1 );
    }

    // identity of an address as the harness sees it (bytes + type), independent of bluetoe's operator==
    int index_of( const device_address& a )
    {
        for ( int i = 0; i != universe; ++i )
        {
            if ( std::equal( a.begin(), a.end(), patterns[ i / 2 ] ) && a.is_random() == ( ( i % 2 ) == 1 ) )
                return i;
        }
        return -1;
    }

    std::string addr_name( int idx )
    {
        return verif::cat( "a", idx, "(", verif::hex( patterns[ ( idx % universe ) / 2 ], 6 ), idx % 2 ? ",random" : ",public", ")" );
    }

    // ---------------------------------------------------------------- operations
    enum fn_id { F_ADD, F_REMOVE, F_CLEAR, F_ISIN, F_FREE, F_SETCF, F_SETSF, F_GETCF, F_GETSF, F_CIN, F_SIN, F_AUDIT, F_COUNT };
    const char* const fn_names[] = { "add", "remove", "clear", "isin", "free", "cf", "sf", "getcf", "getsf", "cin", "sin", "audit" };

    struct call
    {
        int fn;
        int addr;   // universe index, -1 if the argument was none of the known addresses, -2 no address argument
        int b;      // bool argument, -1 none
        bool operator==( const call& o ) const { return fn == o.fn && addr == o.addr && b == o.b; }
    };

    std::string show( const call& c )
    {
        return verif::cat( "radio_", fn_names[ c.fn ], "(", c.addr >= 0 ? addr_name( c.addr ) : c.addr == -1 ? std::string( "<unknown address>" ) : std::string( "" ),
            c.b >= 0 ? ( c.b ? "true" : "false" ) : "", ")" );
    }

    // ---------------------------------------------------------------- harness radio
    struct radio_core
    {
        std::size_t                 capacity = 0;
        bool                        scripted = false;
        mutable unsigned            script   = 0;     // value the next call returns in script mode
        std::set< int >             members;
        bool                        cf = false, sf = false;
        mutable std::vector< call > log;

        bool     sbool() const { return ( script & 1 ) != 0; }

        std::size_t radio_white_list_free_size() const
        {
            log.push_back( { F_FREE, -2, -1 } );
            return scripted ? script : capacity - members.size();
        }
        void radio_clear_white_list()
        {
            log.push_back( { F_CLEAR, -2, -1 } );
            members.clear();
        }
        bool radio_add_to_white_list( const device_address& a )
        {
            const int i = index_of( a );
            log.push_back( { F_ADD, i, -1 } );
            if ( scripted )
                return sbool();
            if ( members.count( i ) )
                return true;
            if ( members.size() >= capacity )
                return false;
            members.insert( i );
            return true;
        }
        bool radio_remove_from_white_list( const device_address& a )
        {
            const int i = index_of( a );
            log.push_back( { F_REMOVE, i, -1 } );
            if ( scripted )
                return sbool();
            return members.erase( i ) != 0;
        }
        bool radio_is_in_white_list( const device_address& a ) const
        {
            const int i = index_of( a );
            log.push_back( { F_ISIN, i, -1 } );
            return scripted ? sbool() : members.count( i ) != 0;
        }
        void radio_connection_request_filter( bool b )
        {
            log.push_back( { F_SETCF, -2, b ? 1 : 0 } );
            cf = b;
        }
        bool radio_connection_request_filter() const
        {
            log.push_back( { F_GETCF, -2, -1 } );
            return scripted ? sbool() : cf;
        }
        void radio_scan_request_filter( bool b )
        {
            log.push_back( { F_SETSF, -2, b ? 1 : 0 } );
            sf = b;
        }
        bool radio_scan_request_filter() const
        {
            log.push_back( { F_GETSF, -2, -1 } );
            return scripted ? sbool() : sf;
        }
        bool radio_is_connection_request_in_filter( const device_address& a ) const
        {
            const int i = index_of( a );
            log.push_back( { F_CIN, i, -1 } );
            return scripted ? sbool() : ( !cf || members.count( i ) != 0 );
        }
        bool radio_is_scan_request_in_filter( const device_address& a ) const
        {
            const int i = index_of( a );
            log.push_back( { F_SIN, i, -1 } );
            return scripted ? sbool() : ( !sf || members.count( i ) != 0 );
        }
    };

    template < std::size_t R >
    struct fake_radio : radio_core
    {
        static constexpr std::size_t radio_maximum_white_list_entries = R;
        fake_radio() { capacity = R; }
    };

    template < std::size_t N, std::size_t R >
    struct link_layer_stub : fake_radio< R >, bluetoe::link_layer::white_list< N >::template impl< fake_radio< R >, link_layer_stub< N, R > >
    {
    };

    // ---------------------------------------------------------------- virtual interface over all instantiations
    struct wl_if
    {
        virtual ~wl_if() {}
        virtual bool        add( const device_address& )       = 0;
        virtual bool        remove( const device_address& )    = 0;
        virtual void        clear()                            = 0;
        virtual bool        isin( const device_address& )      = 0;
        virtual std::size_t free_size()                        = 0;
        virtual void        set_cf( bool )                     = 0;
        virtual void        set_sf( bool )                     = 0;
        virtual bool        get_cf()                           = 0;
        virtual bool        get_sf()                           = 0;
        virtual bool        cin( const device_address& )       = 0;
        virtual bool        sin( const device_address& )       = 0;
        virtual radio_core& radio()                            = 0;
    };

    template < std::size_t N, std::size_t R >
    struct wl_impl : wl_if
    {
        link_layer_stub< N, R > ll;

        bool        add( const device_address& a ) override { return ll.add_to_white_list( a ); }
        bool        remove( const device_address& a ) override { return ll.remove_from_white_list( a ); }
        void        clear() override { ll.clear_white_list(); }
        bool        isin( const device_address& a ) override { return const_cast< const link_layer_stub< N, R >& >( ll ).is_in_white_list( a ); }
        std::size_t free_size() override { return const_cast< const link_layer_stub< N, R >& >( ll ).white_list_free_size(); }
        void        set_cf( bool b ) override { ll.connection_request_filter( b ); }
        void        set_sf( bool b ) override { ll.scan_request_filter( b ); }
        bool        get_cf() override { return const_cast< const link_layer_stub< N, R >& >( ll ).connection_request_filter(); }
        bool        get_sf() override { return const_cast< const link_layer_stub< N, R >& >( ll ).scan_request_filter(); }
        bool        cin( const device_address& a ) override { return const_cast< const link_layer_stub< N, R >& >( ll ).is_connection_request_in_filter( a ); }
        bool        sin( const device_address& a ) override { return const_cast< const link_layer_stub< N, R >& >( ll ).is_scan_request_in_filter( a ); }
        radio_core& radio() override { return ll; }

        static_assert( bluetoe::link_layer::white_list< N >::maximum_white_list_entries == N, "" );
    };

    struct config
    {
        std::size_t                                 n, r;
        bool                                        hardware;   // what the documentation promises: hardware iff N <= R
        std::function< std::unique_ptr< wl_if >() > make;
    };

    template < std::size_t N, std::size_t R >
    config cfg()
    {
        return config{ N, R, N <= R && R != 0, [] { return std::unique_ptr< wl_if >( new wl_impl< N, R >() ); } };
    }

    const std::vector< config >& configs()
    {
        static const std::vector< config > c = {
            cfg< 1, 0 >(), cfg< 2, 0 >(), cfg< 3, 0 >(), cfg< 4, 0 >(), cfg< 5, 0 >(), cfg< 6, 0 >(), cfg< 7, 0 >(), cfg< 8, 0 >(),   // 0..7 software
            cfg< 5, 4 >(), cfg< 8, 4 >(),                                                                                             // 8,9  software although the radio has a (too small) list
            cfg< 1, 1 >(), cfg< 2, 2 >(), cfg< 3, 3 >(), cfg< 4, 4 >(), cfg< 5, 5 >(), cfg< 6, 6 >(), cfg< 7, 7 >(), cfg< 8, 8 >(),   // 10..17 hardware, R == N
            cfg< 2, 4 >(), cfg< 1, 8 >(),                                                                                             // 18,19 hardware, R > N
        };
        return c;
    }

    struct Op
    {
        int fn   = 0;
        int addr = 0;
        int b    = 0;
        int ret  = 0;   // script mode: what the radio answers
    };

    struct Case
    {
        int               cfg    = 0;
        int               script = 0;   // only meaningful for hardware configurations
        std::vector< Op > ops;
    };

    // ---------------------------------------------------------------- generators
    rc::Gen< Op > gen_op()
    {
        return rc::gen::build< Op >(
            rc::gen::set( &Op::fn, rc::gen::weightedElement< int >( { { 10, F_ADD }, { 6, F_REMOVE }, { 1, F_CLEAR }, { 5, F_ISIN }, { 3, F_FREE }, { 2, F_SETCF },
                              { 2, F_SETSF }, { 1, F_GETCF }, { 1, F_GETSF }, { 4, F_CIN }, { 4, F_SIN }, { 1, F_AUDIT } } ) ),
            rc::gen::set( &Op::addr, verif::range< int >( 0, universe - 1 ) ), rc::gen::set( &Op::b, verif::range< int >( 0, 1 ) ),
            rc::gen::set( &Op::ret, rc::gen::weightedOneOf< int >( { { 4, verif::range< int >( 0, 1 ) }, { 1, verif::range< int >( 0, 9 ) }, { 1, verif::range< int >( 0, 300 ) } } ) ) );
    }

    rc::Gen< Case > gen_case()
    {
        return rc::gen::build< Case >( rc::gen::set( &Case::cfg, verif::range< int >( 0, static_cast< int >( configs().size() ) - 1 ) ),
            rc::gen::set( &Case::script, rc::gen::weightedElement< int >( { { 3, 0 }, { 1, 1 } } ) ),
            rc::gen::set( &Case::ops, rc::gen::container< std::vector< Op > >( gen_op() ) ) );
    }

    bool takes_addr( int fn ) { return fn == F_ADD || fn == F_REMOVE || fn == F_ISIN || fn == F_CIN || fn == F_SIN; }
    bool takes_bool( int fn ) { return fn == F_SETCF || fn == F_SETSF; }
    bool has_result( int fn ) { return fn != F_CLEAR && fn != F_SETCF && fn != F_SETSF && fn != F_AUDIT; }

    std::string to_text( const Case& c )
    {
        const config&      cf = configs()[ c.cfg ];
        const bool         script = c.script && cf.hardware;
        std::ostringstream os;
        os << "cfg " << c.cfg << " " << ( script ? 1 : 0 ) << "  # white_list<" << cf.n << "> radio_maximum_white_list_entries=" << cf.r << " "
           << ( cf.hardware ? ( script ? "hardware/scripted-radio" : "hardware/set-radio" ) : "software" ) << "\n";
        for ( auto& o : c.ops )
        {
            os << fn_names[ o.fn ];
            if ( takes_addr( o.fn ) )
                os << " " << o.addr;
            if ( takes_bool( o.fn ) )
                os << " " << o.b;
            if ( script && has_result( o.fn ) )
                os << " ret " << ( o.fn == F_FREE ? o.ret : ( o.ret & 1 ) );
            os << "\n";
        }
        return os.str();
    }

    Case from_text( const std::string& t )
    {
        Case         c;
        verif::Lines L( t );
        for ( auto& l : L.lines )
        {
            if ( l[ 0 ] == "cfg" )
            {
                c.cfg    = static_cast< int >( verif::tok_int( l, 1 ) ) % static_cast< int >( configs().size() );
                c.script = static_cast< int >( verif::tok_int( l, 2 ) );
                continue;
            }
            Op o;
            o.fn = -1;
            for ( int f = 0; f != F_COUNT; ++f )
                if ( l[ 0 ] == fn_names[ f ] )
                    o.fn = f;
            if ( o.fn < 0 )
                continue;
            std::size_t i = 1;
            if ( takes_addr( o.fn ) )
                o.addr = static_cast< int >( verif::tok_int( l, i++ ) ) % universe;
            if ( takes_bool( o.fn ) )
                o.b = static_cast< int >( verif::tok_int( l, i++ ) ) & 1;
            if ( verif::tok_str( l, i ) == "ret" )
                o.ret = static_cast< int >( verif::tok_int( l, i + 1 ) );
            c.ops.push_back( o );
        }
        return c;
    }

    // ---------------------------------------------------------------- run
    void run( const Case& c, verif::Report& rep )
    {
        const config& cf     = configs()[ c.cfg ];
        const bool    script = c.script && cf.hardware;
        auto          wl     = cf.make();
        radio_core&   radio  = wl->radio();
        radio.scripted       = script;

        // reference: a set of at most `cap` addresses and two flags
        const std::size_t cap = cf.hardware ? cf.r : cf.n;
        std::set< int >   model;
        bool              cf_on = false, sf_on = false;

        // bookkeeping for the class labels only (position of the elements in insertion order with swap-with-last removal)
        std::vector< int > order;
        bool               removed_non_last = false, removed_non_last_then_query = false, was_full = false, add_refused = false, type_twin = false,
             filter_reject = false;

        const std::string where = verif::cat( "white_list<", cf.n, ">/radio=", cf.r, cf.hardware ? ( script ? "/hw-scripted" : "/hw" ) : "/sw" );

        auto expect_calls = [&]( std::size_t step, const std::vector< call >& expected, const char* what ) {
            if ( !cf.hardware )
            {
                V_CHECK( radio.log.empty(), "whitelist.software-calls-radio", where, " step ", step, " ", what, ": the software white list called ",
                    show( radio.log.front() ) );
                return;
            }
            std::string got;
            for ( auto& l : radio.log )
                got += show( l ) + " ";
            V_CHECK_SIG( radio.log == expected, "whitelist.forwarding", verif::cat( "fn=", what ), where, " step ", step, " ", what, ": expected exactly ",
                expected.empty() ? std::string( "no radio call" ) : show( expected.front() ), ", the radio saw: ", got.empty() ? std::string( "nothing" ) : got );
        };

        auto query_all = [&]( std::size_t step ) {
            // complete observation of the list
            for ( int a = 0; a != universe; ++a )
            {
                const bool member = model.count( a ) != 0;
                radio.log.clear();
                V_CHECK_SIG( wl->isin( addr_of( a ) ) == member, "whitelist.membership", "fn=audit", where, " step ", step, " audit: is_in_white_list(", addr_name( a ),
                    ") != ", member );
                V_CHECK_SIG( wl->cin( addr_of( a ) ) == ( !cf_on || member ), "whitelist.filter", "fn=audit", where, " step ", step,
                    " audit: is_connection_request_in_filter(", addr_name( a ), ") wrong; filter ", cf_on, " member ", member );
                V_CHECK_SIG( wl->sin( addr_of( a ) ) == ( !sf_on || member ), "whitelist.filter", "fn=audit", where, " step ", step,
                    " audit: is_scan_request_in_filter(", addr_name( a ), ") wrong; filter ", sf_on, " member ", member );
            }
            V_CHECK_SIG( wl->free_size() == cap - model.size(), "whitelist.free-size", "fn=audit", where, " step ", step, " audit: white_list_free_size() != ",
                cap - model.size() );
            V_CHECK( wl->get_cf() == cf_on && wl->get_sf() == sf_on, "whitelist.filter-property", where, " step ", step, " audit: filter properties do not read back" );
            radio.log.clear();
            if ( removed_non_last )
                removed_non_last_then_query = true;
        };

        for ( std::size_t step = 0; step != c.ops.size(); ++step )
        {
            const Op&            o = c.ops[ step ];
            const device_address a = addr_of( o.addr );
            const char* const    name = fn_names[ o.fn ];
            radio.log.clear();
            radio.script = o.fn == F_FREE ? static_cast< unsigned >( o.ret ) : static_cast< unsigned >( o.ret & 1 );
            const bool sret = ( o.ret & 1 ) != 0;

            if ( script )
            {
                // forwarding only: the radio's answer, whatever it is, is the white list's answer
                switch ( o.fn )
                {
                case F_ADD: V_CHECK_SIG( wl->add( a ) == sret, "whitelist.pass-through", "fn=add", where, " step ", step, " add: result of the radio not passed through" ); expect_calls( step, { { F_ADD, o.addr, -1 } }, name ); break;
                case F_REMOVE: V_CHECK_SIG( wl->remove( a ) == sret, "whitelist.pass-through", "fn=remove", where, " step ", step, " remove: result of the radio not passed through" ); expect_calls( step, { { F_REMOVE, o.addr, -1 } }, name ); break;
                case F_CLEAR: wl->clear(); expect_calls( step, { { F_CLEAR, -2, -1 } }, name ); break;
                case F_ISIN: V_CHECK_SIG( wl->isin( a ) == sret, "whitelist.pass-through", "fn=isin", where, " step ", step, " is_in: result of the radio not passed through" ); expect_calls( step, { { F_ISIN, o.addr, -1 } }, name ); break;
                case F_FREE: V_CHECK_SIG( wl->free_size() == static_cast< std::size_t >( o.ret ), "whitelist.pass-through", "fn=free", where, " step ", step, " free_size: result of the radio (", o.ret, ") not passed through" ); expect_calls( step, { { F_FREE, -2, -1 } }, name ); break;
                case F_SETCF: wl->set_cf( o.b != 0 ); expect_calls( step, { { F_SETCF, -2, o.b } }, name ); break;
                case F_SETSF: wl->set_sf( o.b != 0 ); expect_calls( step, { { F_SETSF, -2, o.b } }, name ); break;
                case F_GETCF: V_CHECK_SIG( wl->get_cf() == sret, "whitelist.pass-through", "fn=getcf", where, " step ", step, " connection_request_filter(): result of the radio not passed through" ); expect_calls( step, { { F_GETCF, -2, -1 } }, name ); break;
                case F_GETSF: V_CHECK_SIG( wl->get_sf() == sret, "whitelist.pass-through", "fn=getsf", where, " step ", step, " scan_request_filter(): result of the radio not passed through" ); expect_calls( step, { { F_GETSF, -2, -1 } }, name ); break;
                case F_CIN: V_CHECK_SIG( wl->cin( a ) == sret, "whitelist.pass-through", "fn=cin", where, " step ", step, " is_connection_request_in_filter: result of the radio not passed through" ); expect_calls( step, { { F_CIN, o.addr, -1 } }, name ); break;
                case F_SIN: V_CHECK_SIG( wl->sin( a ) == sret, "whitelist.pass-through", "fn=sin", where, " step ", step, " is_scan_request_in_filter: result of the radio not passed through" ); expect_calls( step, { { F_SIN, o.addr, -1 } }, name ); break;
                default: break;
                }
                continue;
            }

            switch ( o.fn )
            {
            case F_ADD: {
                const bool present  = model.count( o.addr ) != 0;
                const bool expected = present || model.size() < cap;
                const bool got      = wl->add( a );
                V_CHECK_SIG( got == expected, "whitelist.add-result", verif::cat( "present=", present, " full=", model.size() >= cap ), where, " step ", step, ": add(",
                    addr_name( o.addr ), ") returned ", got, "; ", present ? "already in the list" : "not in the list", ", ", model.size(), " of ", cap, " entries used" );
                expect_calls( step, { { F_ADD, o.addr, -1 } }, name );
                if ( !present && expected )
                {
                    model.insert( o.addr );
                    order.push_back( o.addr );
                }
                if ( !expected )
                    add_refused = true;
                if ( model.size() == cap )
                    was_full = true;
                if ( model.count( o.addr ^ 1 ) && model.count( o.addr ) )
                    type_twin = true;
            }
            break;
            case F_REMOVE: {
                const bool present = model.count( o.addr ) != 0;
                const bool got     = wl->remove( a );
                V_CHECK_SIG( got == present, "whitelist.remove-result", verif::cat( "present=", present ), where, " step ", step, ": remove(", addr_name( o.addr ),
                    ") returned ", got, " but the address was ", present ? "" : "not ", "in the list" );
                expect_calls( step, { { F_REMOVE, o.addr, -1 } }, name );
                if ( present )
                {
                    auto pos = std::find( order.begin(), order.end(), o.addr );
                    if ( pos + 1 != order.end() )
                        removed_non_last = true;
                    *pos = order.back();
                    order.pop_back();
                    model.erase( o.addr );
                }
            }
            break;
            case F_CLEAR:
                wl->clear();
                expect_calls( step, { { F_CLEAR, -2, -1 } }, name );
                model.clear();
                order.clear();
                break;
            case F_ISIN: {
                const bool member = model.count( o.addr ) != 0;
                const bool got    = wl->isin( a );
                V_CHECK_SIG( got == member, "whitelist.membership", verif::cat( "member=", member, " twin_member=", model.count( o.addr ^ 1 ) ), where, " step ", step,
                    ": is_in_white_list(", addr_name( o.addr ), ") returned ", got );
                expect_calls( step, { { F_ISIN, o.addr, -1 } }, name );
                if ( removed_non_last )
                    removed_non_last_then_query = true;
            }
            break;
            case F_FREE: {
                const std::size_t got = wl->free_size();
                V_CHECK_SIG( got == cap - model.size(), "whitelist.free-size", "fn=free", where, " step ", step, ": white_list_free_size() == ", got, " with ",
                    model.size(), " of ", cap, " entries used" );
                expect_calls( step, { { F_FREE, -2, -1 } }, name );
            }
            break;
            case F_SETCF:
                wl->set_cf( o.b != 0 );
                expect_calls( step, { { F_SETCF, -2, o.b } }, name );
                cf_on = o.b != 0;
                break;
            case F_SETSF:
                wl->set_sf( o.b != 0 );
                expect_calls( step, { { F_SETSF, -2, o.b } }, name );
                sf_on = o.b != 0;
                break;
            case F_GETCF:
                V_CHECK( wl->get_cf() == cf_on, "whitelist.filter-property", where, " step ", step, ": connection_request_filter() != ", cf_on );
                expect_calls( step, { { F_GETCF, -2, -1 } }, name );
                break;
            case F_GETSF:
                V_CHECK( wl->get_sf() == sf_on, "whitelist.filter-property", where, " step ", step, ": scan_request_filter() != ", sf_on );
                expect_calls( step, { { F_GETSF, -2, -1 } }, name );
                break;
            case F_CIN:
            case F_SIN: {
                const bool member   = model.count( o.addr ) != 0;
                const bool on       = o.fn == F_CIN ? cf_on : sf_on;
                const bool expected = !on || member;
                const bool got      = o.fn == F_CIN ? wl->cin( a ) : wl->sin( a );
                V_CHECK_SIG( got == expected, "whitelist.filter", verif::cat( "fn=", name, " filter=", on, " member=", member ), where, " step ", step, ": is_",
                    o.fn == F_CIN ? "connection" : "scan", "_request_in_filter(", addr_name( o.addr ), ") returned ", got, "; filter ", on ? "on" : "off", ", address ",
                    member ? "" : "not ", "in the list; the other filter is ", ( o.fn == F_CIN ? sf_on : cf_on ) ? "on" : "off" );
                expect_calls( step, { { o.fn, o.addr, -1 } }, name );
                if ( !expected )
                    filter_reject = true;
                if ( removed_non_last )
                    removed_non_last_then_query = true;
            }
            break;
            case F_AUDIT: query_all( step ); break;
            }
        }

        if ( !script )
            query_all( c.ops.size() );

        rep.nontrivial = script ? std::count_if( c.ops.begin(), c.ops.end(), []( const Op& o ) { return has_result( o.fn ); } ) >= 1 : ( removed_non_last_then_query || was_full );
        rep.label( cf.hardware ? ( script ? "hardware/scripted-radio" : ( cf.r > cf.n ? "hardware/set-radio R>N" : "hardware/set-radio R==N" ) )
                               : ( cf.r ? "software (radio list too small)" : "software" ) );
        rep.label( verif::cat( "N=", cf.n ) );
        rep.label_if( removed_non_last_then_query, "remove-non-last-then-query" );
        rep.label_if( was_full, "list-full" );
        rep.label_if( add_refused, "add-refused-when-full" );
        rep.label_if( type_twin, "public-and-random-twin-both-members" );
        rep.label_if( filter_reject, "filter-rejected-an-address" );
    }
}

// a sanitizer report must not look like an oracle failure (exit code 1) to the driver
extern "C" const char* __asan_default_options() { return "exitcode=86"; }

int main( int argc, char** argv )
{
    verif::Harness< Case > h;
    h.gen       = gen_case;
    h.to_text   = to_text;
    h.from_text = from_text;
    h.run       = run;
    return verif::run_main( argc, argv, h );
}
