// C20: bluetoe::link_layer::channel_map against Channel Selection Algorithm #1 written out from
// Core Vol 6 Part B 4.5.8.2 (DESIGN.md section 4, C20)
//
// Generated: a sequence of
//   reset2 <map> <hop>   channel_map::reset( map, hop )      (connection request)
//   reset1 <map>         channel_map::reset( map )           (channel map update, keeps the hop)
//   chan <counter>       data_channel( counter mod 37 ) for the connection event with that counter
//   sweep                data_channel( i ) for all 37 indices
// Oracle: the reference keeps the (map, hop) pair of the last *accepted* reset and evaluates CSA#1 literally by
// walking lastUnmappedChannel from 0 through all events up to the asked counter. A reset has to be accepted iff
// hop is in 5..16 and the map (bits 0..36) has at least two used channels; a rejected reset must not change
// anything that is observable later (sequence and hop stay in force).
#include "verif.hpp"

#include <bluetoe/channel_map.hpp>

#include <memory>

namespace {

    enum op_kind { RESET2, RESET1, CHAN, SWEEP };

    struct Op
    {
        int           kind    = 0;
        std::uint64_t map     = 0;   // 40 bit as transmitted (bits 37..39 are RFU)
        unsigned      hop     = 0;
        unsigned      counter = 0;
    };

    struct Case
    {
        std::vector< Op > ops;
    };

    // ---------------------------------------------------------------- generators
    rc::Gen< std::uint64_t > gen_map()
    {
        // popcount uniform over 0..37 (so that 0, 1, 2, 36 and 37 used channels are as likely as any other count),
        // a random subset of that size, random RFU bits
        auto by_popcount = rc::gen::map(
            rc::gen::pair( verif::range< int >( 0, 37 ), rc::gen::resize( 100, rc::gen::arbitrary< std::uint64_t >() ) ),
            []( const std::pair< int, std::uint64_t >& p ) {
                // partial Fisher-Yates over the 37 channels, driven by a xorshift sequence started from the generated word
                std::uint64_t x = p.second | 1;
                int           idx[ 37 ];
                for ( int i = 0; i != 37; ++i )
                    idx[ i ] = i;
                std::uint64_t m = 0;
                for ( int i = 0; i != p.first; ++i )
                {
                    x ^= x << 13;
                    x ^= x >> 7;
                    x ^= x << 17;
                    const int j = i + static_cast< int >( ( x >> 11 ) % static_cast< std::uint64_t >( 37 - i ) );
                    std::swap( idx[ i ], idx[ j ] );
                    m |= std::uint64_t( 1 ) << idx[ i ];
                }
                m |= ( ( p.second >> 3 ) & 7u ) << 37;
                return m;
            } );
        auto raw = rc::gen::map( rc::gen::resize( 100, rc::gen::arbitrary< std::uint64_t >() ), []( std::uint64_t v ) { return static_cast< std::uint64_t >( v & 0xffffffffffull ); } );
        auto few = rc::gen::map( rc::gen::pair( verif::range< int >( 0, 36 ), verif::range< int >( 0, 36 ) ),
            []( const std::pair< int, int >& p ) { return ( std::uint64_t( 1 ) << p.first ) | ( std::uint64_t( 1 ) << p.second ); } );
        return rc::gen::weightedOneOf< std::uint64_t >( { { 6, by_popcount }, { 2, raw }, { 1, few } } );
    }

    rc::Gen< unsigned > gen_hop()
    {
        return rc::gen::weightedOneOf< unsigned >( {
            { 12, verif::range< unsigned >( 5, 16 ) },
            { 2, verif::range< unsigned >( 0, 4 ) },
            { 2, verif::range< unsigned >( 17, 31 ) },
            { 1, rc::gen::element< unsigned >( 4u, 5u, 16u, 17u, 37u, 42u, 255u, 256u + 7u, 65536u + 9u, 0xffffffffu ) } } );
    }

    rc::Gen< unsigned > gen_counter()
    {
        return rc::gen::weightedOneOf< unsigned >( {
            { 4, verif::range< unsigned >( 0, 80 ) },
            { 3, verif::range< unsigned >( 0, 65535 ) },
            { 1, rc::gen::element< unsigned >( 0u, 36u, 37u, 38u, 73u, 74u, 65534u, 65535u ) } } );
    }

    rc::Gen< Op > gen_op()
    {
        return rc::gen::mapcat( rc::gen::weightedElement< int >( { { 4, RESET2 }, { 3, RESET1 }, { 8, CHAN }, { 2, SWEEP } } ), []( int k ) -> rc::Gen< Op > {
            switch ( k )
            {
            case RESET2:
                return rc::gen::build< Op >( rc::gen::set( &Op::kind, rc::gen::just( k ) ), rc::gen::set( &Op::map, gen_map() ), rc::gen::set( &Op::hop, gen_hop() ) );
            case RESET1:
                return rc::gen::build< Op >( rc::gen::set( &Op::kind, rc::gen::just( k ) ), rc::gen::set( &Op::map, gen_map() ) );
            case CHAN:
                return rc::gen::build< Op >( rc::gen::set( &Op::kind, rc::gen::just( k ) ), rc::gen::set( &Op::counter, gen_counter() ) );
            default:
                return rc::gen::build< Op >( rc::gen::set( &Op::kind, rc::gen::just( k ) ) );
            }
        } );
    }

    rc::Gen< Case > gen_case()
    {
        // a case starts with a reset2 (otherwise nothing can be asked), then anything
        return rc::gen::map(
            rc::gen::pair( rc::gen::build< Op >( rc::gen::set( &Op::kind, rc::gen::just< int >( RESET2 ) ), rc::gen::set( &Op::map, gen_map() ),
                               rc::gen::set( &Op::hop, gen_hop() ), rc::gen::set( &Op::counter, rc::gen::just( 0u ) ) ),
                rc::gen::container< std::vector< Op > >( gen_op() ) ),
            []( const std::pair< Op, std::vector< Op > >& p ) {
                Case c;
                c.ops.push_back( p.first );
                c.ops.insert( c.ops.end(), p.second.begin(), p.second.end() );
                return c;
            } );
    }

    // ---------------------------------------------------------------- text
    std::string map_hex( std::uint64_t m )
    {
        std::uint8_t b[ 5 ];
        for ( int i = 0; i != 5; ++i )
            b[ i ] = static_cast< std::uint8_t >( m >> ( 8 * i ) );
        return verif::hex( b, 5 );
    }

    std::uint64_t map_unhex( const std::string& s )
    {
        auto          v = verif::unhex( s );
        std::uint64_t m = 0;
        for ( std::size_t i = 0; i != v.size() && i != 5; ++i )
            m |= std::uint64_t( v[ i ] ) << ( 8 * i );
        return m;
    }

    int popcount37( std::uint64_t m )
    {
        int n = 0;
        for ( int i = 0; i != 37; ++i )
            n += ( m >> i ) & 1;
        return n;
    }

    std::string to_text( const Case& c )
    {
        std::ostringstream os;
        os << "param csa1\n";
        for ( auto& o : c.ops )
        {
            switch ( o.kind )
            {
            case RESET2: os << "reset2 " << map_hex( o.map ) << " " << o.hop << "  # used=" << popcount37( o.map ) << "\n"; break;
            case RESET1: os << "reset1 " << map_hex( o.map ) << "  # used=" << popcount37( o.map ) << "\n"; break;
            case CHAN: os << "chan " << o.counter << "\n"; break;
            case SWEEP: os << "sweep\n"; break;
            }
        }
        return os.str();
    }

    Case from_text( const std::string& t )
    {
        Case         c;
        verif::Lines L( t );
        for ( auto& l : L.lines )
        {
            Op o;
            if ( l[ 0 ] == "reset2" )
            {
                o.kind = RESET2;
                o.map  = map_unhex( verif::tok_str( l, 1 ) );
                o.hop  = static_cast< unsigned >( std::strtoul( verif::tok_str( l, 2, "0" ).c_str(), nullptr, 0 ) );
            }
            else if ( l[ 0 ] == "reset1" )
            {
                o.kind = RESET1;
                o.map  = map_unhex( verif::tok_str( l, 1 ) );
            }
            else if ( l[ 0 ] == "chan" )
            {
                o.kind    = CHAN;
                o.counter = static_cast< unsigned >( verif::tok_int( l, 1 ) ) & 0xffff;
            }
            else if ( l[ 0 ] == "sweep" )
                o.kind = SWEEP;
            else
                continue;
            c.ops.push_back( o );
        }
        return c;
    }

    // ---------------------------------------------------------------- reference (Core Vol 6 Part B 4.5.8.2)
    struct reference
    {
        bool          valid = false;
        std::uint64_t map   = 0;   // bits 0..36
        unsigned      hop   = 0;

        // channel of the connection event with the given counter (first event of a connection: counter 0)
        // returns { channel, was remapped }
        std::pair< unsigned, bool > channel( unsigned counter ) const
        {
            unsigned used[ 37 ];
            unsigned num_used = 0;
            for ( unsigned ch = 0; ch != 37; ++ch )     // "ascending order"
                if ( ( map >> ch ) & 1 )
                    used[ num_used++ ] = ch;

            // the unmapped channel of event n depends on the hop only: walk once per hop through all 65536 counters and
            // keep the result ("lastUnmappedChannel shall be 0 for the first connection event of a connection",
            // "unmappedChannel = (lastUnmappedChannel + hopIncrement) mod 37", lastUnmappedChannel := unmappedChannel)
            static std::vector< std::uint8_t > walk[ 17 ];
            std::vector< std::uint8_t >&       w = walk[ hop ];
            if ( w.empty() )
            {
                w.resize( 65536 );
                unsigned last_unmapped = 0;
                for ( unsigned ev = 0; ev != 65536; ++ev )
                {
                    const unsigned unmapped_channel = ( last_unmapped + hop ) % 37;
                    w[ ev ]       = static_cast< std::uint8_t >( unmapped_channel );
                    last_unmapped = unmapped_channel;
                }
            }
            const unsigned unmapped = w[ counter & 0xffff ];
            if ( ( map >> unmapped ) & 1 )
                return { unmapped, false };
            return { used[ unmapped % num_used ], true };
        }
    };

    const std::uint64_t mask37 = ( std::uint64_t( 1 ) << 37 ) - 1;

    void run( const Case& c, verif::Report& rep )
    {
        // exact-size heap objects: reads past the 5 byte map are ASan reports
        std::unique_ptr< bluetoe::link_layer::channel_map > cm( new bluetoe::link_layer::channel_map );
        reference                                             ref;

        bool checked_partial = false, rejected_hop = false, rejected_map = false, update_applied = false, remapped_hit = false,
             rejected_then_checked = false, rejected_since = false, ever_success = false;
        // F-20a: a reset( map, hop ) rejected for its map has been seen since the last accepted reset( map, hop ); the next
        // reset( map ) then shows which hop is in force
        bool       hop_tainted     = false, tainted_update = false;
        const bool exclude_f20a    = verif::opt_has( "exclude", "F-20a" );

        auto check_counter = [&]( unsigned counter, std::size_t step ) {
            const auto     exp = ref.channel( counter );
            const unsigned got = cm->data_channel( counter % 37 );
            V_CHECK_SIG( got == exp.first, "chanmap.csa1",
                verif::cat( "used=", popcount37( ref.map ), " remapped=", exp.second ? 1 : 0, " update_after_rejected_hop=", hop_tainted ? 1 : 0 ), "step ", step,
                ": connection event counter ", counter, " (index ", counter % 37, "): data_channel() == ", got, ", CSA#1 with map ", map_hex( ref.map ),
                " hop ", ref.hop, " gives ", exp.first, exp.second ? " (remapped)" : " (unmapped channel is used)",
                rejected_since ? "; a reset was rejected since the last accepted one" : "" );
            V_CHECK( got < 37 && ( ( ref.map >> got ) & 1 ), "chanmap.unused-channel", "step ", step, ": channel ", got, " is not a used channel of the map in force" );
            const int n = popcount37( ref.map );
            if ( n >= 2 && n <= 36 )
                checked_partial = true;
            if ( exp.second )
                remapped_hit = true;
            if ( rejected_since )
                rejected_then_checked = true;
        };

        for ( std::size_t step = 0; step != c.ops.size(); ++step )
        {
            const Op& o = c.ops[ step ];
            switch ( o.kind )
            {
            case RESET2:
            case RESET1: {
                if ( o.kind == RESET1 && !ever_success )
                    break;   // documented precondition of reset( map ): a reset( map, hop ) came first
                if ( o.kind == RESET1 && hop_tainted && exclude_f20a )
                {
                    rep.excluded = true;
                    break;
                }
                if ( o.kind == RESET1 && hop_tainted )
                    tainted_update = true;
                std::unique_ptr< std::uint8_t[] > bytes( new std::uint8_t[ 5 ] );
                for ( int i = 0; i != 5; ++i )
                    bytes[ i ] = static_cast< std::uint8_t >( o.map >> ( 8 * i ) );

                const unsigned hop      = o.kind == RESET2 ? o.hop : ref.hop;
                const int      used     = popcount37( o.map );
                const bool     hop_ok   = hop >= 5 && hop <= 16;
                const bool     expected = hop_ok && used >= 2;
                const bool     got      = o.kind == RESET2 ? cm->reset( bytes.get(), o.hop ) : cm->reset( bytes.get() );

                V_CHECK_SIG( got == expected, "chanmap.reset-result", verif::cat( "used=", used, " hop_ok=", hop_ok ? 1 : 0 ), "step ", step, ": reset( ",
                    map_hex( o.map ), o.kind == RESET2 ? verif::cat( ", ", o.hop ) : std::string( " [hop kept]" ), " ) returned ", got, " with ", used,
                    " used channels and hop ", hop );
                if ( expected )
                {
                    ref.valid = true;
                    ref.map   = o.map & mask37;
                    ref.hop   = hop;
                    ever_success   = true;
                    rejected_since = false;
                    if ( o.kind == RESET1 )
                        update_applied = true;
                    else
                        hop_tainted = false;
                }
                else
                {
                    if ( o.kind == RESET2 && hop_ok && hop != ref.hop )
                        hop_tainted = true;
                    if ( !hop_ok )
                        rejected_hop = true;
                    else
                        rejected_map = true;
                    rejected_since = true;
                }
                rep.label( used == 0 ? "map-used=0" : used == 1 ? "map-used=1" : used == 2 ? "map-used=2" : used == 36 ? "map-used=36" : used == 37 ? "map-used=37" : "map-used=3..35" );
            }
            break;
            case CHAN:
                if ( ref.valid )
                    check_counter( o.counter, step );
                break;
            case SWEEP:
                if ( ref.valid )
                    for ( unsigned i = 0; i != 37; ++i )
                        check_counter( i, step );
                break;
            }
        }

        // final sweep: whatever happened, the sequence in force is the one of the last accepted reset
        if ( ref.valid )
            for ( unsigned i = 0; i != 37; ++i )
                check_counter( i, c.ops.size() );

        rep.nontrivial = checked_partial;
        rep.label_if( rejected_hop, "reset-rejected-for-hop" );
        rep.label_if( rejected_map, "reset-rejected-for-map" );
        rep.label_if( rejected_then_checked, "sequence-checked-after-rejected-reset" );
        rep.label_if( update_applied, "map-update-applied(reset1)" );
        rep.label_if( remapped_hit, "remapped-channel-checked" );
        rep.label_if( !ref.valid, "no-accepted-reset" );
        rep.label_if( tainted_update, "map-update-after-map-rejected-reset2" );
    }
}

// a sanitizer report must not look like an oracle failure (exit code 1) to the driver
extern "C" const char* __asan_default_options() { return "exitcode=86"; }

int main( int argc, char** argv )
{
    verif::Harness< Case > h;
    h.gen       = gen_case;
    h.to_text   = to_text;
    h.from_text = from_text;
    h.run       = run;
    return verif::run_main( argc, argv, h );
}
