import hashlib as _hl, os as _os2

# the oracle lives in a header next to the harness; ./check only hashes the sources it compiles and lib/, so the
# content hash of the header is made part of the flags (and thereby of the build-cache key)
_c31_hdr = _os2.path.join(_os2.path.dirname(_os2.path.abspath(__file__)), 'engines', 'comp', 'c31_common.hpp')
_c31_key = _hl.sha256(open(_c31_hdr, 'rb').read()).hexdigest()[:16]

target('c31_l2cap', 'engines/comp/c31_l2cap.cpp',
       quick=dict(cases=60000, size=100), thorough=dict(cases=600000, size=140),
       extra_src=['$REPO/bluetoe/utility/address.cpp'],
       cxxflags=['-DC31_COMMON_HPP_SHA=0x' + _c31_key])
target('c31_l2cap_fuzz', 'engines/comp/c31_l2cap_fuzz.cpp', kind='fuzz',
       quick=dict(runs=60000, max_seconds=60), thorough=dict(runs=5000000, max_seconds=1200))
prop('C31', ['c31_l2cap', 'c31_l2cap_fuzz'], 'comp',
     rule='rapidcheck generates one of three stacks (l2cap<> over two stub channels and the real signaling_channel<>; l2cap<> over '
          'the real server, signalling channel and no / the legacy security manager with a toy toolbox) and a sequence of received '
          'frames (length field exact, +-1, 0, 0xFFFF, random; CIDs 4/5/6, unknown ones and ones that equal a known CID in one octet; '
          'signalling commands of every code, identifier and length field; ATT/SMP shaped payloads), responses whose identifier is '
          'derived at run time from the outstanding request (matching, never matching, absolute), connection_parameter_update_request() '
          'calls, output polls, output-buffer availability (0..6, with slack) and queued channel outputs; `cycle n` runs n complete '
          'request/response rounds (n up to 270, so the identifier wraps). A case is non-trivial if it contains a frame with a length '
          'or CID anomaly or a response that does not match the outstanding request; distinct = distinct serialised cases',
     technique='model-based property testing (rapidcheck; the same oracle under libFuzzer in engines/comp/c31_l2cap_fuzz.cpp): '
               'delivery / reply / buffer invariants over recording stub channels plus a reference model of the signalling entity',
     level_text='every frame is checked against the B-frame rules (delivered exactly once to the channel its CID names iff the length '
                'field matches, payload unchanged, offered size within the allocation, reply committed once with the same CID and its '
                'own length, nothing committed or delivered otherwise, not consumed without a buffer) and every signalling exchange '
                'against a reference model (request sent once with the queued parameters, refused while queued/outstanding, completed '
                'only by a response with the identifier of the request, identifiers non-zero and not reused within 254 requests, '
                'Command Reject echoing a non-zero identifier for other well-formed commands, nothing that carries identifier 0). '
                'With the real channels: no assert / sanitizer report, replies inside the exact-size heap buffer. Sampling, not proof.',
     level_note='trusted: the model in engines/comp/c31_common.hpp; the harness link layer follows the allocation contract of '
                'link_layer::allocate_l2cap_output_buffer (payload size + 4 octets); unexpected response-type commands may be '
                'ignored or rejected (the specification says discard, the suite pins a reject); fragmentation is C19',
     assumptions=COMMON_ASSUME)
