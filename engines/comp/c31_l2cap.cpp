// C31: L2CAP channel multiplexing and signalling (DESIGN.md section 4, C31) -- rapidcheck harness
//
// Generated: one of three stacks (stub channels around the real signalling channel; two stacks built from the real
// channels) and a sequence of received frames (length field exact / off by one / 0 / 0xFFFF / random; known, unknown and
// look-alike CIDs; signalling commands of every code with right and wrong identifiers and length fields; ATT and SMP
// shaped payloads), responses whose identifier is derived from the request that is outstanding at that moment,
// connection_parameter_update_request() calls, output polls, buffer availability changes and outputs queued in the stubs.
// Case description, stacks and oracle: c31_common.hpp (shared with the libFuzzer target c31_l2cap_fuzz.cpp).
#include "c31_common.hpp"

namespace {

    using namespace c31;
    using verif::range;

    template < class T >
    rc::Gen< T > weighted( std::initializer_list< std::pair< std::size_t, rc::Gen< T > > > l )
    {
        return rc::gen::weightedOneOf< T >( l );
    }

    rc::Gen< int > one_of_ints( std::initializer_list< int > l ) { return rc::gen::resize( 100, rc::gen::elementOf( std::vector< int >( l ) ) ); }

    rc::Gen< bytes_t > small_bytes( std::size_t lo, std::size_t hi )
    {
        // octets biased towards small values (handles, flags) with some arbitrary ones
        return rc::gen::mapcat( range< std::size_t >( lo, hi ), []( std::size_t n ) {
            return rc::gen::container< bytes_t >( n, rc::gen::map( weighted< int >( { { 6, range< int >( 0, 8 ) }, { 3, range< int >( 0, 255 ) } } ),
                                                        []( int v ) { return static_cast< std::uint8_t >( v ); } ) );
        } );
    }

    // the length field of a C-frame or of a B-frame for a body of n octets
    rc::Gen< int > length_field( std::size_t n )
    {
        const int e = static_cast< int >( n );
        return weighted< int >( { { 70, rc::gen::just( e ) }, { 8, rc::gen::just( e + 1 ) }, { 8, rc::gen::just( std::max( 0, e - 1 ) ) },
            { 5, rc::gen::just( 0 ) }, { 4, rc::gen::just( 0xffff ) }, { 5, range< int >( 0, 0xffff ) } } );
    }

    rc::Gen< bytes_t > gen_sig_command()
    {
        return rc::gen::exec( [] {
            const int code = *weighted< int >( { { 30, rc::gen::just( 0x13 ) }, { 10, rc::gen::just( 0x12 ) }, { 8, rc::gen::just( 0x01 ) },
                { 40, range< int >( 0, 0x20 ) }, { 12, range< int >( 0, 255 ) } } );
            const int id   = *weighted< int >( { { 15, rc::gen::just( 0 ) }, { 45, range< int >( 1, 4 ) }, { 5, rc::gen::just( 255 ) }, { 35, range< int >( 0, 255 ) } } );
            const bytes_t data = code == 0x13 ? *weighted< bytes_t >( { { 70, small_bytes( 2, 2 ) }, { 30, small_bytes( 0, 12 ) } } ) : *small_bytes( 0, 20 );
            const int     lf   = *length_field( data.size() );
            bytes_t       p    = { static_cast< std::uint8_t >( code ), static_cast< std::uint8_t >( id ), static_cast< std::uint8_t >( lf ),
                static_cast< std::uint8_t >( lf >> 8 ) };
            p.insert( p.end(), data.begin(), data.end() );
            const int cut = *weighted< int >( { { 88, rc::gen::just( -1 ) }, { 12, range< int >( 0, 3 ) } } );
            if ( cut >= 0 )
                p.resize( static_cast< std::size_t >( cut ) );
            return p;
        } );
    }

    rc::Gen< bytes_t > gen_att_payload()
    {
        return rc::gen::exec( [] {
            const int op = *one_of_ints( { 0x02, 0x04, 0x06, 0x08, 0x0a, 0x0c, 0x0e, 0x10, 0x12, 0x52, 0x16, 0x18, 0x1e, 0x01, 0xd2, 0x1b, 0x65 } );
            bytes_t   p  = { static_cast< std::uint8_t >( op ) };
            bytes_t   r;
            switch ( op )
            {
            case 0x02: r = *weighted< bytes_t >( { { 3, rc::gen::just( bytes_t{ 65, 0 } ) }, { 3, small_bytes( 2, 2 ) }, { 1, small_bytes( 0, 4 ) } } ); break;
            case 0x12: case 0x52:  // writes: CCCD subscription in most cases
                r = *weighted< bytes_t >( { { 4, rc::gen::just( bytes_t{ 4, 0, 1, 0 } ) }, { 2, rc::gen::just( bytes_t{ 3, 0, 1, 2, 3, 4 } ) }, { 3, small_bytes( 0, 10 ) } } );
                break;
            default: r = *small_bytes( 0, 10 );
            }
            p.insert( p.end(), r.begin(), r.end() );
            return p;
        } );
    }

    rc::Gen< bytes_t > gen_smp_payload()
    {
        return rc::gen::exec( [] {
            const int op = *range< int >( 0, 0x0f );
            static const int sizes[ 16 ] = { 1, 7, 7, 17, 17, 2, 17, 11, 17, 8, 17, 2, 65, 17, 2, 3 };
            const std::size_t n = static_cast< std::size_t >( sizes[ op ] - 1 );
            bytes_t           p = { static_cast< std::uint8_t >( op ) };
            bytes_t           r = *weighted< bytes_t >( { { 7, small_bytes( n, n ) }, { 3, small_bytes( 0, 20 ) } } );
            if ( op == 1 && r.size() == 6 && *range< int >( 0, 3 ) != 0 )
                r = { 3, 0, 0, 16, 0, 0 };  // a pairing request the legacy manager accepts
            p.insert( p.end(), r.begin(), r.end() );
            return p;
        } );
    }

    rc::Gen< Op > gen_frame()
    {
        return rc::gen::exec( [] {
            const int cid = *weighted< int >( { { 22, rc::gen::just( 4 ) }, { 40, rc::gen::just( 5 ) }, { 15, rc::gen::just( 6 ) },
                { 9, one_of_ints( { 0, 1, 2, 3, 7, 0x40, 0xffff } ) }, { 8, one_of_ints( { 0x0104, 0x0105, 0x0106, 0x0400, 0x0500, 0x0600, 0xff05 } ) },
                { 6, range< int >( 0, 0xffff ) } } );
            bytes_t payload;
            switch ( cid & 0xff )
            {
            case 5: payload = *gen_sig_command(); break;
            case 4: payload = *weighted< bytes_t >( { { 6, gen_att_payload() }, { 2, small_bytes( 0, 70 ) }, { 1, rc::gen::just( bytes_t() ) } } ); break;
            case 6: payload = *weighted< bytes_t >( { { 6, gen_smp_payload() }, { 2, small_bytes( 0, 70 ) }, { 1, rc::gen::just( bytes_t() ) } } ); break;
            default: payload = *small_bytes( 0, 30 );
            }
            const int lf = *length_field( payload.size() );
            Op        o;
            o.kind  = FRAME;
            o.bytes = { static_cast< std::uint8_t >( lf ), static_cast< std::uint8_t >( lf >> 8 ), static_cast< std::uint8_t >( cid ),
                static_cast< std::uint8_t >( cid >> 8 ) };
            o.bytes.insert( o.bytes.end(), payload.begin(), payload.end() );
            const int cut = *weighted< int >( { { 96, rc::gen::just( -1 ) }, { 4, range< int >( 0, 3 ) } } );
            if ( cut >= 0 )
                o.bytes.resize( static_cast< std::size_t >( cut ) );
            o.a = *weighted< int >( { { 20, rc::gen::just( 0 ) }, { 50, range< int >( 1, 12 ) }, { 15, range< int >( 13, 39 ) }, { 15, range< int >( 40, 60 ) } } );
            o.b = *range< int >( 0, 255 );
            return o;
        } );
    }

    rc::Gen< Op > gen_resp()
    {
        return rc::gen::exec( [] {
            Op o;
            o.kind  = RESP;
            o.a     = *weighted< int >( { { 50, rc::gen::just( 0 ) }, { 30, rc::gen::just( 1 ) }, { 20, rc::gen::just( 2 ) } } );
            o.b     = o.a == 1 ? *weighted< int >( { { 50, one_of_ints( { 0, 254, 127 } ) }, { 50, range< int >( 0, 254 ) } } ) : *range< int >( 0, 255 );
            o.bytes = *weighted< bytes_t >( { { 70, rc::gen::map( small_bytes( 2, 2 ), []( bytes_t r ) { return bytes_t{ 2, 0, r[ 0 ], r[ 1 ] }; } ) },
                { 8, rc::gen::just( bytes_t() ) }, { 12, small_bytes( 0, 8 ) },
                { 10, rc::gen::map( small_bytes( 2, 2 ), []( bytes_t r ) { return bytes_t{ 3, 0, r[ 0 ], r[ 1 ] }; } ) } } );
            return o;
        } );
    }

    Op make( int kind, int a = 0, int b = 0, int c = 0, int d = 0 )
    {
        Op o;
        o.kind = kind;
        o.a    = a;
        o.b    = b;
        o.c    = c;
        o.d    = d;
        return o;
    }

    rc::Gen< Op > gen_op()
    {
        auto bufs  = rc::gen::exec( [] {
            return make( BUFS, *weighted< int >( { { 25, rc::gen::just( 0 ) }, { 35, rc::gen::just( 1 ) }, { 20, rc::gen::just( 2 ) }, { 20, range< int >( 3, 6 ) } } ),
                *weighted< int >( { { 60, rc::gen::just( 0 ) }, { 40, range< int >( 1, 9 ) } } ) );
        } );
        auto qout  = rc::gen::exec( [] { return make( QOUT, *range< int >( 0, 1 ), *range< int >( 1, 48 ), *range< int >( 0, 255 ) ); } );
        auto cpu   = rc::gen::exec( [] { return make( CPU, *range< int >( 0, 0xffff ), *range< int >( 0, 0xffff ), *range< int >( 0, 0xffff ), *range< int >( 0, 0xffff ) ); } );
        auto cycle = rc::gen::exec( [] { return make( CYCLE, *weighted< int >( { { 96, range< int >( 1, 5 ) }, { 4, range< int >( 250, 270 ) } } ) ); } );
        return weighted< Op >( { { 42, gen_frame() }, { 13, gen_resp() }, { 10, bufs }, { 13, rc::gen::just( make( POLL ) ) }, { 7, qout }, { 13, cpu }, { 2, cycle } } );
    }

    rc::Gen< Case > gen_case()
    {
        return rc::gen::build< Case >(
            rc::gen::set( &Case::setup, weighted< int >( { { 60, rc::gen::just( 0 ) }, { 20, rc::gen::just( 1 ) }, { 20, rc::gen::just( 2 ) } } ) ),
            rc::gen::set( &Case::init_bufs, weighted< int >( { { 10, rc::gen::just( 0 ) }, { 50, rc::gen::just( 1 ) }, { 25, rc::gen::just( 2 ) }, { 15, range< int >( 3, 6 ) } } ) ),
            rc::gen::set( &Case::init_slack, weighted< int >( { { 60, rc::gen::just( 0 ) }, { 40, range< int >( 1, 9 ) } } ) ),
            rc::gen::set( &Case::ops, rc::gen::container< std::vector< Op > >( gen_op() ) ) );
    }

    void run_case( const Case& c, verif::Report& rep )
    {
        exclusions ex;
        ex.f31  = verif::opt_has( "exclude", "F-31" );
        ex.f31b = verif::opt_has( "exclude", "F-31b" );
        c31::run( c, rep, ex );
    }
}

// many short lived exact-size heap blocks per case: a small quarantine keeps the allocator out of the kernel (3x faster);
// options given in ASAN_OPTIONS by the driver still apply
extern "C" const char* __asan_default_options() { return "quarantine_size_mb=4"; }

int main( int argc, char** argv )
{
    verif::Harness< Case > h;
    h.gen       = gen_case;
    h.to_text   = c31::to_text;
    h.from_text = c31::from_text;
    h.run       = run_case;
    return verif::run_main( argc, argv, h );
}
