_C15_NRF_INC = ['-I' + _os.path.join(_os.path.dirname(_os.path.abspath(__file__)), 'engines', 'comp', 'nrf_stub'),
                '-I$REPO/bluetoe/bindings/nordic/include']

target('c15_llbuf', 'engines/comp/c15_llbuf.cpp', inc=_C15_NRF_INC,
       quick=dict(cases=600000, size=150), thorough=dict(cases=4000000, size=250))

_C15_GEN = ('rapidcheck picks one of 16 instantiated ll_data_pdu_buffer< Tx, Rx > (29/29 ... 300/520, default layout and the real nRF '
            'encrypted layout) and a history of link layer operations (commit in one or two steps with exact or maximum allocation, '
            'next_received/free_received, max_rx/max_tx changes, reset) and connection events (new central PDU: empty / data with LLID '
            '0..3 and length up to max_rx_size-2; faults: central PDU lost, CRC error, MIC failure, reply lost; a central PDU that is not '
            'acknowledged is retransmitted); history length grows with the rapidcheck size; ')
_C15_LEVEL_NOTE = ('trusted: the SN/NESN reference central and the peripheral obligations in engines/comp/c15_llbuf.cpp (written from Core Vol 6 '
                   'Part B 4.5.9); the harness is the radio and follows the call contract of the nRF52 binding; the reception dead lock of an '
                   'empty receive ring that cannot allocate (DESIGN.md C18) is labelled, not reported')

prop('C15', ['c15_llbuf'], 'comp',
     rule=_C15_GEN + 'non-trivial: the history has a loss or retransmission in both directions, or an event that finds the receive buffer full; '
          'distinct = distinct serialised cases',
     technique='model-based property testing (rapidcheck): ll_data_pdu_buffer between a reference central and a reference link layer',
     level_text='after every connection event the transmitted PDU is compared with the obligations of the acknowledgement scheme (NESN advances '
                'exactly for new PDUs stored in a receive buffer, unacknowledged PDU repeated unchanged, next PDU is the next committed one or '
                'empty), next_received() must yield exactly the acknowledged new PDUs in order, pending_outgoing_data_available() tracks '
                'unacknowledged commits; a fault-free drain proves nothing is lost. Sampling, not proof.',
     level_note=_C15_LEVEL_NOTE, assumptions=COMMON_ASSUME)
prop('C16', ['c15_llbuf'], 'comp',
     rule=_C15_GEN + 'non-trivial: a data PDU was retransmitted and in one direction an empty PDU was sent between two data PDUs; '
          'distinct = distinct serialised cases',
     technique='model-based property testing (rapidcheck): packet counter callbacks of ll_data_pdu_buffer against a reference central',
     level_text='the numbers of increment_receive_packet_counter / increment_transmit_packet_counter calls are compared after every step with '
                'the number of new non-empty PDUs received resp. of acknowledged committed PDUs counted by the reference model, under loss, CRC '
                'errors, MIC failures on retransmissions, full buffers and empty PDUs. Sampling, not proof.',
     level_note=_C15_LEVEL_NOTE + '; only the callback discipline is decided, nrf52.cpp (counter::increment, CCM nonce) cannot run on the host',
     assumptions=COMMON_ASSUME)
prop('C17', ['c15_llbuf'], 'comp',
     rule=_C15_GEN + 'MIC failures are generated on new PDUs and on retransmissions; non-trivial: a MIC failure on a new non-empty PDU; '
          'distinct = distinct serialised cases',
     technique='model-based property testing (rapidcheck): acknowledge(read_buffer) of ll_data_pdu_buffer against a reference central',
     level_text='after a MIC failure the NESN sent by the peripheral, the received queue and the receive counter must be unchanged, for new PDUs '
                'and for retransmissions; honouring the acknowledgement carried by that PDU is accepted either way; the central then retransmits '
                'and the payload must be delivered exactly once. Sampling, not proof.',
     level_note=_C15_LEVEL_NOTE + '; the radio ISR of nrf52.hpp that decides between received() and acknowledge() is not executed',
     assumptions=COMMON_ASSUME)
