// C13: notification requests from another context are neither lost nor duplicated while the link layer dequeues
// (DESIGN.md section 4, C13; hook 1)
//
// Generated: a priority partition (instantiated compositions), a start state (sequential `pre` operations), a PRODUCER
// program of queue_notification / queue_indication calls (what server::notify()/indicate() do through the link layer's
// queue_lcap_notification), a CONSUMER program of dequeue_indication_or_confirmation / indication_confirmed calls (what
// the link layer does from the radio context) and a SCHEDULE that lib/sched.hpp applies at every yield point. Hook 1
// puts a yield point immediately before every load and every store of queue memory the two sides share, so the
// schedule decides the interleaving at single-memory-access granularity. Two models: free interleaving of the two
// contexts, and interrupt nesting (one side runs whole operations inside a yield point of the other) in both directions.
//
// Oracle (independent of the queue's algorithm): the observed history - every operation with its result and its
// [begin,end] interval in the global event order, followed by a sequential drain of the queue - must be linearizable
// with respect to the documented sequential behaviour of notification_queue reduced to what C13 states:
//    queue_x(i)  returns true iff (i,x) is not pending; afterwards (i,x) is pending
//    dequeue     returns some pending request (an indication only if no confirmation is outstanding) and removes it,
//                or `empty` only if no such request is pending            (no priority / fairness order: that is C12)
//    confirmed   no confirmation is outstanding any more
// A request that returned true and is never dequeued (lost), a request dequeued twice or dequeued although it was
// refused as "already pending" and that pending one was served (duplicated), `false` returned although the request was
// not pending at any instant of the call, `empty` returned although a request was pending during the whole call: none of
// these histories is linearizable.
//
// Known finding F-13 (race=rmw-same-byte): within ONE operation a context loads a queue byte and later stores that
// byte, and the other context stores the same byte in between (the byte wide read-modify-write of add()/remove() is
// not atomic). `--opt exclude=F-13` removes that shape from the executed schedules by construction (the preemption
// that let the foreign store in is dropped, the case counts as excluded); everything else is still explored.
//
// Target c13_race_dfs (opt mode=dfs) enumerates complete schedule trees depth first instead of sampling them.
#include "verif.hpp"
#include "sched.hpp"
#include "sched_dfs.hpp"

#define BLUETOE_VERIF_YIELD( kind_, address_ ) ::verif::sched::Sched::get().access( kind_, address_ )
#include <bluetoe/notification_queue.hpp>

#ifndef BLUETOE_VERIF_HOOKS
#error "the driver compiles every harness with -DBLUETOE_VERIF_HOOKS"
#endif

namespace {
    using verif::sched::Sched;
    using entry = bluetoe::details::notification_queue_entry_type;

    struct empty_mixin
    {
    };

    struct queue_if
    {
        virtual ~queue_if() {}
        virtual bool                            queue_notification( std::size_t ) = 0;
        virtual bool                            queue_indication( std::size_t )   = 0;
        virtual std::pair< entry, std::size_t > dequeue()                         = 0;
        virtual void                            confirmed()                       = 0;
        virtual void                            clear()                           = 0;
        virtual void                            reset()                           = 0;  // constructed again in place
        virtual const void*                     object() const                    = 0;
    };

    template < int... Sizes >
    struct queue_impl : queue_if
    {
        using queue_t = bluetoe::notification_queue< std::tuple< std::integral_constant< int, Sizes >... >, empty_mixin >;
        queue_t q;

        bool                            queue_notification( std::size_t i ) override { return q.queue_notification( i ); }
        bool                            queue_indication( std::size_t i ) override { return q.queue_indication( i ); }
        std::pair< entry, std::size_t > dequeue() override { return q.dequeue_indication_or_confirmation(); }
        void                            confirmed() override { q.indication_confirmed(); }
        void                            clear() override { q.clear_indications_and_confirmations(); }
        void                            reset() override
        {
            q.~queue_t();
            new ( &q ) queue_t();
        }
        const void* object() const override { return &q; }
    };

    struct config
    {
        std::vector< int > sizes;
        int                total;
        queue_if*          q;
    };

    template < int... Sizes >
    config cfg()
    {
        static queue_impl< Sizes... > instance;
        std::vector< int >            s = { Sizes... };
        int                           t = 0;
        for ( int x : s )
            t += x;
        return config{ s, t, &instance };
    }

    const std::vector< config >& configs()
    {
        // <5> and <9>: characteristics of one level spread over two / three queue bytes; <4,4> etc.: one byte per level;
        // levels of size 1 use the two-bool specialisation
        static const std::vector< config > c = {
            cfg< 1 >(), cfg< 2 >(), cfg< 4 >(), cfg< 5 >(), cfg< 9 >(),
            cfg< 1, 1 >(), cfg< 1, 2 >(), cfg< 2, 1 >(), cfg< 4, 4 >(), cfg< 1, 4 >(), cfg< 5, 1 >(),
            cfg< 1, 1, 1 >(), cfg< 2, 1, 3 >(),
        };
        return c;
    }

    enum op_kind { Q_NOT, Q_IND, DEQ, CONF, CLEAR };
    const char* const op_names[] = { "qn", "qi", "deq", "conf", "clear" };

    struct Op
    {
        int kind;
        int idx;  // taken modulo the number of characteristics
    };

    struct Case
    {
        int                         cfg   = 0;
        int                         model = 0;  // 0 free, 1 nest
        int                         first = 0;  // free: context that starts; nest: the interrupted context (0 producer, 1 consumer)
        std::vector< Op >           pre;        // sequential start-up
        std::vector< Op >           prod;       // qn / qi
        std::vector< Op >           cons;       // deq / conf
        std::vector< std::uint8_t > sched;
        int                         dfs   = 0;  // 1: enumerate every schedule of this program pair
        int                         bound = -1;
    };

    // ------------------------------------------------------------------------------------------ serialisation
    std::string to_text( const Case& c )
    {
        std::ostringstream os;
        os << "cfg " << c.cfg << " model " << ( c.model ? "nest" : "free" ) << " first " << ( c.first ? "consumer" : "producer" );
        if ( c.dfs )
            os << " dfs " << c.dfs << " bound " << c.bound;
        os << "  # sizes";
        for ( int s : configs()[ c.cfg ].sizes )
            os << " " << s;
        os << "\n";
        for ( auto& o : c.pre )
            os << "pre " << op_names[ o.kind ] << " " << o.idx << "\n";
        for ( auto& o : c.prod )
            os << "p " << op_names[ o.kind ] << " " << o.idx << "\n";
        for ( auto& o : c.cons )
            os << "c " << op_names[ o.kind ] << " " << o.idx << "\n";
        if ( !c.dfs )
        {
            os << "sched";
            for ( auto v : c.sched )
                os << ' ' << int( v );
            os << "\n";
        }
        return os.str();
    }

    bool parse_op( const std::vector< std::string >& l, Op& o )
    {
        if ( l.size() < 2 )
            return false;
        for ( int k = 0; k != 5; ++k )
            if ( l[ 1 ] == op_names[ k ] )
            {
                o.kind = k;
                o.idx  = static_cast< int >( verif::tok_int( l, 2 ) );
                if ( o.idx < 0 )
                    o.idx = -o.idx;
                return true;
            }
        return false;
    }

    Case from_text( const std::string& t )
    {
        Case         c;
        verif::Lines L( t );
        for ( auto& l : L.lines )
        {
            Op o{ 0, 0 };
            if ( l[ 0 ] == "cfg" )
            {
                c.cfg = static_cast< int >( verif::tok_int( l, 1 ) );
                for ( std::size_t i = 2; i + 1 < l.size() && l[ i ][ 0 ] != '#'; i += 2 )
                {
                    const std::string& k = l[ i ];
                    const std::string& v = l[ i + 1 ];
                    if ( k == "model" ) c.model = v == "nest";
                    else if ( k == "first" ) c.first = v == "consumer";
                    else if ( k == "dfs" ) c.dfs = std::atoi( v.c_str() );
                    else if ( k == "bound" ) c.bound = std::atoi( v.c_str() );
                }
            }
            else if ( l[ 0 ] == "pre" && parse_op( l, o ) ) c.pre.push_back( o );
            else if ( l[ 0 ] == "p" && parse_op( l, o ) && ( o.kind == Q_NOT || o.kind == Q_IND ) ) c.prod.push_back( o );
            else if ( l[ 0 ] == "c" && parse_op( l, o ) && ( o.kind == DEQ || o.kind == CONF ) ) c.cons.push_back( o );
            else if ( l[ 0 ] == "sched" )
                for ( std::size_t i = 1; i < l.size(); ++i )
                    c.sched.push_back( static_cast< std::uint8_t >( std::atoi( l[ i ].c_str() ) ) );
        }
        c.cfg = std::max( 0, std::min( static_cast< int >( configs().size() ) - 1, c.cfg ) );
        if ( c.prod.size() > 6 ) c.prod.resize( 6 );
        if ( c.cons.size() > 6 ) c.cons.resize( 6 );
        if ( c.pre.size() > 40 ) c.pre.resize( 40 );
        return c;
    }

    // ------------------------------------------------------------------------------------------ reference (sequential specification)
    struct spec_state
    {
        std::uint32_t pending     = 0;  // bit idx*2 + kind (kind 0 notification, 1 indication)
        bool          outstanding = false;
    };

    constexpr std::uint32_t all_notifications = 0x55555555u;
    constexpr std::uint32_t all_indications   = 0xaaaaaaaau;

    struct OpRec
    {
        int  ctx;     // 0 producer, 1 consumer
        int  kind;    // op_kind
        int  idx;
        bool ok;      // queue_x: result
        int  r_kind;  // dequeue: 0 empty, 1 notification, 2 indication
        int  r_idx;
        int  begin, end;
    };

    // applies one operation with its observed result; false if the specification does not allow that result in this state
    bool spec_apply( spec_state& s, const OpRec& o )
    {
        switch ( o.kind )
        {
        case Q_NOT:
        case Q_IND: {
            const std::uint32_t bit = 1u << ( o.idx * 2 + ( o.kind == Q_IND ? 1 : 0 ) );
            if ( o.ok != ( ( s.pending & bit ) == 0 ) )
                return false;
            s.pending |= bit;
            return true;
        }
        case DEQ: {
            if ( o.r_kind == 0 )
                return ( s.pending & all_notifications ) == 0 && ( s.outstanding || ( s.pending & all_indications ) == 0 );
            const std::uint32_t bit = 1u << ( o.r_idx * 2 + ( o.r_kind == 2 ? 1 : 0 ) );
            if ( ( s.pending & bit ) == 0 )
                return false;
            if ( o.r_kind == 2 )
            {
                if ( s.outstanding )
                    return false;
                s.outstanding = true;
            }
            s.pending &= ~bit;
            return true;
        }
        case CONF: s.outstanding = false; return true;
        case CLEAR:
            s.pending     = 0;
            s.outstanding = false;
            return true;
        }
        return false;
    }

    template < class T, std::size_t N >
    struct small_vec
    {
        T           v[ N ];
        std::size_t n = 0;
        void        push_back( const T& x )
        {
            if ( n == N )
                std::abort();
            v[ n++ ] = x;
        }
        T&          operator[]( std::size_t i ) { return v[ i ]; }
        const T&    operator[]( std::size_t i ) const { return v[ i ]; }
        const T*    begin() const { return v; }
        const T*    end() const { return v + n; }
        std::size_t size() const { return n; }
    };

    struct Exec
    {
        small_vec< OpRec, 128 > ops;  // producer ops, consumer ops, drain
        spec_state             start;
        std::string            pre_error;
        bool                   window_switch = false;  // non-trivial rule
        bool                   shared_byte   = false;  // both contexts accessed a common queue byte
        bool                   shape         = false;  // F-13 shape present
        int                    shape_choice  = -1;     // trace index of the preemption that let the foreign store in
        int                    shape_ctx = 0, shape_op = 0, shape_load = 0, shape_store = 0, shape_foreign = 0;
        long                   shape_byte = 0;
        std::string            shape_text() const
        {
            return verif::cat( shape_ctx ? "consumer" : "producer", " op#", shape_op, " loads queue byte +", shape_byte, " @", shape_load, " and stores it @", shape_store,
                "; the ", shape_ctx ? "producer" : "consumer", " stores the same byte @", shape_foreign );
        }
        unsigned               preemptions   = 0;
        int                    trues = 0, falses = 0, deq_empty = 0, deq_some = 0;

        void reset()
        {
            ops.n = 0;
            start = spec_state();
            pre_error.clear();
            window_switch = shared_byte = shape = false;
            shape_choice  = -1;
            preemptions   = 0;
            trues = falses = deq_empty = deq_some = 0;
        }
    };

    // order of all operations that respects program order and real-time order and in which every result is allowed
    struct lin_search
    {
        const OpRec* P[ 128 ];
        const OpRec* C[ 128 ];
        std::size_t  np = 0, nc = 0;

        bool go( std::size_t ip, std::size_t ic, spec_state s ) const
        {
            if ( ip == np && ic == nc )
                return true;
            if ( ip != np && ( ic == nc || !( C[ ic ]->end < P[ ip ]->begin ) ) )
            {
                spec_state n = s;
                if ( spec_apply( n, *P[ ip ] ) && go( ip + 1, ic, n ) )
                    return true;
            }
            if ( ic != nc && ( ip == np || !( P[ ip ]->end < C[ ic ]->begin ) ) )
            {
                spec_state n = s;
                if ( spec_apply( n, *C[ ic ] ) && go( ip, ic + 1, n ) )
                    return true;
            }
            return false;
        }
    };

    bool linearizable( const Exec& e )
    {
        lin_search L;
        for ( auto& o : e.ops )
            if ( o.ctx == 0 )
                L.P[ L.np++ ] = &o;
            else
                L.C[ L.nc++ ] = &o;
        return L.go( 0, 0, e.start );
    }

    std::string op_text( const OpRec& o )
    {
        std::ostringstream os;
        os << ( o.ctx ? "C" : "P" ) << "@" << o.begin << ".." << o.end << ":" << op_names[ o.kind ];
        if ( o.kind == Q_NOT || o.kind == Q_IND )
            os << "(" << o.idx << ")=" << ( o.ok ? "true" : "false" );
        else if ( o.kind == DEQ )
        {
            if ( o.r_kind == 0 )
                os << "=empty";
            else
                os << "=(" << o.r_idx << "," << ( o.r_kind == 1 ? "not" : "ind" ) << ")";
        }
        return os.str();
    }

    std::string history_text( const Exec& e )
    {
        std::ostringstream os;
        os << "start pending={";
        for ( int b = 0; b != 32; ++b )
            if ( e.start.pending & ( 1u << b ) )
                os << "(" << b / 2 << "," << ( b % 2 ? "ind" : "not" ) << ")";
        os << "}" << ( e.start.outstanding ? " outstanding" : "" ) << ";";
        for ( auto& o : e.ops )
            os << " " << op_text( o );
        return os.str();
    }

    // what is wrong, in the words of the property (only for the message and the signature; the verdict is linearizability)
    std::string diagnose( const Exec& e, std::string& kind )
    {
        int accepted[ 32 ] = { 0 }, served[ 32 ] = { 0 };
        for ( int b = 0; b != 32; ++b )
            if ( e.start.pending & ( 1u << b ) )
                ++accepted[ b ];
        for ( auto& o : e.ops )
        {
            if ( ( o.kind == Q_NOT || o.kind == Q_IND ) && o.ok )
                ++accepted[ o.idx * 2 + ( o.kind == Q_IND ) ];
            if ( o.kind == DEQ && o.r_kind != 0 && o.r_idx >= 0 && o.r_idx < 16 )
                ++served[ o.r_idx * 2 + ( o.r_kind == 2 ) ];
        }
        std::ostringstream os;
        kind = "other";
        for ( int b = 0; b != 32; ++b )
        {
            if ( accepted[ b ] > served[ b ] )
            {
                os << "request (" << b / 2 << "," << ( b % 2 ? "ind" : "not" ) << ") accepted " << accepted[ b ] << "x but served " << served[ b ] << "x (LOST); ";
                kind = "lost";
            }
            if ( accepted[ b ] < served[ b ] )
            {
                os << "request (" << b / 2 << "," << ( b % 2 ? "ind" : "not" ) << ") accepted " << accepted[ b ] << "x but served " << served[ b ] << "x (DUPLICATED); ";
                if ( kind != "lost" )
                    kind = "duplicated";
            }
        }
        if ( kind == "other" )
            os << "results that no order of the operations explains (refused although not pending, or empty although pending); ";
        return os.str();
    }

    // ------------------------------------------------------------------------------------------ one execution
    OpRec perform( queue_if& q, int ctx, const Op& op, int total )
    {
        OpRec r{};
        r.ctx  = ctx;
        r.kind = op.kind;
        r.idx  = op.idx % total;
        switch ( op.kind )
        {
        case Q_NOT: r.ok = q.queue_notification( r.idx ); break;
        case Q_IND: r.ok = q.queue_indication( r.idx ); break;
        case DEQ: {
            const auto d = q.dequeue();
            r.r_kind     = d.first == entry::empty ? 0 : d.first == entry::notification ? 1 : 2;
            r.r_idx      = static_cast< int >( d.second );
        }
        break;
        case CONF: q.confirmed(); break;
        case CLEAR: q.clear(); break;
        }
        return r;
    }

    void execute( Exec& e, const Case& c, const std::vector< std::uint8_t >& schedule, int bound )
    {
        e.reset();
        const config& cf = configs()[ c.cfg ];
        queue_if&     q  = *cf.q;
        Sched&        sc = Sched::get();
        q.reset();

        // sequential start-up: checked against the specification step by step, gives the start state
        for ( auto& o : c.pre )
        {
            OpRec r = perform( q, 1, o, cf.total );
            if ( r.kind == DEQ && r.r_kind != 0 && ( r.r_idx < 0 || r.r_idx >= cf.total ) )
                e.pre_error = "start-up: " + op_text( r ) + " index out of range";
            else if ( !spec_apply( e.start, r ) && e.pre_error.empty() )
                e.pre_error = "start-up (sequential): " + op_text( r ) + " contradicts the documented behaviour";
        }

        const std::size_t np = c.prod.size(), nc = c.cons.size();
        e.ops.n              = np + nc;
        const std::function< void() > producer = [&] {
            for ( std::size_t i = 0; i != np; ++i )
            {
                sc.begin_op();
                const int b = static_cast< int >( sc.log.size() ) - 1;
                OpRec     r = perform( q, 0, c.prod[ i ], cf.total );
                sc.end_op();
                r.begin    = b;
                r.end      = static_cast< int >( sc.log.size() ) - 1;
                e.ops[ i ] = r;
            }
        };
        const std::function< void() > consumer = [&] {
            for ( std::size_t i = 0; i != nc; ++i )
            {
                sc.begin_op();
                const int b = static_cast< int >( sc.log.size() ) - 1;
                OpRec     r = perform( q, 1, c.cons[ i ], cf.total );
                sc.end_op();
                r.begin         = b;
                r.end           = static_cast< int >( sc.log.size() ) - 1;
                e.ops[ np + i ] = r;
            }
        };
        sc.max_switches = bound;
        sc.run( c.model ? verif::sched::NEST : verif::sched::FREE, c.first, schedule, static_cast< int >( np ), static_cast< int >( nc ), producer, consumer );
        sc.max_switches = -1;
        e.preemptions   = sc.preemptions;

        // drain (sequential, link layer side): dequeue until empty; an empty answer may be due to an outstanding confirmation
        int t = static_cast< int >( sc.log.size() );
        for ( int guard = 0, empties = 0; guard != 4 * cf.total + 6 && empties != 2; ++guard )
        {
            OpRec r = perform( q, 1, Op{ DEQ, 0 }, cf.total );
            r.begin = ++t;
            r.end   = ++t;
            e.ops.push_back( r );
            if ( r.r_kind == 0 )
            {
                ++empties;
                if ( empties == 1 )
                {
                    OpRec k = perform( q, 1, Op{ CONF, 0 }, cf.total );
                    k.begin = ++t;
                    k.end   = ++t;
                    e.ops.push_back( k );
                }
            }
            else
                empties = 0;
        }

        // ---- analysis of the event log (addresses are only compared with each other)
        const auto& log = sc.log;
        // per context: the running operation's first load position per address
        struct seen
        {
            const void* addr;
            int         first_load;
            int         foreign_store;  // position of a store by the other context after first_load (-1: none)
        };
        small_vec< seen, 64 > open[ 2 ];
        bool                  touched_by[ 2 ] = { false, false };
        small_vec< const void*, 64 > addrs[ 2 ];
        for ( int pos = 0; pos != static_cast< int >( log.size() ); ++pos )
        {
            const auto& ev = log[ pos ];
            const int   me = ev.ctx, other = 1 - me;
            if ( ev.kind == 'b' )
            {
                open[ me ].n = 0;
                continue;
            }
            if ( ev.kind == 'e' )
            {
                open[ me ].n = 0;
                continue;
            }
            touched_by[ me ] = true;
            bool known = false;
            for ( auto a : addrs[ me ] )
                known = known || a == ev.addr;
            if ( !known && addrs[ me ].size() < 64 )
                addrs[ me ].push_back( ev.addr );
            seen* mine = nullptr;
            for ( std::size_t k = 0; k != open[ me ].n; ++k )
                if ( open[ me ][ k ].addr == ev.addr )
                    mine = &open[ me ][ k ];
            if ( ev.kind == 'l' )
            {
                if ( !mine && open[ me ].n < 64 )
                    open[ me ].push_back( seen{ ev.addr, pos, -1 } );
            }
            else if ( ev.kind == 's' )
            {
                // a store of the other context's running operation window?
                for ( std::size_t k = 0; k != open[ other ].n; ++k )
                    if ( open[ other ][ k ].addr == ev.addr && open[ other ][ k ].foreign_store < 0 )
                        open[ other ][ k ].foreign_store = pos;
                if ( mine )
                {
                    // load .. store of the same byte inside one operation: did the other context run in between / store in between?
                    for ( int k = mine->first_load + 1; k <= pos; ++k )
                        if ( log[ k ].ctx == me && log[ k ].switched_before )
                            e.window_switch = true;
                    if ( mine->foreign_store >= 0 && !e.shape )
                    {
                        e.shape = true;
                        // the preemption that let the foreign store in: last choice != 0 taken by `me` before that store
                        for ( int k = static_cast< int >( sc.trace.size() ) - 1; k >= 0; --k )
                            if ( sc.trace[ k ].taken && sc.trace[ k ].ctx == me && sc.trace[ k ].at <= mine->foreign_store && sc.trace[ k ].at > mine->first_load )
                            {
                                e.shape_choice = k;
                                break;
                            }
                        e.shape_ctx     = me;
                        e.shape_op      = ev.op;
                        e.shape_byte    = static_cast< long >( static_cast< const char* >( ev.addr ) - static_cast< const char* >( cf.q->object() ) );
                        e.shape_load    = mine->first_load;
                        e.shape_store   = pos;
                        e.shape_foreign = mine->foreign_store;
                    }
                }
            }
        }
        for ( auto a : addrs[ 0 ] )
            for ( auto b : addrs[ 1 ] )
                e.shared_byte = e.shared_byte || a == b;

        for ( std::size_t i = 0; i != np + nc; ++i )
        {
            const OpRec& o = e.ops[ i ];
            if ( o.kind == Q_NOT || o.kind == Q_IND )
                ++( o.ok ? e.trues : e.falses );
            if ( o.kind == DEQ )
                ++( o.r_kind ? e.deq_some : e.deq_empty );
        }
        if ( np + nc != 0 && !log.empty() )
        {
            bool access_seen = false;
            for ( auto& ev : log )
                access_seen = access_seen || ev.kind == 'l';
            bool expects = false;
            for ( std::size_t i = 0; i != np + nc; ++i )
                expects = expects || e.ops[ i ].kind != CONF;
            V_CHECK( access_seen || !expects, "harness.hook-missing", "no queue access went through BLUETOE_VERIF_YIELD: hook 1 (notification_queue.hpp) is not in the tree under test" );
        }
    }

    // throws verif::failure if the history is not allowed; race = "rmw-same-byte" / "none"
    void judge( const Case& c, const Exec& e, const std::string& race )
    {
        const config& cf = configs()[ c.cfg ];
        V_CHECK( e.pre_error.empty(), "queue.sequential", e.pre_error );
        for ( auto& o : e.ops )
            V_CHECK( !( o.kind == DEQ && o.r_kind != 0 && ( o.r_idx < 0 || o.r_idx >= cf.total ) ), "queue.invented-request", "dequeued index out of range: ",
                history_text( e ) );
        if ( linearizable( e ) )
            return;
        std::string       kind;
        const std::string what = diagnose( e, kind );
        verif::fail( "queue.lost-or-duplicated",
            verif::cat( what, "no order of the operations explains the results. ", e.shape ? "F-13 shape: " + e.shape_text() + ". " : std::string(), history_text( e ) ),
            verif::cat( "race=", race, " kind=", kind, " model=", c.model ? "nest" : "free" ) );
    }

    // the schedule with the preemption that opened the F-13 shape removed (taken from the trace of the last execution)
    std::vector< std::uint8_t > without_choice( int k )
    {
        const auto&                 tr = Sched::get().trace;
        std::vector< std::uint8_t > s( tr.size() );
        for ( std::size_t i = 0; i != tr.size(); ++i )
            s[ i ] = tr[ i ].taken;
        if ( k >= 0 && k < static_cast< int >( s.size() ) )
            s[ k ] = 0;
        else
            s.clear();  // cannot happen; the sequential schedule is always free of the shape
        return s;
    }

    // executes `schedule` with every F-13 shaped preemption dropped; `changed` tells whether anything had to be dropped
    void execute_excluding( Exec& e, const Case& c, std::vector< std::uint8_t > schedule, int bound, bool& changed, Exec* original = nullptr )
    {
        changed = false;
        for ( int round = 0;; ++round )
        {
            execute( e, c, schedule, bound );
            if ( round == 0 && original )
                *original = e;
            if ( !e.shape )
                return;
            changed  = true;
            schedule = round < 200 ? without_choice( e.shape_choice ) : std::vector< std::uint8_t >();
        }
    }

    // ------------------------------------------------------------------------------------------ run
    void run_dfs( const Case& c, verif::Report& rep, bool exclude );

    void run( const Case& c, verif::Report& rep )
    {
        const bool exclude = verif::opt_has( "exclude", "F-13" );
        if ( c.prod.empty() && c.cons.empty() && c.dfs )
        {
            rep.label( "dfs-padding" );
            return;
        }
        const config& cf = configs()[ c.cfg ];
        {
            std::string s = "sizes=";
            for ( int x : cf.sizes )
                s += std::to_string( x ) + ",";
            s.pop_back();
            rep.label( s );
        }
        rep.label( c.model ? ( c.first ? "model=nest-producer-interrupts-consumer" : "model=nest-consumer-interrupts-producer" ) : "model=free" );
        if ( c.dfs )
            return run_dfs( c, rep, exclude );

        static Exec e, original, clean;
        if ( exclude )
        {
            bool changed = false;
            execute_excluding( e, c, c.sched, -1, changed, &original );
            if ( changed )
            {
                rep.excluded = true;
                // what the dropped interleaving would have shown (not asserted: it is the known finding)
                bool original_fails = !original.pre_error.empty() || !linearizable( original );
                rep.label( original_fails ? "excluded-F13-shape(original-schedule-fails)" : "excluded-F13-shape(original-schedule-harmless)" );
            }
            judge( c, e, "none" );
        }
        else
        {
            execute( e, c, c.sched, -1 );
            try
            {
                judge( c, e, e.shape ? "rmw-same-byte" : "none" );
            }
            catch ( verif::failure& f )
            {
                if ( e.shape && f.oracle == "queue.lost-or-duplicated" )
                {
                    // is the race really what breaks it? the same case with the F-13 shaped preemptions dropped must pass
                    bool changed = false;
                    execute_excluding( clean, c, c.sched, -1, changed );
                    judge( c, clean, "none" );  // throws with race=none if the failure does not need the race
                }
                throw;
            }
        }
        rep.nontrivial = e.window_switch;
        rep.label_if( e.shared_byte, "both-contexts-access-a-common-byte" );
        rep.label_if( !e.shared_byte, "contexts-access-different-bytes-only" );
        rep.label_if( e.window_switch && !e.shape, "switch-inside-load-store-window-without-foreign-store" );
        rep.label_if( e.shape, "F13-shape-executed" );
        rep.label_if( e.falses != 0, "request-refused-as-pending" );
        rep.label_if( e.deq_empty != 0, "dequeue-empty" );
        rep.label_if( e.deq_some != 0, "dequeue-served" );
        rep.label_if( e.start.outstanding, "start-with-outstanding-confirmation" );
        rep.label( verif::cat( "preemptions=", e.preemptions > 6 ? std::string( ">6" ) : std::to_string( e.preemptions ) ) );
    }

    void run_dfs( const Case& c, verif::Report& rep, bool exclude )
    {
        std::vector< std::uint8_t > schedule;
        std::uint64_t               n = 0, nontrivial = 0, skipped = 0;
        static Exec                 e, clean;
        static std::vector< verif::sched::Choice > trace;
        for ( ;; )
        {
            execute( e, c, schedule, c.bound );
            trace = Sched::get().trace;
            ++n;
            if ( exclude && e.shape )
                ++skipped;  // the same schedule without the F-13 shaped preemption is another leaf of this tree
            else
            {
                if ( e.window_switch )
                    ++nontrivial;
                try
                {
                    try
                    {
                        judge( c, e, e.shape ? "rmw-same-byte" : "none" );
                    }
                    catch ( verif::failure& f )
                    {
                        if ( e.shape && f.oracle == "queue.lost-or-duplicated" )
                        {
                            bool changed = false;
                            execute_excluding( clean, c, schedule, c.bound, changed );
                            judge( c, clean, "none" );
                        }
                        throw;
                    }
                }
                catch ( verif::failure& f )
                {
                    Case one  = c;
                    one.dfs   = 0;
                    one.sched = schedule;
                    std::string t = to_text( one );
                    for ( auto& ch : t )
                        if ( ch == '\n' )
                            ch = ';';
                    f.msg = verif::cat( "schedule #", n, " of the enumeration fails; as a single case: ", t, "  ", f.msg );
                    throw;
                }
            }
            if ( !Sched::next_schedule( trace, schedule ) )
                break;
        }
        rep.nontrivial = nontrivial != 0;
        rep.excluded   = skipped != 0;
        verif::sched::tree_completed( n, nontrivial );
        verif::Session::get().classes[ "dfs-schedules-skipped-F13-shape" ] += skipped;
        rep.label( c.bound >= 0 ? verif::cat( "dfs-tree-bounded-", c.bound, "-preemptions" ) : std::string( "dfs-tree-unbounded" ) );
    }

    // ------------------------------------------------------------------------------------------ generators
    rc::Gen< std::uint8_t > gen_choice()
    {
        return rc::gen::map( verif::range< int >( 0, 9 ), []( int v ) { return static_cast< std::uint8_t >( v < 4 ? 0 : v < 8 ? 1 : v - 6 ); } );
    }

    rc::Gen< Op > gen_op( std::vector< std::pair< std::size_t, int > > kinds )
    {
        std::vector< int > urn;  // every kind as often as its weight says
        for ( auto& k : kinds )
            urn.insert( urn.end(), k.first, k.second );
        return rc::gen::build< Op >( rc::gen::set( &Op::kind, rc::gen::elementOf( urn ) ), rc::gen::set( &Op::idx, verif::range< int >( 0, 8 ) ) );
    }

    // lo..hi operations; shrinks by dropping operations (down to lo)
    rc::Gen< std::vector< Op > > gen_ops( int lo, int hi, const std::vector< std::pair< std::size_t, int > >& kinds )
    {
        auto tail = rc::gen::resize( hi - lo, rc::gen::container< std::vector< Op > >( gen_op( kinds ) ) );
        if ( lo == 0 )
            return tail;
        return rc::gen::apply(
            []( const Op& first, std::vector< Op > rest ) {
                rest.insert( rest.begin(), first );
                return rest;
            },
            gen_op( kinds ), tail );
    }

    rc::Gen< Case > gen_random()
    {
        return rc::gen::build< Case >( rc::gen::set( &Case::cfg, verif::range< int >( 0, static_cast< int >( configs().size() ) - 1 ) ),
            rc::gen::set( &Case::model, rc::gen::weightedElement< int >( { { 3, 0 }, { 2, 1 } } ) ), rc::gen::set( &Case::first, verif::range< int >( 0, 1 ) ),
            rc::gen::set( &Case::pre, gen_ops( 0, 5, { { 5, Q_NOT }, { 5, Q_IND }, { 2, DEQ }, { 1, CONF }, { 1, CLEAR } } ) ),
            rc::gen::set( &Case::prod, gen_ops( 1, 3, { { 1, Q_NOT }, { 1, Q_IND } } ) ), rc::gen::set( &Case::cons, gen_ops( 1, 3, { { 4, DEQ }, { 1, CONF } } ) ),
            rc::gen::set( &Case::sched, rc::gen::container< std::vector< std::uint8_t > >( gen_choice() ) ) );
    }

    // the enumerated sub-space of target c13_race_dfs (see c13_race.reg.py for the claim)
    std::vector< Case > dfs_space()
    {
        struct sub
        {
            int                              cfg;
            std::vector< int >               idx;     // characteristics used by the programs
            std::vector< std::vector< Op > > starts;  // start-up sequences
        };
        // every start state of a queue with at most two characteristics: subsets of the four requests x outstanding or not
        auto all_starts = []( int total ) {
            std::vector< std::vector< Op > > r;
            for ( int mask = 0; mask != ( 1 << ( 2 * total ) ); ++mask )
                for ( int outstanding = 0; outstanding != 2; ++outstanding )
                {
                    std::vector< Op > s;
                    if ( outstanding )
                    {
                        s.push_back( Op{ Q_IND, 0 } );
                        s.push_back( Op{ DEQ, 0 } );
                    }
                    for ( int b = 0; b != 2 * total; ++b )
                        if ( mask & ( 1 << b ) )
                            s.push_back( Op{ b % 2 ? Q_IND : Q_NOT, b / 2 } );
                    r.push_back( s );
                }
            return r;
        };
        const std::vector< std::vector< Op > > some_starts = {
            {},
            { { Q_NOT, 0 } },
            { { Q_NOT, 3 }, { Q_IND, 4 } },
            { { Q_IND, 0 }, { DEQ, 0 }, { Q_NOT, 4 }, { Q_IND, 3 } },
        };
        const std::vector< sub > subs = {
            { 0, { 0 }, all_starts( 1 ) },          // <1>
            { 1, { 0, 1 }, all_starts( 2 ) },       // <2>
            { 5, { 0, 1 }, all_starts( 2 ) },       // <1,1>
            { 3, { 0, 3, 4 }, some_starts },        // <5>: 0 and 3 share a byte, 4 lives in the next one
        };
        const int max_ops = static_cast< int >( verif::opt_int( "dfs_ops", 2 ) );

        std::vector< Case > all;
        for ( auto& s : subs )
        {
            std::vector< Op > palpha;
            for ( int i : s.idx )
            {
                palpha.push_back( Op{ Q_NOT, i } );
                palpha.push_back( Op{ Q_IND, i } );
            }
            auto programs = [ max_ops ]( const std::vector< Op >& alpha ) {
                std::vector< std::vector< Op > > r, last = { {} };
                for ( int len = 1; len <= max_ops; ++len )
                {
                    std::vector< std::vector< Op > > next;
                    for ( auto& p : last )
                        for ( auto& o : alpha )
                        {
                            auto q = p;
                            q.push_back( o );
                            next.push_back( q );
                        }
                    r.insert( r.end(), next.begin(), next.end() );
                    last = next;
                }
                return r;
            };
            // indication_confirmed() only touches link layer private state and the start states cover both values of it:
            // the consumer programs are one dequeue, two dequeues, two dequeues with a confirmation in between
            const auto                             pp = programs( palpha );
            const std::vector< std::vector< Op > > cp = max_ops < 2
                ? std::vector< std::vector< Op > >{ { { DEQ, 0 } } }
                : std::vector< std::vector< Op > >{ { { DEQ, 0 } }, { { DEQ, 0 }, { DEQ, 0 } }, { { DEQ, 0 }, { CONF, 0 }, { DEQ, 0 } } };
            for ( auto& start : s.starts )
                for ( auto& p : pp )
                    for ( auto& q : cp )
                        for ( int model = 0; model != 2; ++model )
                            for ( int first = 0; first != 2; ++first )
                            {
                                Case c;
                                c.cfg = s.cfg; c.model = model; c.first = first; c.pre = start; c.prod = p; c.cons = q; c.dfs = 1; c.bound = -1;
                                all.push_back( c );
                            }
        }
        std::stable_sort( all.begin(), all.end(), []( const Case& a, const Case& b ) {
            const std::size_t wa = ( a.model == 0 ? 100 : 0 ) + 3 * a.prod.size() + 4 * a.cons.size() + ( a.cfg == 3 ? 6 : 0 );
            const std::size_t wb = ( b.model == 0 ? 100 : 0 ) + 3 * b.prod.size() + 4 * b.cons.size() + ( b.cfg == 3 ? 6 : 0 );
            return wa > wb;
        } );
        return all;
    }

    rc::Gen< Case > gen_case()
    {
        if ( verif::opt( "mode" ) != "dfs" )
            return gen_random();
        Case padding;
        padding.dfs = 1;
        return verif::sched::enumerate_gen( dfs_space(), padding );
    }
}

int main( int argc, char** argv )
{
    verif::Harness< Case > h;
    h.gen       = gen_case;
    h.to_text   = to_text;
    h.from_text = from_text;
    h.run       = run;
    return verif::run_main( argc, argv, h );
}
