target('c39_boot', 'engines/comp/c39_boot.cpp',
       quick=dict(cases=120000, size=60), thorough=dict(cases=2000000, size=80))
# the same Case / run() under libFuzzer (engines/comp/run_fuzz.py builds and runs it)
target('c39_fuzz', 'engines/comp/c39_fuzz.cpp', kind='fuzz',
       quick=dict(runs=40000, max_seconds=60, max_len=1024), thorough=dict(runs=3000000, max_seconds=900, max_len=1024))
prop('C39', ['c39_boot', 'c39_fuzz'], 'comp',
     rule='rapidcheck generates a configuration (page size 16 / 64 / 1024 x white list {one aligned region, two regions with a gap, a region '
          'not aligned to the page, a region ending at the top of the address space, a region starting at 0}) and a sequence of up to 60 '
          'groups of: control point writes (opcodes 0..10, 0x80, 0xff; nominal, truncated, over-long and empty values in exact-size heap '
          'buffers; addresses at region start/end -1/0/+1, page boundaries +-, inside, 0, top, random), data writes of 0..3 pages / 0..1104 octets, '
          'control point / data read-outs (with a failing public_read_mem now and then) and completions of the oldest pending flash operation. '
          'A case is non-trivial if an address used lies within one page of a region boundary or a control point value has a length other '
          'than the nominal one of its opcode; distinct = distinct serialised cases.',
     technique='model-based property testing (rapidcheck; the same oracle under libFuzzer in engines/comp/c39_fuzz.cpp) of bootloader::controller with the harness as user handler: logged handler calls are checked against the white list, a reference flash image and a reference checksum chain; ASan guards the control point value',
     level_text='every range handed to start_flash / read_mem / checksum32 / public_read_mem / public_checksum32 must lie in one white-listed region; '
                'every flashed page must equal the memory before overlaid with exactly the octets the client sent for those addresses (Start Flash '
                'address + stream offset), completed / flushed pages must have been handed to start_flash, no data is taken without a Start Flash '
                'procedure; the handler checksum must be chained over the client octets from checksum32(start) and be announced by the Start Flash / '
                'Flush responses and the progress notifications; run()/reset() only for complete Start / Reset procedures; truncated control point '
                'values are never accepted. Sampling, not proof.',
     level_note='trusted: the reference model in engines/comp/c39_boot.cpp; the handler applies a flash operation immediately (as the handler of '
                'tests/services/bootloader_tests.cpp does) and completes flash operations in FIFO order; the controller is driven directly, '
                'not through bluetoe::server (notification coalescing of the server is not modelled)',
     assumptions=COMMON_ASSUME)
