// C39, libFuzzer variant: the octets libFuzzer mutates are decoded into the same Case the rapidcheck harness
// (c39_boot.cpp) generates and are judged by the very same run() -- reference memory, white list, checksum chain.
//
// The binary speaks the protocol of ./check (--property --seed --cases --out --opt, --replay <case file>):
//   sweep : LLVMFuzzerRunDriver( -runs=<cases> -seed=<seed> -max_len=4096 ), in-memory corpus only; statistics, classes
//           and the first violation go to the result file like those of a rapidcheck harness. A violation ends the run
//           (exit 1, the decoded case is in the result); a sanitizer report / assert ends it through the crash path
//           (<out>.crashcase holds the decoded case).
//   replay: the text form of a case, exactly as c39_boot does (verif::run_main).
#define C39_BOOT_NO_MAIN
#include "c39_boot.cpp"

#include <fuzzer/FuzzedDataProvider.h>

extern "C" int LLVMFuzzerRunDriver( int* argc, char*** argv, int ( *callback )( const std::uint8_t* data, std::size_t size ) );

namespace {

    addr_t fuzz_addr( FuzzedDataProvider& in, const config& cf )
    {
        const region& r = cf.regions[ in.ConsumeIntegralInRange< std::size_t >( 0, cf.regions.size() - 1 ) ];
        const addr_t  P = cf.page;
        switch ( in.ConsumeIntegralInRange< int >( 0, 5 ) )
        {
        case 0: return r.start + static_cast< addr_t >( in.ConsumeIntegralInRange< long >( -static_cast< long >( P ) - 2, static_cast< long >( P ) + 2 ) );
        case 1: return r.end + static_cast< addr_t >( in.ConsumeIntegralInRange< long >( -2 * static_cast< long >( P ) - 2, static_cast< long >( P ) + 2 ) );
        case 2: return ( r.start - r.start % P ) + P * in.ConsumeIntegralInRange< addr_t >( 0, ( r.end - r.start ) / P ) + static_cast< addr_t >( in.ConsumeIntegralInRange< long >( -3, 5 ) );
        case 3: return r.start + in.ConsumeIntegralInRange< addr_t >( 0, r.end - r.start - 1 );
        case 4: return in.PickValueInArray< addr_t >( { 0, 1, top, top - 1, top - P + 1, static_cast< addr_t >( 0x100000000ull ) } );
        default: return in.ConsumeIntegral< addr_t >();
        }
    }

    octets fuzz_fill( FuzzedDataProvider& in, std::size_t n )
    {
        const unsigned seed = in.ConsumeIntegral< std::uint8_t >();
        octets         v( n );
        for ( std::size_t i = 0; i != n; ++i )
            v[ i ] = static_cast< std::uint8_t >( seed == 0 ? 0xa5 : ( seed * 31 + i * 7 + ( i >> 3 ) * 13 ) );
        return v;
    }

    Case decode( const std::uint8_t* data, std::size_t size )
    {
        FuzzedDataProvider in( data, size );
        Case               c;
        c.cfg            = in.ConsumeIntegralInRange< int >( 0, static_cast< int >( configs().size() ) - 1 );
        const config& cf = configs()[ c.cfg ];
        while ( in.remaining_bytes() != 0 && c.ops.size() < 64 )
        {
            Op o;
            switch ( in.ConsumeIntegralInRange< int >( 0, 9 ) )
            {
            case 0:
            case 1:
            case 2:
            {
                o.kind = CP;
                static const std::uint8_t opcodes[] = { 0, 1, 2, 3, 3, 3, 3, 4, 5, 5, 6, 7, 8, 8, 9, 0xff };
                const int                 opc       = in.PickValueInArray( opcodes );
                o.bytes.push_back( static_cast< std::uint8_t >( opc ) );
                if ( opc == OPC_CRC || opc == OPC_READ )
                {
                    const addr_t a = fuzz_addr( in, cf );
                    put_addr( o.bytes, a );
                    put_addr( o.bytes, in.ConsumeBool() ? a + in.ConsumeIntegralInRange< addr_t >( 0, 80 ) : fuzz_addr( in, cf ) );
                }
                else if ( opc == OPC_START_FLASH || opc == OPC_START )
                    put_addr( o.bytes, fuzz_addr( in, cf ) );
                // length mutation: 0 = none
                const int len = in.ConsumeIntegralInRange< int >( 0, 15 );
                if ( len == 1 )
                    o.bytes.resize( in.ConsumeIntegralInRange< std::size_t >( 0, o.bytes.size() ) );
                else if ( len == 2 )
                    o.bytes.resize( o.bytes.size() + in.ConsumeIntegralInRange< std::size_t >( 1, 12 ), 0x5a );
                if ( verif::opt_has( "exclude", "F-39a" ) && !o.bytes.empty() && o.bytes[ 0 ] == OPC_READ && o.bytes.size() < nominal_length( OPC_READ ) )
                {
                    o.bytes.resize( nominal_length( OPC_READ ), 0 );
                    o.flag = true;
                }
            }
            break;
            case 3:
            case 4:
            case 5:
            case 6:
            {
                o.kind = DATA;
                const std::size_t P = cf.page;
                std::size_t       n;
                switch ( in.ConsumeIntegralInRange< int >( 0, 4 ) )
                {
                case 0: n = in.ConsumeIntegralInRange< std::size_t >( 0, 20 ); break;
                case 1: n = in.ConsumeIntegralInRange< std::size_t >( 0, 244 ); break;
                case 2: n = P <= 64 ? P : 244; break;
                case 3: n = P <= 64 ? 2 * P + in.ConsumeIntegralInRange< std::size_t >( 0, 3 ) : 512; break;
                default: n = in.ConsumeIntegralInRange< std::size_t >( 0, 1104 ); break;
                }
                o.bytes = fuzz_fill( in, n );
            }
            break;
            case 7:
                o.kind = CPREAD;
                o.n    = in.PickValueInArray< std::size_t >( { 20, 20, 22, 100, 512 } );
                break;
            case 8:
                o.kind = DREAD;
                o.n    = in.PickValueInArray< std::size_t >( { 20, 20, 20, 1, 7, 100, 244 } );
                o.flag = in.ConsumeIntegralInRange< int >( 0, 9 ) == 0;
                break;
            default:
                o.kind = DONE;
                o.n    = 20;
                break;
            }
            c.ops.push_back( o );
        }
        return c;
    }

    void finish( int code )
    {
        verif::write_result( code == 0 );
        std::fflush( nullptr );
        std::_Exit( code );
    }

    bool death_callback_set = false;

    int one_input( const std::uint8_t* data, std::size_t size )
    {
        auto& S = verif::Session::get();
        if ( !death_callback_set )
        {
            // after libFuzzer installed its own: a sanitizer report dumps the decoded case for ./check
            __sanitizer_set_death_callback( &verif::detail::dump_current );
            death_callback_set = true;
        }
        if ( S.max_seconds > 0 && std::chrono::duration< double >( std::chrono::steady_clock::now() - S.t0 ).count() > S.max_seconds )
        {
            ++S.skipped_time;
            return 0;
        }
        const Case        c    = decode( data, size );
        const std::string text = to_text( c );
        verif::detail::set_current( text );
        verif::Report r;
        try
        {
            run( c, r );
        }
        catch ( const verif::failure& f )
        {
            S.have_failure = true;
            S.fail_case    = text;
            S.fail_info    = f;
            std::cerr << "VIOLATION " << f.oracle << ": " << f.msg << "\n" << text;
            finish( 1 );
        }
        ++S.evaluations;
        if ( r.excluded )
            ++S.excluded;
        for ( auto& l : r.labels )
            ++S.classes[ l ];
        if ( r.nontrivial )
        {
            ++S.nontrivial_total;
            ++S.classes[ "nontrivial" ];
            if ( S.nontrivial.insert( verif::fnv1a( text ) ).second )
            {
                if ( S.samples.size() < 3 )
                    S.samples.push_back( text );
                else if ( text.size() > S.largest_sample.size() && text.size() < 6000 )
                    S.largest_sample = text;
            }
        }
        return 0;
    }
}

int main( int argc, char** argv )
{
    for ( int i = 1; i < argc; ++i )
        if ( std::string( argv[ i ] ) == "--replay" )
        {
            verif::Harness< Case > h;
            h.gen       = gen_case;
            h.to_text   = to_text;
            h.from_text = from_text;
            h.run       = run;
            return verif::run_main( argc, argv, h );
        }

    auto& S = verif::Session::get();
    for ( int i = 1; i < argc; ++i )
    {
        const std::string a    = argv[ i ];
        auto              next = [&]() -> std::string { return i + 1 < argc ? argv[ ++i ] : ""; };
        if ( a == "--property" ) S.property = next();
        else if ( a == "--seed" ) S.seed = std::strtoull( next().c_str(), nullptr, 0 );
        else if ( a == "--cases" ) S.cases = std::strtoull( next().c_str(), nullptr, 0 );
        else if ( a == "--size" ) S.size = std::strtoull( next().c_str(), nullptr, 0 );
        else if ( a == "--max-seconds" ) S.max_seconds = std::strtod( next().c_str(), nullptr );
        else if ( a == "--out" ) S.out = next();
        else if ( a == "--opt" )
        {
            const std::string kv = next();
            const auto        p  = kv.find( '=' );
            S.opts[ kv.substr( 0, p ) ] = p == std::string::npos ? "1" : kv.substr( p + 1 );
        }
    }
    if ( !S.out.empty() )
    {
        std::snprintf( verif::detail::crash_path(), 1024, "%s.crashcase", S.out.c_str() );
        ::unlink( verif::detail::crash_path() );
    }
    std::signal( SIGABRT, &verif::detail::on_signal );
    std::signal( SIGSEGV, &verif::detail::on_signal );
    std::signal( SIGFPE, &verif::detail::on_signal );
    std::signal( SIGILL, &verif::detail::on_signal );
    std::signal( SIGBUS, &verif::detail::on_signal );

    std::vector< std::string > args = { argv[ 0 ], verif::cat( "-runs=", S.cases ), verif::cat( "-seed=", S.seed == 0 ? 1 : S.seed ), "-max_len=4096", "-len_control=0",
        "-handle_abrt=0", "-handle_segv=0", "-handle_bus=0", "-handle_ill=0", "-handle_fpe=0", "-print_final_stats=0", "-verbosity=0", "-detect_leaks=0" };
    std::vector< char* > cargs;
    for ( auto& s : args )
        cargs.push_back( &s[ 0 ] );
    cargs.push_back( nullptr );
    int    fargc = static_cast< int >( args.size() );
    char** fargv = cargs.data();
    LLVMFuzzerRunDriver( &fargc, &fargv, &one_input );
    finish( 0 );
}
