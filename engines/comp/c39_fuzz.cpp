// C39, libFuzzer variant: the octets libFuzzer mutates are decoded into the same Case the rapidcheck harness
// (c39_boot.cpp) generates and are judged by the very same run() -- reference memory, white list, checksum chain.
// Built and run by engines/comp/run_fuzz.py (target kind 'fuzz' of ./check C39).
//
// fuzz-extra-src: -lrapidcheck
//
// Environment (conventions of engines/comp/run_fuzz.py):
//   VERIF_FUZZ_DECODE=1            print the decoded case of every input (replay format of ./check C39 --replay) instead of
//                                  executing it
//   VERIF_FUZZ_EXCLUDE=F-39a,...   shapes to leave out (open findings; the flags of c39_boot)
// An oracle violation prints `VERIF-FUZZ-VIOLATION oracle=... sig={...} msg=...` and the decoded case, then traps;
// sanitizer reports and asserts are crashes by themselves.
#define C39_BOOT_NO_MAIN
#include "c39_boot.cpp"

#include <fuzzer/FuzzedDataProvider.h>

namespace {

    addr_t fuzz_addr( FuzzedDataProvider& in, const config& cf )
    {
        const region& r = cf.regions[ in.ConsumeIntegralInRange< std::size_t >( 0, cf.regions.size() - 1 ) ];
        const addr_t  P = cf.page;
        switch ( in.ConsumeIntegralInRange< int >( 0, 5 ) )
        {
        case 0: return r.start + static_cast< addr_t >( in.ConsumeIntegralInRange< long >( -static_cast< long >( P ) - 2, static_cast< long >( P ) + 2 ) );
        case 1: return r.end + static_cast< addr_t >( in.ConsumeIntegralInRange< long >( -2 * static_cast< long >( P ) - 2, static_cast< long >( P ) + 2 ) );
        case 2: return ( r.start - r.start % P ) + P * in.ConsumeIntegralInRange< addr_t >( 0, ( r.end - r.start ) / P ) + static_cast< addr_t >( in.ConsumeIntegralInRange< long >( -3, 5 ) );
        case 3: return r.start + in.ConsumeIntegralInRange< addr_t >( 0, r.end - r.start - 1 );
        case 4: return in.PickValueInArray< addr_t >( { 0, 1, top, top - 1, top - P + 1, static_cast< addr_t >( 0x100000000ull ) } );
        default: return in.ConsumeIntegral< addr_t >();
        }
    }

    octets fuzz_fill( FuzzedDataProvider& in, std::size_t n )
    {
        const unsigned seed = in.ConsumeIntegral< std::uint8_t >();
        octets         v( n );
        for ( std::size_t i = 0; i != n; ++i )
            v[ i ] = static_cast< std::uint8_t >( seed == 0 ? 0xa5 : ( seed * 31 + i * 7 + ( i >> 3 ) * 13 ) );
        return v;
    }

    Case decode( const std::uint8_t* data, std::size_t size )
    {
        FuzzedDataProvider in( data, size );
        Case               c;
        c.cfg            = in.ConsumeIntegralInRange< int >( 0, static_cast< int >( configs().size() ) - 1 );
        const config& cf = configs()[ c.cfg ];
        while ( in.remaining_bytes() != 0 && c.ops.size() < 64 )
        {
            Op o;
            switch ( in.ConsumeIntegralInRange< int >( 0, 9 ) )
            {
            case 0:
            case 1:
            case 2:
            {
                o.kind = CP;
                static const std::uint8_t opcodes[] = { 0, 1, 2, 3, 3, 3, 3, 4, 5, 5, 6, 7, 8, 8, 9, 0xff };
                const int                 opc       = in.PickValueInArray( opcodes );
                o.bytes.push_back( static_cast< std::uint8_t >( opc ) );
                if ( opc == OPC_CRC || opc == OPC_READ )
                {
                    const addr_t a = fuzz_addr( in, cf );
                    put_addr( o.bytes, a );
                    put_addr( o.bytes, in.ConsumeBool() ? a + in.ConsumeIntegralInRange< addr_t >( 0, 80 ) : fuzz_addr( in, cf ) );
                }
                else if ( opc == OPC_START_FLASH || opc == OPC_START )
                    put_addr( o.bytes, fuzz_addr( in, cf ) );
                // length mutation: 0 = none
                const int len = in.ConsumeIntegralInRange< int >( 0, 15 );
                if ( len == 1 )
                    o.bytes.resize( in.ConsumeIntegralInRange< std::size_t >( 0, o.bytes.size() ) );
                else if ( len == 2 )
                    o.bytes.resize( o.bytes.size() + in.ConsumeIntegralInRange< std::size_t >( 1, 12 ), 0x5a );
                if ( verif::opt_has( "exclude", "F-39a" ) && !o.bytes.empty() && o.bytes[ 0 ] == OPC_READ && o.bytes.size() < nominal_length( OPC_READ ) )
                {
                    o.bytes.resize( nominal_length( OPC_READ ), 0 );
                    o.flag = true;
                }
            }
            break;
            case 3:
            case 4:
            case 5:
            case 6:
            {
                o.kind = DATA;
                const std::size_t P = cf.page;
                std::size_t       n;
                switch ( in.ConsumeIntegralInRange< int >( 0, 4 ) )
                {
                case 0: n = in.ConsumeIntegralInRange< std::size_t >( 0, 20 ); break;
                case 1: n = in.ConsumeIntegralInRange< std::size_t >( 0, 244 ); break;
                case 2: n = P <= 64 ? P : 244; break;
                case 3: n = P <= 64 ? 2 * P + in.ConsumeIntegralInRange< std::size_t >( 0, 3 ) : 512; break;
                default: n = in.ConsumeIntegralInRange< std::size_t >( 0, 1104 ); break;
                }
                o.bytes = fuzz_fill( in, n );
            }
            break;
            case 7:
                o.kind = CPREAD;
                o.n    = in.PickValueInArray< std::size_t >( { 20, 20, 22, 100, 512 } );
                break;
            case 8:
                o.kind = DREAD;
                o.n    = in.PickValueInArray< std::size_t >( { 20, 20, 20, 1, 7, 100, 244 } );
                o.flag = in.ConsumeIntegralInRange< int >( 0, 9 ) == 0;
                break;
            default:
                o.kind = DONE;
                o.n    = 20;
                break;
            }
            c.ops.push_back( o );
        }
        return c;
    }
}

namespace {
    bool decode_only = false;
}

extern "C" int LLVMFuzzerInitialize( int*, char*** )
{
    decode_only = std::getenv( "VERIF_FUZZ_DECODE" ) != nullptr;
    if ( const char* e = std::getenv( "VERIF_FUZZ_EXCLUDE" ) )
        verif::Session::get().opts[ "exclude" ] = e;
    verif::Session::get().property = "C39";
    return 0;
}

extern "C" int LLVMFuzzerTestOneInput( const std::uint8_t* data, std::size_t size )
{
    const Case c = decode( data, size );
    if ( decode_only )
    {
        // libFuzzer executes a file given on the command line more than once
        static std::string last;
        const std::string  text = to_text( c );
        if ( text != last )
            std::cout << text << std::flush;
        last = text;
        return 0;
    }
    verif::Report r;
    try
    {
        run( c, r );
    }
    catch ( const verif::failure& f )
    {
        std::cerr << "VERIF-FUZZ-VIOLATION oracle=" << f.oracle << " sig={" << f.sig << "} msg=" << f.msg << "\n"
                  << "VERIF-FUZZ-CASE-BEGIN\n" << to_text( c ) << "VERIF-FUZZ-CASE-END\n" << std::flush;
        __builtin_trap();
    }
    return 0;
}
