#!/usr/bin/env python3
"""run_fuzz.py -- build and run one libFuzzer target of /verif (DESIGN.md 2.2); stand-alone until ./check learns about
libFuzzer targets.

  run_fuzz.py engines/comp/c31_l2cap_fuzz.cpp --runs 200000 --seed 1 [--corpus corpus/c31_l2cap_fuzz] [--artifacts DIR]
              [--max-total-time S] [--empty-corpus] [--extra-src '$REPO/...'] [--exclude F-xx,F-yy] [--max-len N] [--json FILE]

* builds `clang++ -fsanitize=fuzzer,address,undefined` with the flags of ./check (BASE_FLAGS / INC) from the working tree of
  $VERIF_REPO (default /repo) into /verif/.cache/build/<repo hash>-<target>-<key>/ (content addressed like ./check);
  additional sources: --extra-src and lines `// fuzz-extra-src: <path with $REPO>` in the target source
* runs it with -seed=N (0 is remapped to 1) -runs=N on a FRESH corpus directory seeded from --corpus
  (default /verif/corpus/<target>/); the seed corpus itself is never written
* only crash-* artefacts count (exit 1, `VIOLATION target=<t> artifact=<path>`; the decoded case is printed when the target
  honours VERIF_FUZZ_DECODE=1); slow-unit-*, timeout-*, oom-* are listed as inconclusive noise (exit 0)
* prints libFuzzer's last status line (cov / ft / corp / exec/s) and the final stats
"""
import argparse, glob, hashlib, json, os, re, shutil, subprocess, sys, time

ROOT = os.path.dirname(os.path.dirname(os.path.dirname(os.path.abspath(__file__))))
REPO = os.environ.get('VERIF_REPO', '/repo')
CACHE = os.path.join(ROOT, '.cache')

INC = ['-I' + ROOT + '/lib', '-I' + REPO, '-I' + REPO + '/bluetoe/utility/include',
       '-I' + REPO + '/bluetoe/link_layer/include', '-I' + REPO + '/bluetoe/sm/include']
BASE_FLAGS = ['-std=gnu++17', '-g', '-O1', '-fno-omit-frame-pointer', '-DBLUETOE_VERIF_HOOKS',
              '-include', ROOT + '/lib/prelude.hpp']
FUZZ_FLAGS = ['-fsanitize=fuzzer,address,undefined', '-fno-sanitize-recover=undefined']


def log(*a):
    print(*a, file=sys.stderr, flush=True)


def repo_hash():
    h = hashlib.sha256()
    for top in ('bluetoe', 'tests/test_tools'):
        for d, dirs, files in sorted(os.walk(os.path.join(REPO, top))):
            dirs.sort()
            for f in sorted(files):
                p = os.path.join(d, f)
                h.update(p.encode())
                with open(p, 'rb') as fh:
                    h.update(fh.read())
    return h.hexdigest()


def file_hash(paths):
    h = hashlib.sha256()
    for p in paths:
        h.update(p.encode())
        with open(p, 'rb') as fh:
            h.update(fh.read())
    return h.hexdigest()


def local_headers(src):
    """headers the target includes with "..." from its own directory or lib/ (one level of nesting is followed)"""
    seen, todo = [], [src]
    while todo:
        f = todo.pop()
        for m in re.finditer(r'^\s*#\s*include\s+"([^"]+)"', open(f, errors='replace').read(), re.M):
            for d in (os.path.dirname(f), os.path.join(ROOT, 'lib')):
                p = os.path.join(d, m.group(1))
                if os.path.exists(p) and p not in seen:
                    seen.append(p)
                    todo.append(p)
    return sorted(seen)


def build(src, extra_src):
    name = os.path.splitext(os.path.basename(src))[0]
    extra = list(extra_src)
    for m in re.finditer(r'^//\s*fuzz-extra-src:\s*(\S+)', open(src).read(), re.M):
        extra.append(m.group(1))
    expanded = []
    for e in extra:
        e = e.replace('$REPO', REPO)
        expanded += sorted(glob.glob(e)) if '*' in e else [e]
    # lines `// fuzz-flags: <compiler flags, $REPO and $ROOT expanded>` and `// fuzz-libs: <libraries>` in the target source
    more_flags, libs = [], []
    for m in re.finditer(r'^//\s*fuzz-flags:\s*(.*)$', open(src).read(), re.M):
        more_flags += [x.replace('$REPO', REPO).replace('$ROOT', ROOT) for x in m.group(1).split()]
    for m in re.finditer(r'^//\s*fuzz-libs:\s*(.*)$', open(src).read(), re.M):
        libs += m.group(1).split()
    rh = repo_hash()
    deps = [src] + local_headers(src)
    key = hashlib.sha256(json.dumps([rh, file_hash(deps), BASE_FLAGS, FUZZ_FLAGS, expanded, more_flags, libs], sort_keys=True).encode()).hexdigest()[:20]
    bdir = os.path.join(CACHE, 'build', rh[:12] + '-' + name + '-' + key)
    exe = os.path.join(bdir, name)
    if os.path.exists(exe):
        os.utime(bdir)
        return name, exe
    os.makedirs(bdir, exist_ok=True)
    tmp = exe + '.tmp%d' % os.getpid()
    cmd = ['clang++'] + BASE_FLAGS + FUZZ_FLAGS + more_flags + INC + ['-I' + os.path.dirname(src), src] + expanded + libs + ['-o', tmp]
    t0 = time.time()
    r = subprocess.run(cmd, stdout=subprocess.PIPE, stderr=subprocess.STDOUT, text=True)
    if r.returncode != 0:
        log('BUILD FAILED for fuzz target', name)
        log(' '.join(cmd))
        log(r.stdout[-6000:])
        raise SystemExit(2)
    os.rename(tmp, exe)
    log('built %s in %.1fs' % (name, time.time() - t0))
    return name, exe


def main():
    ap = argparse.ArgumentParser()
    ap.add_argument('source')
    ap.add_argument('--runs', type=int, default=100000)
    ap.add_argument('--seed', type=int, default=int(os.environ.get('VERIF_SEED', '1') or '1'))
    ap.add_argument('--corpus', help='seed corpus directory (default /verif/corpus/<target>/)')
    ap.add_argument('--empty-corpus', action='store_true', help='start from an empty corpus')
    ap.add_argument('--artifacts', help='directory for crash artefacts (default /verif/replays/found/fuzz-<target>/)')
    ap.add_argument('--max-total-time', type=int, default=0)
    ap.add_argument('--max-len', type=int, default=512)
    ap.add_argument('--timeout', type=int, default=25, help='libFuzzer per-unit timeout in seconds (noise, never a violation)')
    ap.add_argument('--extra-src', action='append', default=[])
    ap.add_argument('--exclude', default='', help='comma list handed to the target as VERIF_FUZZ_EXCLUDE')
    ap.add_argument('--json', help='write the summary as JSON to this file')
    ap.add_argument('--build-only', action='store_true')
    ap.add_argument('--exe', help='use this prebuilt libFuzzer binary instead of building the source')
    ap.add_argument('--name', help='target name for a prebuilt binary')
    ap.add_argument('--property', help='handed to the target as VERIF_FUZZ_PROPERTY')
    a = ap.parse_args()

    if a.exe:
        name, exe = a.name or os.path.basename(a.exe), a.exe
    else:
        src = a.source if os.path.isabs(a.source) else os.path.join(ROOT, a.source)
        name, exe = build(src, a.extra_src)
    if a.build_only:
        print(exe)
        return 0

    seeds = a.corpus or os.path.join(ROOT, 'corpus', name)
    arts = a.artifacts or os.path.join(ROOT, 'replays', 'found', 'fuzz-' + name)
    os.makedirs(arts, exist_ok=True)
    work = os.path.join(CACHE, 'run', 'fuzz-%s-%d' % (name, os.getpid()))
    shutil.rmtree(work, ignore_errors=True)
    corpus = os.path.join(work, 'corpus')
    os.makedirs(corpus)
    n_seeds = 0
    if not a.empty_corpus and os.path.isdir(seeds):
        for f in sorted(os.listdir(seeds)):
            p = os.path.join(seeds, f)
            if os.path.isfile(p) and not f.endswith(('.case', '.txt', '.md')):
                shutil.copy(p, os.path.join(corpus, f))
                n_seeds += 1

    env = dict(os.environ)
    env['ASAN_OPTIONS'] = 'detect_leaks=0:abort_on_error=0:allocator_may_return_null=1:detect_stack_use_after_return=0'
    env['UBSAN_OPTIONS'] = 'print_stacktrace=1'
    if a.exclude:
        env['VERIF_FUZZ_EXCLUDE'] = a.exclude
    if a.property:
        env['VERIF_FUZZ_PROPERTY'] = a.property
    before = set(os.listdir(arts))
    cmd = [exe, corpus, '-seed=%d' % (a.seed or 1), '-runs=%d' % a.runs, '-artifact_prefix=' + arts + '/', '-print_final_stats=1',
           '-max_len=%d' % a.max_len, '-timeout=%d' % a.timeout, '-detect_leaks=0', '-rss_limit_mb=4096']
    if a.max_total_time:
        cmd.append('-max_total_time=%d' % a.max_total_time)
    t0 = time.time()
    r = subprocess.run(cmd, stdout=subprocess.PIPE, stderr=subprocess.STDOUT, text=True, errors='replace', env=env)
    wall = time.time() - t0
    out = r.stdout

    status = [l for l in out.splitlines() if re.match(r'#\d+\s+(DONE|NEW|REDUCE|pulse|INITED|RELOAD)', l)]
    last = status[-1] if status else ''
    inited = next((l for l in status if 'INITED' in l), '')

    def fields(line):
        m = re.search(r'#(\d+)\s+\S+\s+cov: (\d+) ft: (\d+) corp: (\d+)/(\S+)', line)
        return dict(execs=int(m.group(1)), cov=int(m.group(2)), ft=int(m.group(3)), corpus_units=int(m.group(4)), corpus_bytes=m.group(5)) if m else {}

    stats = {m.group(1): int(m.group(2)) for m in re.finditer(r'stat::(\w+):\s+(\d+)', out)}
    # artefacts of this run: new files plus the ones libFuzzer says it wrote (an identical crash reuses the file name)
    written = [os.path.basename(m.group(1)) for m in re.finditer(r'Test unit written to (\S+)', out)]
    new = sorted((set(os.listdir(arts)) - before) | {f for f in written if os.path.exists(os.path.join(arts, f))})
    new = [f for f in new if not f.endswith('.case')]
    crashes = [f for f in new if f.startswith('crash-')]
    noise = [f for f in new if f.startswith(('slow-unit-', 'timeout-', 'oom-', 'leak-'))]
    summary = {
        'target': name, 'seed': a.seed or 1, 'runs_requested': a.runs, 'seed_corpus_units': n_seeds, 'wall_s': round(wall, 1),
        'exit_code': r.returncode, 'after_seed_corpus': fields(inited), 'final': fields(last), 'stats': stats,
        'exec_per_s': stats.get('average_exec_per_sec'), 'crash_artifacts': [os.path.join(arts, f) for f in crashes],
        'noise_artifacts': [os.path.join(arts, f) for f in noise], 'repo': REPO,
    }
    print('fuzz %s seed=%d: %s execs in %.1fs (%s exec/s), seed corpus %d units, after seeds: %s, final: %s' % (
        name, a.seed or 1, stats.get('number_of_executed_units', '?'), wall, stats.get('average_exec_per_sec', '?'), n_seeds,
        json.dumps(fields(inited)), json.dumps(fields(last))))
    for f in noise:
        print('inconclusive (not a violation): %s' % os.path.join(arts, f))
    rc = 0
    m = re.search(r'VERIF-FUZZ-VIOLATION (.*)', out)
    for f in crashes:
        p = os.path.join(arts, f)
        what = m.group(1) if m else ''
        if not what:
            for pat in (r'.*Assertion .* failed.*', r'.*runtime error: .*', r'SUMMARY: .*'):
                mm = re.search(pat, out)
                if mm:
                    what = mm.group(0).strip()[:400]
                    break
        print('DETAIL target=%s %s' % (name, what[:600]))
        denv = dict(env)
        denv['VERIF_FUZZ_DECODE'] = '1'
        try:
            d = subprocess.run([exe, p], stdout=subprocess.PIPE, stderr=subprocess.DEVNULL, text=True, env=denv, timeout=60)
            case = d.stdout.strip()
            if case:
                with open(p + '.case', 'w') as fh:
                    fh.write(case + '\n')
                print('decoded case (%s.case):\n%s' % (p, case))
        except Exception as e:  # the decoder is optional
            log('decode failed: %s' % e)
        print('VIOLATION target=%s artifact=%s' % (name, p))
        rc = 1
    if r.returncode != 0 and not crashes and not noise:
        print('fuzzer exited with %d without an artefact:\n%s' % (r.returncode, out[-3000:]))
        rc = 2
    if a.json:
        with open(a.json, 'w') as fh:
            json.dump(summary, fh, indent=1)
            fh.write('\n')
    shutil.rmtree(work, ignore_errors=True)
    return rc


if __name__ == '__main__':
    sys.exit(main())
