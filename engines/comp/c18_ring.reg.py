_BUF_NRF_INC = ['-I' + _os.path.join(_os.path.dirname(_os.path.abspath(__file__)), 'engines', 'comp', 'nrf_stub'),
                '-I$REPO/bluetoe/bindings/nordic/include']

target('c18_ring', 'engines/comp/c18_ring.cpp', inc=_BUF_NRF_INC,
       quick=dict(cases=900000, size=200), thorough=dict(cases=6000000, size=300))
prop('C18', ['c18_ring'], 'comp',
     rule='rapidcheck picks one of 33 instantiated rings (Size 3..600 x default layout / the real nRF encrypted layout from '
          'bluetoe/nrf.hpp) and a sequence of alloc_front/push_front/next_end/pop_end/more_than_one/reset calls (length grows with the '
          'rapidcheck size, up to 200 quick / 300 thorough); allocation sizes are absolute (2..Size+1, at most 257) or relative to the '
          'free space of the model (tail and gap before the oldest PDU, -2..+2); a case is non-trivial if a push wraps to the start of '
          'the storage while at least one older PDU is still stored (>= 2 live PDUs across the wrap); distinct = distinct serialised cases',
     technique='model-based property testing (rapidcheck) against a deque of PDU memory images; exact-size heap storage under ASan',
     level_text='after every operation the ring is compared with a FIFO model: next_end address/size/bytes, more_than_one, every live PDU '
                'byte for byte after the whole allocated block was overwritten, allocated blocks inside the storage and disjoint from live '
                'PDUs, ASan red zones around the storage; allocation failure is only an alarm where the ring\'s own rule (pinned by '
                'ring_buffer_tests) promises space. Sampling, not proof.',
     level_note='trusted: the FIFO model and the one-directional allocation rule in engines/comp/c18_ring.cpp; engines/comp/nrf_stub/nrf.h '
                'only lets bluetoe/nrf.hpp compile on the host (no register is touched)',
     assumptions=COMMON_ASSUME + ['callers respect the documented preconditions: alloc size >= header size, pushed length field != 0 and '
                                  '<= allocated size, pop_end only on a non-empty ring'])
