target('c23_latency', 'engines/comp/c23_latency.cpp', extra_src=['$REPO/bluetoe/link_layer/delta_time.cpp'],
       quick=dict(cases=200000, size=120), thorough=dict(cases=3000000, size=200))
# NOTE: the link-layer level harness of C23 (engines/ll) is registered by its own fragment; if that fragment calls prop('C23', ...)
# it has to list 'c23_latency' as well (fragments are executed in path order, the later prop() wins).
prop('C23', ['c23_latency'] + [t for t in PROPERTIES.get('C23', {}).get('targets', []) if t != 'c23_latency'], 'comp',
     rule='rapidcheck picks one of 36 instantiated peripheral_latency_state configurations (all 32 subsets of the five listen_if_* options, '
          'listen_always, three configuration sets of three configurations switched at run time), a connection interval (7.5 ms .. 4 s) and a '
          'sequence (length grows with the rapidcheck size) of plan_next_connection_event(latency 0..499, all 2^6 event flag combinations, '
          'pending instant none / 0..12 / up to 600 / around 2^15 / around 2^16 events ahead), bursts of 125..131 maximal skips that carry the '
          '16 bit counter over its wrap, walks that land the counter exactly on 65535-d (d mostly 0..3), plan_next_connection_event_after_timeout, reschedule_on_pending_data with a toy radio whose '
          'disarm_connection_event() answer (refused / elapsed time, including exact interval multiples) is generated, reset_connection_state '
          'and change_peripheral_latency; non-trivial: at least one plan skipped events (n > 1) and at least one pull-back by k > 0 events or one '
          'listen forced by a configured condition / error while latency > 0; distinct = distinct serialised cases',
     technique='model-based property testing (rapidcheck) of peripheral_latency_state against reference arithmetic on plain integers',
     level_text='after every operation connection_event_counter(), current_channel_index() and time_since_last_event() are compared with integer '
                'arithmetic (counter mod 2^16, channel index mod 37, n x interval); a plan must advance 1..latency+1 events, exactly 1 when a '
                'configured condition flag, error_occured or listen_always holds, and never past a pending instant that lies ahead; a pull-back '
                'must move counter, channel index and time together, not before the first event after the last one that took place and not '
                'before the time the radio reported; refused pull-backs change nothing. Component level sampling, not proof.',
     level_note='trusted: the integer model in engines/comp/c23_latency.cpp; that the link layer feeds the right flags / latency / instant into this '
                'component is decided by the link-layer harness of C23, not here; a weak liveness oracle (an early enough disarm moves the event by '
                'at least one interval when listen_if_pending_transmit_data is in force) is included',
     assumptions=COMMON_ASSUME)
