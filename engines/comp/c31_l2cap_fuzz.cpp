// C31: L2CAP channel multiplexing and signalling -- libFuzzer target (DESIGN.md 2.2, section 4 C31)
//
// The input bytes are decoded with FuzzedDataProvider into the same c31::Case the rapidcheck harness generates and
// handed to the same c31::run() (fresh stacks, context and model for every input). An oracle violation prints the
// decoded case and traps; asserts and sanitizer reports end the process on their own.
//
// fuzz-extra-src: $REPO/bluetoe/utility/address.cpp
//
// Environment (conventions of engines/comp/run_fuzz.py):
//   VERIF_FUZZ_DECODE=1             print the decoded case of every input instead of executing it
//   VERIF_FUZZ_ENCODE=<in>:<out>    write the input bytes that decode to the case text in file <in> to <out>, then exit
//   VERIF_FUZZ_EXCLUDE=F-31,F-31b   shapes to leave out (open findings)
#include "c31_common.hpp"

#include <fuzzer/FuzzedDataProvider.h>

namespace {

    using namespace c31;

    constexpr std::size_t max_ops          = 48;
    constexpr int         max_cycle_rounds = 300;  // per case, keeps the executions per second up
    const int             cid_table[]      = { 4, 5, 6, 0, 7, 0x40, 0xffff, 0x0104, 0x0105, 0x0500 };
    constexpr int         cid_table_size   = sizeof( cid_table ) / sizeof( cid_table[ 0 ] );
    enum { K_FRAME_RAW = 0, K_RESP, K_BUFS, K_POLL, K_QOUT, K_CPU, K_CYCLE, K_FRAME_STRUCTURED, K_COUNT };

    Case decode( const std::uint8_t* data, std::size_t size )
    {
        FuzzedDataProvider in( data, size );
        Case               c;
        c.setup      = in.ConsumeIntegralInRange< int >( 0, num_setups - 1 );
        c.init_bufs  = in.ConsumeIntegralInRange< int >( 0, 4 );
        c.init_slack = in.ConsumeIntegralInRange< int >( 0, 8 );
        int rounds   = 0;
        while ( in.remaining_bytes() != 0 && c.ops.size() < max_ops )
        {
            Op o;
            switch ( in.ConsumeIntegralInRange< int >( 0, K_COUNT - 1 ) )
            {
            case K_FRAME_RAW:
                o.kind  = FRAME;
                o.bytes = in.ConsumeBytes< std::uint8_t >( in.ConsumeIntegralInRange< std::size_t >( 0, 80 ) );
                o.a     = in.ConsumeIntegralInRange< int >( 0, 60 );
                o.b     = in.ConsumeIntegral< std::uint8_t >();
                break;
            case K_FRAME_STRUCTURED: {
                o.kind              = FRAME;
                const int     cid   = cid_table[ in.ConsumeIntegralInRange< int >( 0, cid_table_size - 1 ) ];
                const bytes_t pl    = in.ConsumeBytes< std::uint8_t >( in.ConsumeIntegralInRange< std::size_t >( 0, 70 ) );
                o.bytes             = { static_cast< std::uint8_t >( pl.size() ), 0, static_cast< std::uint8_t >( cid ), static_cast< std::uint8_t >( cid >> 8 ) };
                o.bytes.insert( o.bytes.end(), pl.begin(), pl.end() );
                o.a = in.ConsumeIntegralInRange< int >( 0, 60 );
                o.b = in.ConsumeIntegral< std::uint8_t >();
            }
            break;
            case K_RESP:
                o.kind  = RESP;
                o.a     = in.ConsumeIntegralInRange< int >( 0, 2 );
                o.b     = in.ConsumeIntegral< std::uint8_t >();
                o.bytes = in.ConsumeBytes< std::uint8_t >( in.ConsumeIntegralInRange< std::size_t >( 0, 8 ) );
                break;
            case K_BUFS:
                o.kind = BUFS;
                o.a    = in.ConsumeIntegralInRange< int >( 0, 6 );
                o.b    = in.ConsumeIntegralInRange< int >( 0, 9 );
                break;
            case K_POLL: o.kind = POLL; break;
            case K_QOUT:
                o.kind = QOUT;
                o.a    = in.ConsumeIntegralInRange< int >( 0, 1 );
                o.b    = in.ConsumeIntegralInRange< int >( 1, 48 );
                o.c    = in.ConsumeIntegral< std::uint8_t >();
                break;
            case K_CPU:
                o.kind = CPU;
                o.a    = in.ConsumeIntegral< std::uint16_t >();
                o.b    = in.ConsumeIntegral< std::uint16_t >();
                o.c    = in.ConsumeIntegral< std::uint16_t >();
                o.d    = in.ConsumeIntegral< std::uint16_t >();
                break;
            default:
                o.kind = CYCLE;
                o.a    = std::min( in.ConsumeIntegralInRange< int >( 0, 270 ), max_cycle_rounds - rounds );
                rounds += o.a;
                break;
            }
            c.ops.push_back( o );
        }
        return c;
    }

    // the inverse of decode(): FuzzedDataProvider takes octet strings from the front and integers from the back
    struct encoder
    {
        bytes_t front, back;  // back in the order of consumption
        void    range( long v, long lo, long hi )
        {
            const unsigned long r = static_cast< unsigned long >( hi - lo );
            const unsigned long x = static_cast< unsigned long >( std::min( std::max( v, lo ), hi ) - lo );
            int                 n = 0;
            while ( n < 8 && ( r >> ( 8 * n ) ) > 0 )
                ++n;
            for ( int i = n - 1; i >= 0; --i )
                back.push_back( static_cast< std::uint8_t >( x >> ( 8 * i ) ) );
        }
        void    octets( const bytes_t& b ) { front.insert( front.end(), b.begin(), b.end() ); }
        bytes_t result() const
        {
            bytes_t r = front;
            r.insert( r.end(), back.rbegin(), back.rend() );
            return r;
        }
    };

    bytes_t encode( const Case& c )
    {
        encoder e;
        e.range( c.setup, 0, num_setups - 1 );
        e.range( c.init_bufs, 0, 4 );
        e.range( c.init_slack, 0, 8 );
        for ( auto& o : c.ops )
        {
            switch ( o.kind )
            {
            case FRAME: {
                int idx = -1;
                if ( o.bytes.size() >= 4 && o.bytes.size() <= 74 && le16( &o.bytes[ 0 ] ) == o.bytes.size() - 4 )
                    for ( int i = 0; i != cid_table_size; ++i )
                        if ( cid_table[ i ] == le16( &o.bytes[ 2 ] ) )
                            idx = i;
                if ( idx >= 0 )
                {
                    e.range( K_FRAME_STRUCTURED, 0, K_COUNT - 1 );
                    e.range( idx, 0, cid_table_size - 1 );
                    e.range( static_cast< long >( o.bytes.size() - 4 ), 0, 70 );
                    e.octets( bytes_t( o.bytes.begin() + 4, o.bytes.end() ) );
                }
                else
                {
                    e.range( K_FRAME_RAW, 0, K_COUNT - 1 );
                    e.range( static_cast< long >( std::min< std::size_t >( o.bytes.size(), 80 ) ), 0, 80 );
                    e.octets( bytes_t( o.bytes.begin(), o.bytes.begin() + static_cast< long >( std::min< std::size_t >( o.bytes.size(), 80 ) ) ) );
                }
                e.range( o.a, 0, 60 );
                e.range( o.b & 0xff, 0, 255 );
            }
            break;
            case RESP:
                e.range( K_RESP, 0, K_COUNT - 1 );
                e.range( o.a, 0, 2 );
                e.range( o.b & 0xff, 0, 255 );
                e.range( static_cast< long >( std::min< std::size_t >( o.bytes.size(), 8 ) ), 0, 8 );
                e.octets( bytes_t( o.bytes.begin(), o.bytes.begin() + static_cast< long >( std::min< std::size_t >( o.bytes.size(), 8 ) ) ) );
                break;
            case BUFS:
                e.range( K_BUFS, 0, K_COUNT - 1 );
                e.range( o.a, 0, 6 );
                e.range( o.b, 0, 9 );
                break;
            case POLL: e.range( K_POLL, 0, K_COUNT - 1 ); break;
            case QOUT:
                e.range( K_QOUT, 0, K_COUNT - 1 );
                e.range( o.a, 0, 1 );
                e.range( o.b, 1, 48 );
                e.range( o.c & 0xff, 0, 255 );
                break;
            case CPU:
                e.range( K_CPU, 0, K_COUNT - 1 );
                for ( int v : { o.a, o.b, o.c, o.d } )
                    e.range( v & 0xffff, 0, 0xffff );
                break;
            case CYCLE:
                e.range( K_CYCLE, 0, K_COUNT - 1 );
                e.range( o.a, 0, 270 );
                break;
            }
        }
        return e.result();
    }

    bool        decode_only = false;
    exclusions  excluded;

    bool list_has( const char* list, const std::string& item )
    {
        std::istringstream is( list ? list : "" );
        std::string        t;
        while ( std::getline( is, t, ',' ) )
            if ( t == item )
                return true;
        return false;
    }
}

extern "C" const char* __asan_default_options() { return "quarantine_size_mb=4"; }

extern "C" int LLVMFuzzerInitialize( int*, char*** )
{
    decode_only   = std::getenv( "VERIF_FUZZ_DECODE" ) != nullptr;
    excluded.f31  = list_has( std::getenv( "VERIF_FUZZ_EXCLUDE" ), "F-31" );
    excluded.f31b = list_has( std::getenv( "VERIF_FUZZ_EXCLUDE" ), "F-31b" );
    if ( const char* enc = std::getenv( "VERIF_FUZZ_ENCODE" ) )
    {
        const std::string spec = enc;
        const auto        p    = spec.find( ':' );
        std::ifstream     in( spec.substr( 0, p ) );
        std::stringstream ss;
        ss << in.rdbuf();
        const Case    c = c31::from_text( ss.str() );
        const bytes_t b = encode( c );
        if ( c31::to_text( decode( b.data(), b.size() ) ) != c31::to_text( c ) )
            std::cerr << "note: the case is outside the domain of the decoder, the encoding is the nearest one\n"
                      << c31::to_text( decode( b.data(), b.size() ) );
        std::ofstream out( spec.substr( p + 1 ), std::ios::binary );
        out.write( reinterpret_cast< const char* >( b.data() ), static_cast< std::streamsize >( b.size() ) );
        out.close();
        std::exit( out ? 0 : 2 );
    }
    return 0;
}

extern "C" int LLVMFuzzerTestOneInput( const std::uint8_t* data, std::size_t size )
{
    const Case c = decode( data, size );
    if ( decode_only )
    {
        // libFuzzer executes a file given on the command line more than once
        static std::string last;
        const std::string  text = c31::to_text( c );
        if ( text != last )
            std::cout << text << std::flush;
        last = text;
        return 0;
    }
    verif::Report rep;
    try
    {
        c31::run( c, rep, excluded );
    }
    catch ( const verif::failure& f )
    {
        std::cerr << "VERIF-FUZZ-VIOLATION oracle=" << f.oracle << " sig={" << f.sig << "} msg=" << f.msg << "\n"
                  << "VERIF-FUZZ-CASE-BEGIN\n" << c31::to_text( c ) << "VERIF-FUZZ-CASE-END\n" << std::flush;
        __builtin_trap();
    }
    return 0;
}
