// C30: bluetoe::details::ring is a lossless SPSC FIFO under any interleaving (DESIGN.md section 4, C30; hook 2)
//
// Generated: capacity S (1..4, all instantiated), a start state (the indices rotated by `rot` push/pop pairs, `fill`
// elements left in the ring), a producer program of try_push operations, a consumer program of try_pop operations and a
// SCHEDULE that is applied by lib/sched.hpp at every yield point: every load/store of the two indices (the hook replaces
// std::atomic_int by `ring_index`) and every word of the element copy (the element type is ours).
// Two scheduling models: free interleaving of two contexts, and interrupt nesting in both directions.
//
// Oracle (no knowledge of the ring's algorithm): the observed history - every operation with its result and its
// [begin,end] interval in the global event order, followed by a sequential drain - must be linearizable with respect
// to a bounded FIFO of capacity S: push fails only if the FIFO is full, pop fails only if it is empty, pop returns the
// oldest element. That is exactly the statement of C30 ("at some instant during the call ..."). In addition no popped
// element may be torn (its two words belong to one pushed value).
//
// Target c30_ring_dfs (opt mode=dfs) enumerates complete schedule trees depth first instead of sampling them.
#include "verif.hpp"
#include "sched.hpp"
#include "sched_dfs.hpp"

#include <memory>

namespace {
    using verif::sched::Sched;

    // hook 2: the index type of the ring; every access is a yield point
    struct ring_index
    {
        int v;
        ring_index( int x = 0 ) : v( x ) {}
        int load() const
        {
            Sched::get().access( 'l', this );
            return v;
        }
        void store( int x )
        {
            Sched::get().access( 's', this );
            v = x;
        }
    };
}

#define BLUETOE_VERIF_RING_INDEX ring_index
#include <bluetoe/ring.hpp>

#ifndef BLUETOE_VERIF_HOOKS
#error "the driver compiles every harness with -DBLUETOE_VERIF_HOOKS"
#endif

namespace {

    // two-word element; the copy yields before each word, so a concurrent overwrite shows up as a torn element
    struct elem
    {
        int a = 0, b = 0;
        elem() {}
        explicit elem( int x ) : a( x ), b( ~x ) {}
        elem( const elem& o ) : a( o.a ), b( o.b ) {}
        elem& operator=( const elem& o )
        {
            Sched::get().access( 'c', &a );
            a = o.a;
            Sched::get().access( 'c', &b );
            b = o.b;
            return *this;
        }
        bool torn() const { return b != ~a; }
    };

    struct ring_if
    {
        virtual ~ring_if() {}
        virtual bool try_push( const elem& ) = 0;
        virtual bool try_pop( elem& )        = 0;
        virtual void reset()                 = 0;   // a brand new ring (constructed again in place)
    };

    template < std::size_t S >
    struct ring_impl : ring_if
    {
        bluetoe::details::ring< S, elem > r;
        bool try_push( const elem& e ) override { return r.try_push( e ); }
        bool try_pop( elem& e ) override { return r.try_pop( e ); }
        void reset() override
        {
            using ring_t = bluetoe::details::ring< S, elem >;
            r.~ring_t();
            new ( &r ) ring_t();
        }
    };

    // one object per capacity, constructed again for every execution (no allocation on the hot path of the enumeration)
    ring_if& fresh_ring( int S )
    {
        static ring_impl< 1 > r1;
        static ring_impl< 2 > r2;
        static ring_impl< 3 > r3;
        static ring_impl< 4 > r4;
        ring_if* r = S == 1 ? static_cast< ring_if* >( &r1 ) : S == 2 ? static_cast< ring_if* >( &r2 ) : S == 3 ? static_cast< ring_if* >( &r3 ) : static_cast< ring_if* >( &r4 );
        r->reset();
        return *r;
    }

    struct Case
    {
        int                         S      = 1;
        int                         model  = 0;   // 0 free, 1 nest
        int                         first  = 0;   // free: context that starts; nest: the interrupted context (0 producer, 1 consumer)
        int                         rot    = 0;   // push/pop pairs before the start (rotates the indices)
        int                         fill   = 0;   // elements in the ring at the start
        int                         pushes = 1;   // producer program
        int                         pops   = 1;   // consumer program
        int                         dfs    = 0;   // 1: enumerate every schedule (bounded by `bound` context switches if >= 0)
        int                         bound  = -1;
        std::vector< std::uint8_t > sched;
    };

    // ------------------------------------------------------------------------------------------ serialisation
    std::string to_text( const Case& c )
    {
        std::ostringstream os;
        os << "cfg S " << c.S << " model " << ( c.model ? "nest" : "free" ) << " first " << ( c.first ? "consumer" : "producer" ) << " rot " << c.rot
           << " fill " << c.fill;
        if ( c.dfs )
            os << " dfs " << c.dfs << " bound " << c.bound;
        os << "\n";
        for ( int i = 0; i != c.pushes; ++i )
            os << "p push\n";
        for ( int i = 0; i != c.pops; ++i )
            os << "c pop\n";
        if ( !c.dfs )
        {
            os << "sched";
            for ( auto v : c.sched )
                os << ' ' << int( v );
            os << "\n";
        }
        return os.str();
    }

    Case from_text( const std::string& t )
    {
        Case c;
        c.pushes = c.pops = 0;
        verif::Lines L( t );
        for ( auto& l : L.lines )
        {
            if ( l[ 0 ] == "cfg" )
            {
                for ( std::size_t i = 1; i + 1 < l.size(); i += 2 )
                {
                    const std::string& k = l[ i ];
                    const std::string& v = l[ i + 1 ];
                    if ( k == "S" ) c.S = std::atoi( v.c_str() );
                    else if ( k == "model" ) c.model = v == "nest";
                    else if ( k == "first" ) c.first = v == "consumer";
                    else if ( k == "rot" ) c.rot = std::atoi( v.c_str() );
                    else if ( k == "fill" ) c.fill = std::atoi( v.c_str() );
                    else if ( k == "dfs" ) c.dfs = std::atoi( v.c_str() );
                    else if ( k == "bound" ) c.bound = std::atoi( v.c_str() );
                }
            }
            else if ( l[ 0 ] == "p" ) ++c.pushes;
            else if ( l[ 0 ] == "c" ) ++c.pops;
            else if ( l[ 0 ] == "sched" )
                for ( std::size_t i = 1; i < l.size(); ++i )
                    c.sched.push_back( static_cast< std::uint8_t >( std::atoi( l[ i ].c_str() ) ) );
        }
        c.S    = std::max( 1, std::min( 4, c.S ) );
        c.fill = std::max( 0, std::min( c.S, c.fill ) );
        c.rot  = std::max( 0, std::min( 8, c.rot ) );
        c.pushes = std::min( 8, c.pushes );
        c.pops   = std::min( 8, c.pops );
        return c;
    }

    // ------------------------------------------------------------------------------------------ one execution
    struct OpRec
    {
        int  ctx;       // 0 producer, 1 consumer
        bool ok;        // result
        int  value;     // pushed / popped value
        bool torn;
        int  begin, end;  // positions in the global event order
    };

    template < class T, std::size_t N >
    struct small_vec
    {
        T           v[ N ];
        std::size_t n = 0;
        void        push_back( const T& x )
        {
            if ( n == N )
                std::abort();
            v[ n++ ] = x;
        }
        void        resize( std::size_t k ) { n = k; }
        T&          operator[]( std::size_t i ) { return v[ i ]; }
        const T&    operator[]( std::size_t i ) const { return v[ i ]; }
        const T*    begin() const { return v; }
        const T*    end() const { return v + n; }
        const T&    back() const { return v[ n - 1 ]; }
        std::size_t size() const { return n; }
        bool        empty() const { return n == 0; }
    };

    struct Exec
    {
        small_vec< OpRec, 24 > ops;     // producer ops, then consumer ops, then drain
        std::size_t          n_prod = 0, n_cons = 0;
        bool                 copy_to_store_switch = false;
        bool                 wrapped = false, push_full = false, pop_empty = false;
        unsigned             switches = 0;
        small_vec< int, 8 >  initial;   // values in the ring at the start
    };

    // the sequential specification: bounded FIFO of capacity S. Search for an order of all operations that respects the
    // program order of each context and the real-time order (an operation that ended before another began comes first)
    // and in which every result is the one the FIFO gives.
    struct lin_search
    {
        const OpRec* P[ 24 ];
        const OpRec* C[ 24 ];
        std::size_t  np = 0, nc = 0;
        int          S;
        int          q[ 64 ];

        bool go( std::size_t ip, std::size_t ic, int head, int tail )
        {
            if ( ip == np && ic == nc )
                return true;
            if ( ip != np )
            {
                const OpRec& o = *P[ ip ];
                if ( ic == nc || !( C[ ic ]->end < o.begin ) )
                {
                    const bool full = tail - head == S;
                    if ( o.ok != full )
                    {
                        if ( o.ok )
                            q[ tail ] = o.value;
                        if ( go( ip + 1, ic, head, o.ok ? tail + 1 : tail ) )
                            return true;
                    }
                }
            }
            if ( ic != nc )
            {
                const OpRec& o = *C[ ic ];
                if ( ip == np || !( P[ ip ]->end < o.begin ) )
                {
                    const bool empty = tail == head;
                    if ( o.ok != empty && ( !o.ok || q[ head ] == o.value ) )
                    {
                        // q[ head ] stays in place: a sibling branch pushes at `tail` or beyond only
                        if ( go( ip, ic + 1, o.ok ? head + 1 : head, tail ) )
                            return true;
                    }
                }
            }
            return false;
        }
    };

    bool linearizable( const Exec& e, int S )
    {
        lin_search L;
        L.S = S;
        for ( auto& o : e.ops )
            if ( o.ctx == 0 )
                L.P[ L.np++ ] = &o;
            else
                L.C[ L.nc++ ] = &o;
        int tail = 0;
        for ( auto v : e.initial )
            L.q[ tail++ ] = v;
        return L.go( 0, 0, 0, tail );
    }

    std::string history_text( const Exec& e )
    {
        std::ostringstream os;
        os << "start=[";
        for ( auto v : e.initial )
            os << v << ' ';
        os << "]";
        for ( auto& o : e.ops )
        {
            os << " " << ( o.ctx ? "C" : "P" ) << "@" << o.begin << ".." << o.end << ( o.ctx ? ":pop" : ":push" );
            if ( o.ctx == 0 )
                os << "(" << o.value << ")=" << o.ok;
            else if ( o.ok )
                os << "=" << o.value << ( o.torn ? "(TORN)" : "" );
            else
                os << "=none";
        }
        return os.str();
    }

    Exec execute( const Case& c, const std::vector< std::uint8_t >& schedule, int bound )
    {
        Exec  e;
        ring_if* const ring = &fresh_ring( c.S );
        Sched& sc  = Sched::get();

        // start state (sequential, not scheduled)
        int next_value = 100;
        for ( int i = 0; i != c.rot; ++i )
        {
            elem x;
            ring->try_push( elem( 1 ) );
            ring->try_pop( x );
        }
        for ( int i = 0; i != c.fill; ++i )
        {
            if ( ring->try_push( elem( next_value ) ) )
                e.initial.push_back( next_value );
            ++next_value;
        }
        e.wrapped = c.rot + c.fill + c.pushes > c.S;

        e.ops.resize( c.pushes + c.pops );
        e.n_prod = c.pushes;
        e.n_cons = c.pops;
        const std::function< void() > producer = [&] {
            for ( int i = 0; i != c.pushes; ++i )
            {
                OpRec& o = e.ops[ i ];
                o.ctx    = 0;
                o.value  = i + 1;
                o.torn   = false;
                const elem v( o.value );
                sc.begin_op();
                o.begin = static_cast< int >( sc.log.size() ) - 1;
                o.ok    = ring->try_push( v );
                sc.end_op();
                o.end = static_cast< int >( sc.log.size() ) - 1;
            }
        };
        const std::function< void() > consumer = [&] {
            for ( int i = 0; i != c.pops; ++i )
            {
                OpRec& o = e.ops[ c.pushes + i ];
                o.ctx    = 1;
                elem out;
                sc.begin_op();
                o.begin = static_cast< int >( sc.log.size() ) - 1;
                o.ok    = ring->try_pop( out );
                sc.end_op();
                o.end   = static_cast< int >( sc.log.size() ) - 1;
                o.value = out.a;
                o.torn  = o.ok && out.torn();
            }
        };
        sc.max_switches = bound;
        sc.run( c.model ? verif::sched::NEST : verif::sched::FREE, c.first, schedule, c.pushes, c.pops, producer, consumer );
        sc.max_switches = -1;
        e.switches = sc.preemptions;
        {
            bool index_access_seen = false;
            for ( auto& ev : sc.log )
                index_access_seen = index_access_seen || ev.kind == 'l';
            V_CHECK( index_access_seen || c.pushes + c.pops == 0, "harness.hook-missing", "no index load went through BLUETOE_VERIF_RING_INDEX: hook 2 (ring.hpp) is not in the tree under test" );
        }

        // non-trivial: a context switch between an element copy and the index store of the same operation
        {
            int copy_seen[ 2 ] = { -1, -1 };  // op in which a copy event was seen
            for ( auto& ev : sc.log )
            {
                if ( ev.kind == 'c' )
                {
                    if ( copy_seen[ ev.ctx ] == ev.op && ev.switched_before )
                        e.copy_to_store_switch = true;
                    copy_seen[ ev.ctx ] = ev.op;
                }
                else if ( ev.kind == 's' && copy_seen[ ev.ctx ] == ev.op && ev.switched_before )
                    e.copy_to_store_switch = true;
            }
        }

        // drain (sequential): everything that is left must come out, then the ring is empty
        int t = static_cast< int >( sc.log.size() );
        for ( int i = 0; i != c.S + 2; ++i )
        {
            OpRec o;
            o.ctx = 1;
            elem out;
            o.begin = ++t;
            o.ok    = ring->try_pop( out );
            o.end   = ++t;
            o.value = out.a;
            o.torn  = o.ok && out.torn();
            e.ops.push_back( o );
            if ( !o.ok )
                break;
        }
        for ( std::size_t i = 0; i != e.n_prod + e.n_cons; ++i )
        {
            if ( e.ops[ i ].ctx == 0 && !e.ops[ i ].ok ) e.push_full = true;
            if ( e.ops[ i ].ctx == 1 && !e.ops[ i ].ok ) e.pop_empty = true;
        }
        return e;
    }

    void judge( const Case& c, const Exec& e, const std::string& where )
    {
        for ( auto& o : e.ops )
            V_CHECK( !( o.ctx == 1 && o.torn ), "ring.torn-element", where, "a popped element is torn (words of different pushes): ", history_text( e ) );
        V_CHECK( !e.ops.back().ok, "ring.invented-element", where, "the drain popped more than ", c.S + 1, " elements: ", history_text( e ) );
        V_CHECK( linearizable( e, c.S ), "ring.not-a-fifo", where, "history is not linearizable as a FIFO of capacity ", c.S,
            " (lost / duplicated / reordered element, pop failed while an element was pending or push failed while not full): ", history_text( e ) );
    }

    // ------------------------------------------------------------------------------------------ run
    void run( const Case& c, verif::Report& rep )
    {
        if ( c.pushes + c.pops == 0 && c.dfs )
        {
            rep.label( "dfs-padding" );
            return;
        }
        rep.label( verif::cat( "S=", c.S ) );
        rep.label( c.model ? ( c.first ? "model=nest-producer-interrupts-consumer" : "model=nest-consumer-interrupts-producer" ) : "model=free" );

        if ( !c.dfs )
        {
            const Exec e = execute( c, c.sched, -1 );
            judge( c, e, "" );
            rep.nontrivial = e.copy_to_store_switch;
            rep.label_if( e.wrapped, "index-wrap-around" );
            rep.label_if( e.push_full, "push-refused" );
            rep.label_if( e.pop_empty, "pop-refused" );
            rep.label( verif::cat( "switches=", e.switches > 6 ? std::string( ">6" ) : std::to_string( e.switches ) ) );
            return;
        }

        // exhaustive enumeration of the schedule tree of this program pair
        std::vector< std::uint8_t > schedule;
        std::uint64_t               n = 0, nontrivial = 0;
        for ( ;; )
        {
            const Exec e = execute( c, schedule, c.bound );
            ++n;
            if ( e.copy_to_store_switch )
                ++nontrivial;
            try
            {
                judge( c, e, "" );
            }
            catch ( verif::failure& f )
            {
                Case one  = c;
                one.dfs   = 0;
                one.sched = schedule;
                std::string t = to_text( one );
                for ( auto& ch : t )
                    if ( ch == '\n' )
                        ch = ';';
                f.msg = verif::cat( "schedule #", n, " of the enumeration fails; as a single case: ", t, "  ", f.msg );
                throw;
            }
            const std::vector< verif::sched::Choice > trace = Sched::get().trace;
            if ( !Sched::next_schedule( trace, schedule ) )
                break;
        }
        rep.nontrivial = nontrivial != 0;
        verif::sched::tree_completed( n, nontrivial );
        rep.label( c.bound >= 0 ? verif::cat( "dfs-tree-bounded-", c.bound, "-switches" ) : std::string( "dfs-tree-unbounded" ) );
    }

    // ------------------------------------------------------------------------------------------ generators
    // a schedule entry: 0 (go on) half of the time, else 1..3; shrinks towards 0
    rc::Gen< std::uint8_t > gen_choice()
    {
        return rc::gen::map( verif::range< int >( 0, 9 ), []( int v ) { return static_cast< std::uint8_t >( v < 5 ? 0 : v < 8 ? 1 : v - 6 ); } );
    }

    rc::Gen< Case > gen_random()
    {
        return rc::gen::mapcat( verif::range< int >( 1, 4 ), []( int S ) {
            return rc::gen::build< Case >( rc::gen::set( &Case::S, rc::gen::just( S ) ),
                rc::gen::set( &Case::model, rc::gen::weightedElement< int >( { { 3, 0 }, { 1, 1 } } ) ),
                rc::gen::set( &Case::first, verif::range< int >( 0, 1 ) ), rc::gen::set( &Case::rot, verif::range< int >( 0, S + 1 ) ),
                rc::gen::set( &Case::fill, verif::range< int >( 0, S ) ), rc::gen::set( &Case::pushes, verif::range< int >( 1, 4 ) ),
                rc::gen::set( &Case::pops, verif::range< int >( 1, 4 ) ),
                rc::gen::set( &Case::sched,
                    rc::gen::container< std::vector< std::uint8_t > >( gen_choice() ) ) );
        } );
    }

    // the enumerated sub-space of target c30_ring_dfs (see c30_ring.reg.py for the claim)
    std::vector< Case > dfs_space()
    {
        std::vector< Case > all;
        auto                add = [&]( int S, int model, int first, int rot, int fill, int pu, int po, int bound ) {
            Case c;
            c.S = S; c.model = model; c.first = first; c.rot = rot; c.fill = fill; c.pushes = pu; c.pops = po; c.dfs = 1; c.bound = bound;
            all.push_back( c );
        };
        // nesting (both directions): every capacity, every start state, up to 4+4 operations, no bound.
        // free interleaving: capacities 1 and 2, every start state; unbounded while pushes+pops <= dfs_free_sum (5),
        // otherwise bounded: at most 4 preemptions up to 3+3 operations, at most 3 preemptions up to 4+4 operations
        const int free_sum = static_cast< int >( verif::opt_int( "dfs_free_sum", 5 ) );
        const int max_ops  = static_cast< int >( verif::opt_int( "dfs_ops", 4 ) );
        for ( int S = 1; S <= 4; ++S )
            for ( int rot = 0; rot <= S; ++rot )  // rot = S+1 is the same index state as rot = 0
                for ( int fill = 0; fill <= S; ++fill )
                    for ( int first = 0; first <= 1; ++first )
                        for ( int pu = 1; pu <= max_ops; ++pu )
                            for ( int po = 1; po <= max_ops; ++po )
                            {
                                add( S, 1, first, rot, fill, pu, po, -1 );
                                if ( S > 2 )
                                    continue;
                                if ( pu + po <= free_sum )
                                    add( S, 0, first, rot, fill, pu, po, -1 );
                                else
                                    add( S, 0, first, rot, fill, pu, po, pu <= 3 && po <= 3 ? 4 : 3 );
                            }
        // heavy trees first and next to each other, so that dealing them round robin balances the workers
        std::stable_sort( all.begin(), all.end(), []( const Case& a, const Case& b ) {
            const int wa = ( a.model == 0 ? ( a.bound < 0 ? 200 : 100 ) : 0 ) + a.pushes + a.pops;
            const int wb = ( b.model == 0 ? ( b.bound < 0 ? 200 : 100 ) : 0 ) + b.pushes + b.pops;
            return wa > wb;
        } );
        return all;
    }

    rc::Gen< Case > gen_dfs()
    {
        Case padding;
        padding.dfs    = 1;
        padding.pushes = padding.pops = 0;
        return verif::sched::enumerate_gen( dfs_space(), padding );
    }

    rc::Gen< Case > gen_case()
    {
        return verif::opt( "mode" ) == "dfs" ? gen_dfs() : gen_random();
    }
}

int main( int argc, char** argv )
{
    verif::Harness< Case > h;
    h.gen       = gen_case;
    h.to_text   = to_text;
    h.from_text = from_text;
    h.run       = run;
    return verif::run_main( argc, argv, h );
}
