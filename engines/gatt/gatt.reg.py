# gatt engine: generated server declarations + reference ATT model (DESIGN.md 3.2)
import hashlib as _hashlib, json as _json, os as _os, subprocess as _subprocess, sys as _sys, time as _time
from concurrent.futures import ThreadPoolExecutor as _Pool


def _gatt_driver_obj(chk, fuzz):
    """the generic driver (reference model + rapidcheck / libFuzzer entry) does not include repo headers: built once per /verif state"""
    root = chk.ROOT
    # line tables only: the full debug info of two dozen declarations (template names of several kB each) overflows .debug_str at link time
    flags = list(chk.BASE_FLAGS) + list(chk.SAN_FLAGS) + (['-fsanitize=fuzzer-no-link', '-DVG_FUZZ'] if fuzz else [])
    bdir = _os.path.join(chk.CACHE, 'build')
    _os.makedirs(bdir, exist_ok=True)
    drv_src = _os.path.join(root, 'engines/gatt/gatt_driver.cpp')
    dkey = _hashlib.sha256((chk.file_hash([drv_src] + [_os.path.join(root, 'lib', f) for f in ('att_model.hpp', 'gatt_if.hpp', 'verif.hpp', 'prelude.hpp')]) + ' '.join(flags)).encode()).hexdigest()[:16]
    ddir = _os.path.join(bdir, 'norepo-gattdriver-' + dkey)
    dobj = _os.path.join(ddir, 'driver.o')
    if not _os.path.exists(dobj):
        _os.makedirs(ddir, exist_ok=True)
        t0 = _time.time()
        cmd = ['clang++'] + flags + ['-I' + root + '/lib', '-c', drv_src, '-o', dobj + '.tmp%d' % _os.getpid()]
        r = _subprocess.run(cmd, stdout=_subprocess.PIPE, stderr=_subprocess.STDOUT, text=True)
        if r.returncode != 0:
            chk.log('BUILD FAILED gatt driver\n' + r.stdout[-4000:])
            raise SystemExit(2)
        _os.rename(dobj + '.tmp%d' % _os.getpid(), dobj)
        chk.log('built gatt driver in %.1fs' % (_time.time() - t0))
    else:
        _os.utime(ddir)
    return dobj


def _gatt_setup(chk):
    with _Pool(max_workers=2) as ex:
        list(ex.map(lambda f: _gatt_driver_obj(chk, f), [False, True]))


SETUP_HOOKS.append(_gatt_setup)


def _gatt_builder(t, chk):
    """builds <name> = driver object (repo independent) + N generated declaration objects (compiled against the repo)"""
    root = chk.ROOT
    _sys.path.insert(0, _os.path.join(root, 'gen'))
    import gattgen
    import random
    tier = chk.CURRENT.get('tier', 'quick')
    seed = chk.CURRENT.get('seed', 1)
    replay = chk.CURRENT.get('replay')
    exclude = tuple(x for x in chk.CURRENT.get('exclude', '').split(',') if x)
    fuzz = bool(t.get('fuzz'))
    flags = [f if f != '-g' else '-gline-tables-only' for f in chk.BASE_FLAGS] + list(chk.SAN_FLAGS) + (['-fsanitize=fuzzer-no-link', '-DVG_FUZZ'] if fuzz else [])
    bdir = _os.path.join(chk.CACHE, 'build')
    _os.makedirs(bdir, exist_ok=True)

    dobj = _gatt_driver_obj(chk, fuzz)

    # 2. the declarations
    specs = []
    if replay:
        first = open(replay).read().split('\n', 1)[0]
        for line in open(replay):
            if line.startswith('cfg '):
                first = line
                break
        specs = [_json.loads(first.split(' ', 2)[2])]
    else:
        n = t['decls'].get(tier, t['decls']['quick'])
        rnd = random.Random(seed * 7919 + sum(ord(c) for c in t['profile']))
        for _ in range(n):
            specs.append(gattgen.gen_spec(rnd, t['profile'], exclude))
    rh = chk.repo_hash()

    def compile_decl(spec):
        src = gattgen.emit_cpp(spec)
        key = _hashlib.sha256((rh + src + ' '.join(flags)).encode()).hexdigest()[:16]
        odir = _os.path.join(bdir, rh[:12] + '-decl-' + key)
        obj = _os.path.join(odir, 'decl.o')
        if _os.path.exists(obj):
            _os.utime(odir)
            return obj
        if _os.path.exists(_os.path.join(odir, 'FAILED')):
            return None
        _os.makedirs(odir, exist_ok=True)
        cpp = _os.path.join(odir, 'decl.cpp')
        with open(cpp, 'w') as f:
            f.write(src)
        cmd = ['clang++'] + flags + chk.INC + ['-c', cpp, '-o', obj + '.tmp%d' % _os.getpid()]
        r = _subprocess.run(cmd, stdout=_subprocess.PIPE, stderr=_subprocess.STDOUT, text=True)
        if r.returncode != 0:
            with open(_os.path.join(odir, 'FAILED'), 'w') as f:
                f.write(r.stdout[-4000:])
            return None
        _os.rename(obj + '.tmp%d' % _os.getpid(), obj)
        return obj

    t0 = _time.time()
    with _Pool(max_workers=chk.NCPU) as ex:
        objs = list(ex.map(compile_decl, specs))
    good = [o for o in objs if o]
    if not replay:
        chk.CURRENT.setdefault('notes', {})[t['name']] = {'declarations': len(specs), 'compiled': len(good)}
    if len(good) < max(1, len(specs) // 2):
        chk.log('BUILD FAILED: only %d of %d generated declarations compile against the repo' % (len(good), len(specs)))
        bad = [s for s, o in zip(specs, objs) if not o][:1]
        for s in bad:
            src = gattgen.emit_cpp(s)
            key = _hashlib.sha256((rh + src + ' '.join(flags)).encode()).hexdigest()[:16]
            chk.log(open(_os.path.join(bdir, rh[:12] + '-decl-' + key, 'FAILED')).read()[-3000:])
        raise SystemExit(2)
    lkey = _hashlib.sha256((dobj + ' '.join(good)).encode()).hexdigest()[:16]
    ldir = _os.path.join(bdir, rh[:12] + '-' + t['name'] + '-' + lkey)
    exe = _os.path.join(ldir, t['name'])
    if not _os.path.exists(exe):
        _os.makedirs(ldir, exist_ok=True)
        cmd = ['clang++'] + list(chk.SAN_FLAGS) + (['-fsanitize=fuzzer'] if fuzz else []) + [dobj] + good + ['-lrapidcheck', '-o', exe + '.tmp%d' % _os.getpid()]
        r = _subprocess.run(cmd, stdout=_subprocess.PIPE, stderr=_subprocess.STDOUT, text=True)
        if r.returncode != 0:
            chk.log('LINK FAILED\n' + r.stdout[-3000:])
            raise SystemExit(2)
        _os.rename(exe + '.tmp%d' % _os.getpid(), exe)
    else:
        _os.utime(ldir)
    chk.log('gatt target %s: %d/%d declarations compiled, %.1fs' % (t['name'], len(good), len(specs), _time.time() - t0))
    return exe


BUILDERS['gatt'] = _gatt_builder


def _gatt_target(name, profile, quick_decls, thorough_decls, quick, thorough, **kw):
    TARGETS[name] = dict(name=name, src=[], builder='gatt', profile=profile, decls={'quick': quick_decls, 'thorough': thorough_decls},
                         quick=quick, thorough=thorough, **kw)


_GATT_ASSUME = COMMON_ASSUME + [
    'the declared database (handles by the documented sequential rule, permissions, encryption cascade) is computed by gen/gattgen.py from the declaration text; '
    'descriptor order inside a characteristic (CCCD, user description, descriptor) is taken as bluetoe orders them',
    'declarations are sampled from the grammar in DESIGN.md 3.2; declarations that do not compile are outside the domain']

_GATT_NOTE = 'trusted: gen/gattgen.py (declaration + database description), lib/att_model.hpp (reference ATT model), rapidcheck, ASan/UBSan with exact-size heap buffers'


def _gatt_prop(pid, target, rule, level_text, technique='generated C++ server declarations + rapidcheck request histories against a reference ATT/GATT model (validity predicates per response, whole-store comparison)'):
    prop(pid, target if isinstance(target, list) else [target], 'gatt', rule=rule, technique=technique, level_text=level_text, level_note=_GATT_NOTE, assumptions=_GATT_ASSUME)


# ------------------------------------------------------------------------------------------------- targets and properties
_Q = dict(cases=120000, size=100, max_seconds=150)
_T = dict(cases=8000000, size=150, max_seconds=3000)

_gatt_target('gatt_c01', 'default', 24, 300, quick=dict(_Q, opts={'max_ops': 40}), thorough=_T)
TARGETS['gatt_c01_fuzz'] = dict(name='gatt_c01_fuzz', src=[], builder='gatt', kind='fuzz', fuzz=True, profile='default',
                                decls={'quick': 8, 'thorough': 24},
                                quick=dict(runs=100000, max_seconds=90, max_len=1024), thorough=dict(runs=20000000, max_seconds=1800, max_len=1024))
_gatt_prop('C01', ['gatt_c01', 'gatt_c01_fuzz'],
           rule='24 (quick) / 300 (thorough) generated server declarations (services, characteristics of every value kind, descriptors, fixed handles, '
                'includes, write queue, MTU 23..300) x rapidcheck histories of <= 40 operations: valid requests built from the declared database, the '
                'same truncated/extended, every opcode 0x00..0xFF with random body, MTU exchanges, prepared writes, security changes; input and output '
                'are exact-size heap buffers under ASan/UBSan; non-trivial = the history contains a PDU that is malformed / has an unknown opcode / gets an '
                'Error Response, or arrives with MTU != 23 or a non-empty write queue; distinct = distinct serialised cases',
           level_text='memory safety through sanitizers on exact-size buffers plus the framing table of Vol 3 Part F 3.3/3.4 checked for every response; sampling of '
                      'declarations and histories, no proof')

_gatt_target('gatt_c02', 'discovery', 24, 300, quick=dict(_Q, opts={'max_ops': 30}), thorough=_T)
_gatt_prop('C02', 'gatt_c02',
           rule='generated declarations with fixed handles and gaps (60 %), 16/128-bit UUID mixes, all MTUs x histories of Find Information / Read By Type / Read By '
                'Group Type requests whose (start,end) come from the interesting set (every handle, handle+-1, gap interiors, 1, 0xFFFF, random) and types present '
                'and absent, plus complete continuation walks (start = last returned + 1 until Attribute Not Found); non-trivial = end handle != 0xFFFF or a walk '
                'that needs more than one response',
           level_text='every response is judged by range/type/order/value predicates over the declared database, Attribute Not Found iff nothing matches, and '
                      'continuation walks must enumerate every matching attribute exactly once; sampling')

_gatt_target('gatt_c03', 'secondary', 24, 300, quick=dict(_Q, opts={'max_ops': 30}), thorough=_T)
_gatt_prop('C03', 'gatt_c03',
           rule='generated declarations with 2-4 services, each primary or secondary, 16/128-bit UUIDs x Read By Group Type <<Primary Service>> and Find By Type '
                'Value <<Primary Service>> (every declared UUID, absent UUIDs, wrong lengths) over interesting ranges, single requests and complete walks; '
                'non-trivial = a secondary service lies in a walked range',
           level_text='reported groups must be exactly the declared primary services intersecting the range with their real end handles and UUIDs; sampling')

_gatt_target('gatt_c04', 'handles', 32, 300, quick=dict(cases=200000, size=60, max_seconds=150, opts={'max_ops': 12}), thorough=dict(cases=4000000, size=100, max_seconds=2400, opts={'max_ops': 12}))
_gatt_prop('C04', 'gatt_c04',
           rule='32 (quick) / 300 (thorough) generated declarations stressing attribute_handle<> on services and characteristics, attribute_handles<D,V,C>, '
                'descriptors, includes (forward/backward, 16/128 bit), secondary services, GAP service on/off. Per declaration a complete enumeration: '
                'handle_by_index for all attributes, index_by_handle and first_index_by_handle for all 65536 handles, Find Information and Read of every '
                'attribute (characteristic and include declaration values); non-trivial = the declaration uses a fixed handle or an include; distinct '
                'counts distinct (declaration, short random history) cases',
           level_text='per declaration exhaustive over the handle space; the expected handle table is computed from the declaration text by the documented '
                      'sequential rule; declarations are sampled')

_gatt_target('gatt_c05', 'enc', 24, 300, quick=dict(_Q, opts={'max_ops': 40}), thorough=_T)
_gatt_prop('C05', 'gatt_c05',
           rule='generated declarations with requires_encryption / no_encryption_required / may_require_encryption placed on server x service x characteristic '
                'x histories of Read, Read Blob, Read By Type, Read Multiple, Write, Write Command, Prepare/Execute, CCCD access, notify/indicate + output '
                'polling with the link security state (no key / key / encrypted) changed between steps; non-trivial = a protected attribute is touched while '
                'the link is not encrypted',
           level_text='protected values never appear in any PDU sent on an unencrypted link (4-byte window search over every output), are never modified '
                      '(whole-store comparison) and the rejection carries 0x05 / 0x0F as stated; sampling')

_gatt_target('gatt_c06', 'default', 24, 300, quick=dict(_Q, opts={'max_ops': 40}), thorough=_T)
_gatt_prop('C06', 'gatt_c06',
           rule='all value kinds/sizes/permission options x histories of Read / Read Blob / Write / Write Command / Read Multiple with offsets 0, len-1, len, len+1, '
                '0xFFFF and lengths 0..MTU+5, interleaved with the application changing bound variables; non-trivial = offset != 0, length != sizeof(value) or '
                'a permission option present',
           level_text='byte-exact reference store compared with every bound variable after every request; reads must return the reference slice, Invalid Offset '
                      'past the end; permissions enforced on every path; declared properties byte equals what the model permits; sampling')

_gatt_target('gatt_c07', 'queue', 24, 300, quick=dict(_Q, opts={'max_ops': 40}), thorough=_T)
_gatt_prop('C07', 'gatt_c07',
           rule='declarations with shared_write_queue<16..200> x 3 connections x histories of prepare / execute(0|1|other) / write / read / disconnect / security '
                'changes with overlapping offsets and queue overflow on every attribute kind; non-trivial = a second connection prepares while the queue is owned, '
                'or the owner disconnects with queued writes',
           level_text='reference queue: nothing changes before Execute(1), Execute applies exactly the owner\'s entries in order (store comparison), queue released on '
                      'execute/cancel/disconnect, foreign clients get Prepare Queue Full, prepare accepted iff a Write Request would be permitted; sampling')

_gatt_target('gatt_c08', 'mtu', 24, 300, quick=dict(_Q, opts={'max_ops': 40}), thorough=_T)
_gatt_prop('C08', 'gatt_c08',
           rule='all max_mtu_size values with long values (up to 300 bytes) x sequences of Exchange MTU (0..22, 23, 24.., 0xFFFF, wrong lengths) interleaved with long '
                'reads, Read By Type, notifications and indications; non-trivial = an exchange succeeded with MTU != 23 or was rejected',
           level_text='model MTU = min(server max, last valid client MTU); every response / notification / indication is <= MTU and a longer value fills it exactly; '
                      'invalid exchanges are rejected and leave the MTU; sampling')

_gatt_target('gatt_c09', 'cccd', 24, 300, quick=dict(_Q, opts={'max_ops': 40}), thorough=_T)
_gatt_prop('C09', 'gatt_c09',
           rule='declarations with 1..9 CCCDs (crossing the 4 per byte packing), priorities on/off, update callback x 3 connections x histories of CCCD writes of '
                '0..3 bytes with all 16 bit values, prepare/execute, reads and other traffic; non-trivial = CCCDs written on >= 2 connections or >= 5 CCCDs',
           level_text='per (connection, characteristic) 2-bit reference; after every CCCD write all cells of all connections are read back; callback count equals the '
                      'number of value changes; sampling')

_gatt_target('gatt_c10', 'notify', 24, 300, quick=dict(_Q, opts={'max_ops': 40}), thorough=_T)
_gatt_prop('C10', 'gatt_c10',
           rule='declarations with 2..8 notify/indicate characteristics and every documented higher_outgoing_priority placement x histories of subscribe / '
                'unsubscribe, notify(var), notify<uuid>(), indicate(...), value changes, output polling, confirmations; non-trivial = the declaration has '
                'priorities and a request is made by bound value',
           level_text='every emitted 0x1B/0x1D PDU must carry the value handle of a characteristic with a pending request of that kind, its current value, to a '
                      'subscribed connection; repeated requests give one PDU; return value of notify() == newly queued; sampling')

_gatt_target('gatt_c11', 'notify', 24, 300, quick=dict(_Q, opts={'max_ops': 40}), thorough=_T)
_gatt_prop('C11', 'gatt_c11',
           rule='as C10 with confirmations of valid / wrong length / spurious kind and disconnects; after the history the harness keeps confirming and polling '
                '4*(N+2) rounds; non-trivial = two requests pending at once or an indication requested while unsubscribed',
           level_text='no second indication between an indication and its confirmation; bounded liveness: every request that stayed sendable is transmitted during '
                      'the drain; wrong-length confirmations are rejected; sampling')

_gatt_target('gatt_c14', 'adv', 32, 300, quick=dict(cases=200000, size=100, max_seconds=150, opts={'max_ops': 40}), thorough=dict(cases=6000000, size=100, max_seconds=2400, opts={'max_ops': 64}))
_gatt_prop('C14', 'gatt_c14',
           rule='declarations over names (0..40 chars), appearance, 16/128-bit service lists (automatic and explicit), connection interval range, custom '
                'advertising / scan response data x buffer sizes 0..31 for advertising_data() and scan_response_data() into exact-size heap buffers; '
                'non-trivial = an item is shortened, incomplete or dropped for lack of space',
           level_text='returned size <= buffer <= 31, AD structures tile the payload (zero termination allowed), flags present, name prefix + complete/shortened '
                      'marking, UUID lists subset + complete/incomplete marking, custom data prefix; sampling of declarations, buffer sizes enumerated by generation')
