// gatt_driver.cpp -- generic driver of the `gatt` engine (DESIGN.md 3.2): rapidcheck request histories in terms of the declared
// database, applied to a generated server declaration (adapter, linked in) and to the reference model (lib/att_model.hpp).
// This TU does not include any repo header.
#include "att_model.hpp"

#include <memory>
#ifdef VG_FUZZ
#include <fuzzer/FuzzedDataProvider.h>
#endif

namespace vg {
    std::vector< ServerIf* >& servers()
    {
        static std::vector< ServerIf* > s;
        return s;
    }
}

namespace {

    using vg::bytes;

    enum op_kind { OP_REQ, OP_SEC, OP_CON, OP_DIS, OP_SET, OP_NTF, OP_OUT, OP_WALK, OP_ADV, OP_SCAN };
    const char* const op_names[] = { "req", "sec", "con", "dis", "set", "ntf", "out", "walk", "adv", "scan" };

    struct Op
    {
        int   kind = OP_REQ;
        int   conn = 0;
        int   a    = 0;
        int   b    = 0;
        bytes data;
    };

    struct Case
    {
        int               decl = 0;
        std::vector< Op > ops;
    };

    // ------------------------------------------------------------------------------------------ generation
    int rnd( int lo, int hi );
    template < class T >
    T pick( const std::vector< T >& v )
    {
        return v[ static_cast< std::size_t >( rnd( 0, static_cast< int >( v.size() ) - 1 ) ) ];
    }
#ifdef VG_FUZZ
    // libFuzzer build: every choice of the generator is decoded from the fuzzer's bytes
    FuzzedDataProvider* g_fdp = nullptr;
    int  rnd( int lo, int hi ) { return g_fdp->ConsumeIntegralInRange< int >( lo, hi ); }
#else
    int  rnd( int lo, int hi ) { return *verif::range< int >( lo, hi ); }
#endif
    bool chance( int percent ) { return rnd( 0, 99 ) < percent; }

    bytes rnd_bytes( int lo, int hi )
    {
        const int n = rnd( lo, hi );
        bytes     b;
        for ( int i = 0; i != n; ++i )
            b.push_back( static_cast< std::uint8_t >( rnd( 0, 255 ) ) );
        return b;
    }

    void put16( bytes& b, int v )
    {
        b.push_back( v & 0xff );
        b.push_back( ( v >> 8 ) & 0xff );
    }

    struct Gen
    {
        const vg::Db&      db;
        const std::string& prop;
        std::vector< int > handles;   // interesting handles

        Gen( const vg::Db& d, const std::string& p ) : db( d ), prop( p )
        {
            std::set< int > h{ 0, 1, 2, 0xffff, 0xfffe };
            for ( auto& a : db.attrs )
            {
                h.insert( a.handle );
                if ( a.handle > 1 ) h.insert( a.handle - 1 );
                h.insert( a.handle + 1 );
            }
            handles.assign( h.begin(), h.end() );
        }

        int any_handle()
        {
            if ( chance( 8 ) )
                return rnd( 0, 0xffff );
            return pick( handles );
        }
        int attr_handle()
        {
            if ( chance( 12 ) )
                return any_handle();
            return db.attrs[ rnd( 0, static_cast< int >( db.attrs.size() ) - 1 ) ].handle;
        }
        int handle_of_kind( int kind )
        {
            std::vector< int > c;
            for ( auto& a : db.attrs )
                if ( a.kind == kind )
                    c.push_back( a.handle );
            return c.empty() ? attr_handle() : pick( c );
        }

        bytes some_type()
        {
            bytes t = some_type16or128();
            if ( t.size() == 2 && chance( 12 ) )
            {
                // the same UUID in its 128 bit form ...
                bytes l{ 0xfb, 0x34, 0x9b, 0x5f, 0x80, 0x00, 0x00, 0x80, 0x00, 0x10, 0x00, 0x00, t[ 0 ], t[ 1 ], 0x00, 0x00 };
                // ... or a near miss of that form (upper 16 bit or one octet of the base UUID differ): a different UUID
                if ( chance( 45 ) )
                {
                    const int k = rnd( 0, 3 );
                    if ( k < 2 )
                        l[ 14 + k ] = static_cast< std::uint8_t >( rnd( 1, 255 ) );
                    else
                        l[ rnd( 0, 11 ) ] ^= static_cast< std::uint8_t >( 1 << rnd( 0, 7 ) );
                }
                return l;
            }
            return t;
        }

        bytes some_type16or128()
        {
            const int k = rnd( 0, 11 );
            switch ( k )
            {
            case 0: return { 0x00, 0x28 };
            case 1: return { 0x01, 0x28 };
            case 2: return { 0x02, 0x28 };
            case 3:
            case 4: return { 0x03, 0x28 };
            case 5: return { 0x02, 0x29 };
            case 6: return { 0x01, 0x29 };
            case 7: return { 0x99, 0x2a };
            case 8: return rnd_bytes( 16, 16 );
            default:
                if ( db.attrs.empty() )
                    return { 0x00, 0x28 };
                return db.attrs[ rnd( 0, static_cast< int >( db.attrs.size() ) - 1 ) ].type;
            }
        }

        void range( bytes& pdu )
        {
            int s = any_handle(), e = any_handle();
            const int k = rnd( 0, 9 );
            if ( k < 5 && s > e )
                std::swap( s, e );
            else if ( k == 5 )
                e = 0xffff;
            else if ( k == 6 )
            {
                s = 1;
                e = 0xffff;
            }
            put16( pdu, s );
            put16( pdu, e );
        }

        bytes service_uuid()
        {
            if ( chance( 15 ) || db.svcs.empty() )
                return chance( 50 ) ? bytes{ 0x77, 0x18 } : rnd_bytes( 0, 17 );
            return db.svcs[ rnd( 0, static_cast< int >( db.svcs.size() ) - 1 ) ].uuid;
        }

        int value_size_of_handle( int h )
        {
            for ( auto& a : db.attrs )
                if ( a.handle == h )
                {
                    if ( a.kind == vg::A_CCCD ) return 2;
                    if ( a.kind == vg::A_VALUE )
                    {
                        const vg::Chr& c = db.chrs[ a.chr ];
                        return c.var >= 0 ? c.size : static_cast< int >( c.fixed.size() );
                    }
                    return static_cast< int >( a.fixed.size() );
                }
            return 4;
        }

        int some_length( int n )
        {
            switch ( rnd( 0, 7 ) )
            {
            case 0: return 0;
            case 1: return std::max( 0, n - 1 );
            case 2:
            case 3:
            case 4: return n;
            case 5: return n + 1;
            case 6: return rnd( 0, db.max_mtu + 5 );
            default: return rnd( 0, std::max( 1, n ) );
            }
        }
        int some_offset( int n )
        {
            switch ( rnd( 0, 8 ) )
            {
            // a valid low octet under a non zero high octet (offsets that only differ beyond 8 bit)
            case 8: return ( rnd( 1, 255 ) << 8 ) | rnd( 0, std::max( 0, n - 1 ) );
            case 0:
            case 1: return 0;
            case 2: return std::max( 0, n - 1 );
            case 3: return n;
            case 4: return n + 1;
            case 5: return 0xffff;
            case 6: return rnd( 0, 0xffff );
            default: return rnd( 0, std::max( 1, n ) );
            }
        }

        int write_target()
        {
            const int k = rnd( 0, 9 );
            if ( k < 5 ) return handle_of_kind( vg::A_VALUE );
            if ( k < 8 ) return handle_of_kind( vg::A_CCCD );
            return attr_handle();
        }

        bytes write_data( int h, int forced_len = -1 )
        {
            const int n   = value_size_of_handle( h );
            int       len = forced_len >= 0 ? forced_len : some_length( n );
            len           = std::min( len, db.max_mtu + 8 );
            bytes d;
            bool  cccd = false;
            for ( auto& a : db.attrs )
                if ( a.handle == h && a.kind == vg::A_CCCD )
                    cccd = true;
            if ( cccd && len >= 1 )
            {
                d.push_back( chance( 80 ) ? rnd( 0, 3 ) : rnd( 0, 255 ) );
                if ( len >= 2 ) d.push_back( chance( 80 ) ? 0 : rnd( 0, 255 ) );
                for ( int i = 2; i < len; ++i ) d.push_back( rnd( 0, 255 ) );
                return d;
            }
            for ( int i = 0; i != len; ++i )
                d.push_back( static_cast< std::uint8_t >( rnd( 0, 255 ) ) );
            return d;
        }

        // request kinds
        enum { FI, FBTV, RBT, RD, RDB, RDM, RBGT, WR, WRC, PREP, EXEC, MTU, CONF, RAWOP, SIGNED, CLIENT_NTF, ERRRSP };

        bytes request( int kind )
        {
            bytes p;
            switch ( kind )
            {
            case FI:
                p.push_back( 0x04 );
                range( p );
                break;
            case FBTV:
                p.push_back( 0x06 );
                range( p );
                put16( p, chance( 85 ) ? 0x2800 : ( chance( 50 ) ? 0x2801 : rnd( 0, 0xffff ) ) );
                {
                    const bytes u = service_uuid();
                    p.insert( p.end(), u.begin(), u.end() );
                }
                break;
            case RBT:
            case RBGT:
                p.push_back( kind == RBT ? 0x08 : 0x10 );
                range( p );
                {
                    bytes t = kind == RBGT && chance( 75 ) ? bytes{ 0x00, 0x28 } : some_type();
                    p.insert( p.end(), t.begin(), t.end() );
                }
                break;
            case RD:
                p.push_back( 0x0a );
                put16( p, attr_handle() );
                break;
            case RDB: {
                p.push_back( 0x0c );
                const int h = attr_handle();
                put16( p, h );
                put16( p, some_offset( value_size_of_handle( h ) ) );
            }
            break;
            case RDM: {
                p.push_back( 0x0e );
                const int n = rnd( 1, 4 );
                for ( int i = 0; i != n; ++i )
                    put16( p, attr_handle() );
            }
            break;
            case WR:
            case WRC:
            case SIGNED: {
                p.push_back( kind == WR ? 0x12 : ( kind == WRC ? 0x52 : 0xd2 ) );
                const int h = write_target();
                put16( p, h );
                const bytes d = write_data( h );
                p.insert( p.end(), d.begin(), d.end() );
                if ( kind == SIGNED )
                {
                    const bytes sig = rnd_bytes( 12, 12 );
                    p.insert( p.end(), sig.begin(), sig.end() );
                }
            }
            break;
            case PREP: {
                p.push_back( 0x16 );
                const int h = write_target();
                const int n = value_size_of_handle( h );
                put16( p, h );
                const int off = chance( 60 ) ? rnd( 0, std::max( 0, n - 1 ) ) : some_offset( n );
                put16( p, off );
                const bytes d = write_data( h, chance( 60 ) ? rnd( 0, std::max( 0, std::min( n - std::min( off, n ), 18 ) ) ) : -1 );
                p.insert( p.end(), d.begin(), d.end() );
            }
            break;
            case EXEC:
                p.push_back( 0x18 );
                if ( chance( 95 ) )
                    p.push_back( chance( 90 ) ? rnd( 0, 1 ) : rnd( 0, 255 ) );
                else
                {
                    const bytes d = rnd_bytes( 0, 3 );
                    p.insert( p.end(), d.begin(), d.end() );
                }
                break;
            case MTU:
                p.push_back( 0x02 );
                if ( chance( 90 ) )
                    put16( p, pick( std::vector< int >{ 0, 1, 22, 23, 24, 27, 48, 64, 65, 66, 158, 247, 300, 512, 0xffff, rnd( 0, 0xffff ) } ) );
                else
                {
                    const bytes d = rnd_bytes( 0, 4 );
                    p.insert( p.end(), d.begin(), d.end() );
                }
                break;
            case CONF:
                p.push_back( 0x1e );
                if ( chance( 15 ) )
                {
                    const bytes d = rnd_bytes( 1, 3 );
                    p.insert( p.end(), d.begin(), d.end() );
                }
                break;
            case CLIENT_NTF: {
                p.push_back( chance( 50 ) ? 0x1b : 0x1d );
                const bytes d = rnd_bytes( 0, 8 );
                p.insert( p.end(), d.begin(), d.end() );
            }
            break;
            case ERRRSP: {
                p.push_back( 0x01 );
                const bytes d = rnd_bytes( 0, 6 );
                p.insert( p.end(), d.begin(), d.end() );
            }
            break;
            default: {
                p.push_back( static_cast< std::uint8_t >( rnd( 0, 255 ) ) );
                const bytes d = rnd_bytes( 0, std::min( db.max_mtu, 40 ) - 1 );
                p.insert( p.end(), d.begin(), d.end() );
            }
            break;
            }
            // malformed variants of well formed requests
            const int m = rnd( 0, 99 );
            if ( m < 4 && p.size() > 1 )
                p.resize( rnd( 1, static_cast< int >( p.size() ) - 1 ) );
            else if ( m < 8 )
            {
                const bytes d = rnd_bytes( 1, 6 );
                p.insert( p.end(), d.begin(), d.end() );
            }
            if ( static_cast< int >( p.size() ) > db.max_mtu )
                p.resize( db.max_mtu );
            return p;
        }

        // weights of request kinds per property
        std::vector< std::pair< int, int > > request_weights() const
        {
            if ( prop == "C02" ) return { { 30, FI }, { 35, RBT }, { 20, RBGT }, { 5, FBTV }, { 4, MTU }, { 3, RD }, { 3, RAWOP } };
            if ( prop == "C03" ) return { { 45, RBGT }, { 45, FBTV }, { 4, MTU }, { 3, FI }, { 3, RAWOP } };
            if ( prop == "C05" ) return { { 14, RD }, { 8, RDB }, { 12, RBT }, { 8, RDM }, { 14, WR }, { 8, WRC }, { 10, PREP }, { 6, EXEC }, { 3, MTU }, { 3, CONF }, { 2, RAWOP } };
            if ( prop == "C06" ) return { { 18, RD }, { 16, RDB }, { 6, RBT }, { 6, RDM }, { 22, WR }, { 10, WRC }, { 9, PREP }, { 6, EXEC }, { 4, MTU }, { 3, RAWOP } };
            if ( prop == "C07" ) return { { 40, PREP }, { 18, EXEC }, { 12, WR }, { 12, RD }, { 5, RDB }, { 4, WRC }, { 3, MTU }, { 3, RAWOP } };
            if ( prop == "C08" ) return { { 30, MTU }, { 15, RD }, { 10, RDB }, { 12, RBT }, { 6, RDM }, { 6, FI }, { 8, WR }, { 4, CONF }, { 3, RAWOP }, { 4, RBGT } };
            if ( prop == "C09" ) return { { 45, WR }, { 12, WRC }, { 15, RD }, { 10, PREP }, { 6, EXEC }, { 4, MTU }, { 3, RAWOP } };
            if ( prop == "C10" || prop == "C11" ) return { { 35, WR }, { 30, CONF }, { 8, RD }, { 6, MTU }, { 4, RAWOP }, { 4, WRC } };
            // C01 and everything else: broad
            return { { 6, FI }, { 5, FBTV }, { 8, RBT }, { 8, RD }, { 6, RDB }, { 6, RDM }, { 6, RBGT }, { 8, WR }, { 5, WRC }, { 8, PREP }, { 5, EXEC }, { 5, MTU },
                { 4, CONF }, { 12, RAWOP }, { 3, SIGNED }, { 3, CLIENT_NTF }, { 2, ERRRSP } };
        }

        int weighted( const std::vector< std::pair< int, int > >& w )
        {
            int total = 0;
            for ( auto& p : w ) total += p.first;
            int x = rnd( 0, total - 1 );
            for ( auto& p : w )
            {
                if ( x < p.first ) return p.second;
                x -= p.first;
            }
            return w.back().second;
        }

        int conn()
        {
            if ( prop == "C07" || prop == "C09" )
                return rnd( 0, 2 );
            return chance( 85 ) ? 0 : rnd( 0, 2 );
        }

        std::vector< int > notifying_chrs() const
        {
            std::vector< int > r;
            for ( std::size_t i = 0; i != db.chrs.size(); ++i )
                if ( db.chrs[ i ].cccd_attr >= 0 )
                    r.push_back( static_cast< int >( i ) );
            return r;
        }

        std::vector< Op > pending_;   // rest of a scenario (in reverse order)

        Op make( int kind, int conn, int a, int b, const bytes& data )
        {
            Op o;
            o.kind = kind;
            o.conn = conn;
            o.a    = a;
            o.b    = b;
            o.data = data;
            return o;
        }

        // targeted multi step sequences that plain random walks reach too rarely
        bool scenario()
        {
            std::vector< Op > seq;
            const int         c = conn();
            if ( ( prop == "C05" || prop == "C10" || prop == "C11" || prop == "C08" ) && chance( 50 ) )
            {
                // subscribe (while encrypted), change the security of the link, request, poll
                const auto n = notifying_chrs();
                if ( n.empty() )
                    return false;
                const int      chr = pick( n );
                const vg::Chr& ch  = db.chrs[ chr ];
                bytes          wr{ 0x12 };
                put16( wr, db.attrs[ ch.cccd_attr ].handle );
                wr.push_back( static_cast< std::uint8_t >( chance( 70 ) ? 3 : rnd( 0, 3 ) ) );
                wr.push_back( 0 );
                seq.push_back( make( OP_SEC, c, 2, 0, bytes() ) );
                seq.push_back( make( OP_REQ, c, 0, 0, wr ) );
                if ( chance( 70 ) )
                    seq.push_back( make( OP_SEC, c, rnd( 0, 2 ), 0, bytes() ) );
                const int k = rnd( 1, 3 );
                for ( int i = 0; i != k; ++i )
                    seq.push_back( make( OP_NTF, c, chance( 80 ) ? chr : pick( n ), rnd( 0, 3 ), bytes() ) );
                for ( int i = 0; i != k + 1; ++i )
                    seq.push_back( make( OP_OUT, c, 0, 0, bytes() ) );
            }
            else if ( ( prop == "C01" || prop == "C07" ) && db.queue_size && chance( 50 ) )
            {
                // fill the write queue to the brim: the octets stored per prepared write (value + handle + offset + length) add up to
                // the queue size -1, +0, +1, +2, then further prepares and an execute
                const int h      = handle_of_kind( vg::A_VALUE );
                const int target = db.queue_size + rnd( -1, 2 );
                int       used   = 0;
                while ( used < target )
                {
                    const int room = target - used;
                    int       n    = rnd( 0, std::min( db.max_mtu, 23 ) - 5 );
                    if ( room - ( n + 6 ) < 6 )
                        n = room - 6;          // the last one hits the target exactly
                    if ( n < 0 || n > db.max_mtu - 5 )
                        break;
                    bytes pw{ 0x16 };
                    put16( pw, h );
                    put16( pw, 0 );
                    const bytes d = rnd_bytes( n, n );
                    pw.insert( pw.end(), d.begin(), d.end() );
                    seq.push_back( make( OP_REQ, c, 0, 0, pw ) );
                    used += n + 6;
                }
                for ( int i = rnd( 1, 3 ); i > 0; --i )
                {
                    bytes pw{ 0x16 };
                    put16( pw, h );
                    put16( pw, 0 );
                    const bytes d = rnd_bytes( 0, 18 );
                    pw.insert( pw.end(), d.begin(), d.end() );
                    seq.push_back( make( OP_REQ, c, 0, 0, pw ) );
                }
                seq.push_back( make( OP_REQ, c, 0, 0, bytes{ 0x18, static_cast< std::uint8_t >( rnd( 0, 1 ) ) } ) );
            }
            else if ( ( prop == "C06" || prop == "C07" || prop == "C05" || prop == "C09" ) && db.queue_size )
            {
                // prepare (1..3 parts), execute, read back
                const int h = write_target();
                const int n = value_size_of_handle( h );
                const int k = rnd( 1, 3 );
                for ( int i = 0; i != k; ++i )
                {
                    bytes pw{ 0x16 };
                    put16( pw, h );
                    const int off = chance( 70 ) ? rnd( 0, std::max( 0, n - 1 ) ) : some_offset( n );
                    put16( pw, off );
                    const bytes d = write_data( h, rnd( 0, std::max( 0, std::min( n - std::min( off & 0xff, n ), 18 ) ) ) );
                    pw.insert( pw.end(), d.begin(), d.end() );
                    seq.push_back( make( OP_REQ, c, 0, 0, pw ) );
                }
                seq.push_back( make( OP_REQ, c, 0, 0, bytes{ 0x18, static_cast< std::uint8_t >( chance( 85 ) ? 1 : 0 ) } ) );
                bytes rd{ 0x0a };
                put16( rd, h );
                seq.push_back( make( OP_REQ, c, 0, 0, rd ) );
            }
            else
                return false;
            pending_.assign( seq.rbegin(), seq.rend() );
            return true;
        }

        Op op()
        {
            if ( !pending_.empty() )
            {
                // a scenario may be interleaved with other operations
                if ( !chance( 15 ) )
                {
                    const Op o = pending_.back();
                    pending_.pop_back();
                    return o;
                }
            }
            else if ( chance( 6 ) && scenario() )
            {
                const Op o = pending_.back();
                pending_.pop_back();
                return o;
            }
            Op o;
            // op kind weights per property: req sec con dis set ntf out walk adv scan
            std::vector< std::pair< int, int > > w;
            if ( prop == "C02" || prop == "C03" ) w = { { 55, OP_REQ }, { 35, OP_WALK }, { 4, OP_SEC }, { 3, OP_SET }, { 3, OP_DIS } };
            else if ( prop == "C05" ) w = { { 55, OP_REQ }, { 18, OP_SEC }, { 8, OP_SET }, { 8, OP_NTF }, { 8, OP_OUT }, { 3, OP_DIS } };
            else if ( prop == "C06" ) w = { { 75, OP_REQ }, { 15, OP_SET }, { 5, OP_SEC }, { 3, OP_DIS }, { 2, OP_OUT } };
            else if ( prop == "C07" ) w = { { 75, OP_REQ }, { 8, OP_DIS }, { 8, OP_SEC }, { 5, OP_SET }, { 4, OP_CON } };
            else if ( prop == "C08" ) w = { { 60, OP_REQ }, { 14, OP_NTF }, { 14, OP_OUT }, { 6, OP_SET }, { 3, OP_DIS }, { 3, OP_SEC } };
            else if ( prop == "C09" ) w = { { 80, OP_REQ }, { 6, OP_DIS }, { 5, OP_CON }, { 5, OP_SEC }, { 4, OP_OUT } };
            else if ( prop == "C10" || prop == "C11" ) w = { { 30, OP_REQ }, { 30, OP_NTF }, { 25, OP_OUT }, { 8, OP_SET }, { 3, OP_DIS }, { 4, OP_SEC } };
            else if ( prop == "C14" ) w = { { 50, OP_ADV }, { 50, OP_SCAN } };
            else w = { { 80, OP_REQ }, { 4, OP_SEC }, { 3, OP_SET }, { 4, OP_NTF }, { 5, OP_OUT }, { 2, OP_DIS }, { 2, OP_WALK } };
            o.kind = weighted( w );
            o.conn = conn();
            switch ( o.kind )
            {
            case OP_REQ:
                o.data = request( weighted( request_weights() ) );
                // size of the output buffer handed to the server: 0 = server maximum, else explicit (>= 23)
                o.a = chance( 75 ) ? 0 : rnd( 23, db.max_mtu + 64 );
                break;
            case OP_SEC: o.a = rnd( 0, 2 ); break;
            case OP_SET:
                if ( db.n_vars == 0 )
                {
                    o.kind = OP_OUT;
                    break;
                }
                o.a    = rnd( 0, db.n_vars - 1 );
                o.data = rnd_bytes( 0, 64 );
                break;
            case OP_NTF: {
                const auto n = notifying_chrs();
                if ( n.empty() )
                {
                    o.kind = OP_OUT;
                    break;
                }
                o.a = pick( n );
                o.b = rnd( 0, 3 );
            }
            break;
            case OP_OUT: o.a = chance( 75 ) ? 0 : rnd( 23, db.max_mtu + 64 ); break;   // callers hand out at least the minimum ATT MTU
            case OP_WALK: {
                o.a = ( prop == "C03" ) ? rnd( 2, 3 ) : weighted( { { 35, 0 }, { 40, 1 }, { 15, 2 }, { 10, 3 } } );
                range( o.data );
                if ( o.a == 1 )
                {
                    const bytes t = some_type();
                    o.data.insert( o.data.end(), t.begin(), t.end() );
                }
                else if ( o.a == 3 )
                {
                    const bytes u = service_uuid();
                    o.data.insert( o.data.end(), u.begin(), u.end() );
                }
            }
            break;
            case OP_ADV:
            case OP_SCAN: o.a = rnd( 0, 31 ); break;
            default: break;
            }
            return o;
        }
    };

#ifdef VG_FUZZ
    Case decode_case()
    {
        Case c;
        c.decl = rnd( 0, static_cast< int >( vg::servers().size() ) - 1 );
        Gen       g( vg::servers()[ c.decl ]->db(), verif::property() );
        const int n = rnd( 0, static_cast< int >( verif::opt_int( "max_ops", 40 ) ) );
        for ( int i = 0; i != n && g_fdp->remaining_bytes() != 0; ++i )
            c.ops.push_back( g.op() );
        return c;
    }
#endif

    rc::Gen< Case > gen_case()
    {
        return rc::gen::exec( []() {
            Case c;
            c.decl = rnd( 0, static_cast< int >( vg::servers().size() ) - 1 );
            Gen       g( vg::servers()[ c.decl ]->db(), verif::property() );
            const int max_ops = static_cast< int >( verif::opt_int( "max_ops", 40 ) );
            const int n       = *rc::gen::inRange( 0, max_ops + 1 );   // grows with the rapidcheck size
            for ( int i = 0; i != n; ++i )
                c.ops.push_back( g.op() );
            return c;
        } );
    }

    std::string to_text( const Case& c )
    {
        std::ostringstream os;
        const vg::Db&      db = vg::servers()[ c.decl ]->db();
        os << "cfg " << db.id << " " << db.spec << "\n";
        for ( auto& o : c.ops )
            os << op_names[ o.kind ] << " " << o.conn << " " << o.a << " " << o.b << " " << verif::hex( o.data ) << "\n";
        return os.str();
    }

    Case from_text( const std::string& t )
    {
        Case         c;
        verif::Lines L( t );
        for ( auto& l : L.lines )
        {
            if ( l[ 0 ] == "cfg" )
            {
                const std::string id = verif::tok_str( l, 1 );
                c.decl               = -1;
                for ( std::size_t i = 0; i != vg::servers().size(); ++i )
                    if ( vg::servers()[ i ]->db().id == id )
                        c.decl = static_cast< int >( i );
                if ( c.decl < 0 )
                {
                    std::cerr << "declaration " << id << " is not linked into this binary\n";
                    std::exit( 2 );
                }
                continue;
            }
            Op o;
            o.kind = -1;
            for ( int k = 0; k != 10; ++k )
                if ( l[ 0 ] == op_names[ k ] )
                    o.kind = k;
            if ( o.kind < 0 )
                continue;
            o.conn = static_cast< int >( verif::tok_int( l, 1 ) ) % 3;
            o.a    = static_cast< int >( verif::tok_int( l, 2 ) );
            o.b    = static_cast< int >( verif::tok_int( l, 3 ) );
            o.data = verif::unhex( verif::tok_str( l, 4 ) );
            c.ops.push_back( o );
        }
        if ( c.decl < 0 )
            c.decl = 0;
        return c;
    }

    // ------------------------------------------------------------------------------------------ execution
    struct Runner
    {
        vg::ServerIf&  srv;
        const vg::Db&  db;
        vg::Model      m;
        verif::Report& rep;
        std::string    prop;
        // flags for the non-trivial rules
        bool f_disc_end = false, f_multi_response = false, f_secondary_in_range = false, f_offset = false, f_perm = false, f_queue_multi = false,
             f_queue_drop = false, f_mtu = false, f_cccd_multi = false, f_prio_var = false, f_two_pending = false, f_unsub_ind = false,
             f_adv_trunc = false, f_malformed = false, f_protected_path = false;
        std::set< int > cccd_conns;

        Runner( vg::ServerIf& s, verif::Report& r )
            : srv( s ), db( s.db() ), m( s, verif::property(), r ), rep( r ), prop( verif::property() )
        {
        }

        void ensure( int c )
        {
            if ( !m.con[ c ].connected )
            {
                srv.connect( c );
                m.con[ c ].connected = true;
                srv.security( c, 0 );
            }
        }

        bytes exchange( int c, const bytes& in, std::size_t given )
        {
            if ( given == 0 || given > static_cast< std::size_t >( db.max_mtu ) + 64 )
                given = db.max_mtu;
            if ( given < 23 )
                given = 23;
            m.mtu_before = m.mtu( c );
            return m.raw( c, in, given );
        }

        void req( int c, const bytes& in, std::size_t given )
        {
            if ( in.empty() )
                return;
            ensure( c );
            if ( given == 0 || given > static_cast< std::size_t >( db.max_mtu ) + 64 )
                given = db.max_mtu;
            if ( given < 23 )
                given = 23;
            const bytes out = exchange( c, in, given );
            classify_request( c, in, out );
            m.request( c, in, out, given );
        }

        void classify_request( int c, const bytes& in, const bytes& out )
        {
            const std::uint8_t op = in[ 0 ];
            static const std::size_t nominal[] = { 0 };
            static_cast< void >( nominal );
            if ( ( op == 0x04 || op == 0x08 || op == 0x10 ) && in.size() >= 5 )
            {
                const int e = vg::rd16( &in[ 3 ] );
                if ( e != 0xffff && vg::rd16( &in[ 1 ] ) <= e && vg::rd16( &in[ 1 ] ) != 0 )
                    f_disc_end = true;
            }
            if ( ( op == 0x0c || op == 0x16 ) && in.size() >= 5 && vg::rd16( &in[ 3 ] ) != 0 )
                f_offset = true;
            if ( op == 0x12 || op == 0x52 || op == 0x0a || op == 0x0c )
            {
                if ( in.size() >= 3 )
                {
                    const int ai = m.attr_at( vg::rd16( &in[ 1 ] ) );
                    if ( ai >= 0 && db.attrs[ ai ].kind == vg::A_VALUE )
                    {
                        const vg::Chr& ch = db.chrs[ db.attrs[ ai ].chr ];
                        if ( ch.no_read || ch.no_write || ch.vk != vg::V_VAR || ( ( op == 0x12 || op == 0x52 ) && static_cast< int >( in.size() ) - 3 != ch.size ) )
                            f_perm = true;
                    }
                    if ( ai >= 0 && db.attrs[ ai ].kind == vg::A_CCCD && ( op == 0x12 || op == 0x52 ) )
                        cccd_conns.insert( c );
                }
            }
            if ( op == 0x02 && ( ( out.size() == 3 && out[ 0 ] == 0x03 && in.size() == 3 && vg::rd16( &in[ 1 ] ) != 23 ) || vg::Model::is_error( out, 0x02 ) ) )
                f_mtu = true;
            if ( op == 0x16 && m.queue_owner >= 0 && m.queue_owner != c )
                f_queue_multi = true;
            static const std::uint8_t known[] = { 0x02, 0x04, 0x06, 0x08, 0x0a, 0x0c, 0x0e, 0x10, 0x12, 0x16, 0x18, 0x52, 0x1e };
            if ( std::find( std::begin( known ), std::end( known ), op ) == std::end( known ) || vg::Model::is_error( out, op ) || m.mtu( c ) != 23 || !m.queue.empty() )
                f_malformed = true;
        }

        void walk( int c, int kind, const bytes& d )
        {
            if ( d.size() < 4 )
                return;
            ensure( c );
            int       start = vg::rd16( &d[ 0 ] );
            const int end   = vg::rd16( &d[ 2 ] );
            if ( start == 0 || start > end )
                return;
            const bytes tail( d.begin() + 4, d.end() );
            if ( kind == 1 && tail.size() != 2 && tail.size() != 16 )
                return;
            // expected set
            std::set< std::uint16_t > expect;
            if ( kind == 0 )
                for ( int ai : m.in_range( start, end ) ) expect.insert( db.attrs[ ai ].handle );
            else if ( kind == 1 )
            {
                for ( int ai : m.in_range( start, end ) )
                {
                    bytes v;
                    if ( db.attrs[ ai ].type == vg::norm_uuid( tail ) )
                    {
                        const auto s = m.read_attr( ai, c, v );
                        if ( s == vg::Model::RS_UNKNOWN )
                            return;
                        if ( s == vg::Model::RS_OK )
                            expect.insert( db.attrs[ ai ].handle );
                    }
                }
            }
            else
            {
                for ( int s : m.primary_in_range( start, end, kind == 3 ? &tail : nullptr ) )
                    expect.insert( db.attrs[ db.svcs[ s ].last_attr ].handle );   // groups are identified by their end handle
            }
            if ( kind >= 2 )
                for ( auto& s : db.svcs )
                    if ( !s.primary && db.attrs[ s.first_attr ].handle >= start && db.attrs[ s.first_attr ].handle <= end )
                        f_secondary_in_range = true;
            std::set< std::uint16_t > seen;
            m.skipped_known.clear();
            int responses = 0;
            for ( int round = 0; round != static_cast< int >( db.attrs.size() ) + 3; ++round )
            {
                bytes in;
                in.push_back( kind == 0 ? 0x04 : ( kind == 1 ? 0x08 : ( kind == 2 ? 0x10 : 0x06 ) ) );
                put16( in, start );
                put16( in, end );
                if ( kind == 1 )
                    in.insert( in.end(), tail.begin(), tail.end() );
                else if ( kind == 2 )
                {
                    in.push_back( 0x00 );
                    in.push_back( 0x28 );
                }
                else if ( kind == 3 )
                {
                    in.push_back( 0x00 );
                    in.push_back( 0x28 );
                    in.insert( in.end(), tail.begin(), tail.end() );
                }
                if ( static_cast< int >( in.size() ) > db.max_mtu )
                    return;
                const bytes out = exchange( c, in, db.max_mtu );
                m.request( c, in, out, db.max_mtu );
                if ( vg::Model::is_error( out, in[ 0 ] ) )
                {
                    // done: everything expected must have been seen
                    for ( auto h : expect )
                        if ( !seen.count( h ) && !m.skipped_known.count( h ) )
                            m.require( false, kind >= 2 ? "c03.walk" : "c02.walk", "discovery walk (kind ", kind, ", range ", vg::rd16( &d[ 0 ] ), "..", end, ") ended with ",
                                verif::hex( out ), " without ever reporting handle ", h );
                    if ( responses > 1 )
                        f_multi_response = true;
                    return;
                }
                ++responses;
                if ( m.last_reported.empty() )
                    return;  // malformed response: per response oracles have spoken already
                for ( auto h : m.last_reported )
                {
                    m.require( seen.insert( h ).second, kind >= 2 ? "c03.walk" : "c02.walk", "discovery walk reported handle ", h, " twice" );
                    m.require( expect.count( h ) != 0, kind >= 2 ? "c03.walk" : "c02.walk", "discovery walk (kind ", kind, ") reported handle ", h, " which does not match the request" );
                }
                const int last = m.last_reported.back();
                if ( last >= end || last == 0xffff )
                {
                    for ( auto h : expect )
                        if ( !seen.count( h ) && !m.skipped_known.count( h ) )
                            m.require( false, kind >= 2 ? "c03.walk" : "c02.walk", "discovery walk (kind ", kind, ") reached the end of the range without reporting handle ", h );
                    if ( responses > 1 )
                        f_multi_response = true;
                    return;
                }
                start = last + 1;
            }
            m.require( false, kind >= 2 ? "c03.walk" : "c02.walk", "discovery walk does not terminate" );
        }

        void notify( int chr, int mode )
        {
            ensure( 0 );
            if ( chr < 0 || chr >= static_cast< int >( db.chrs.size() ) )
                return;
            const int r = srv.notify( chr, mode );
            if ( r < 0 )
                return;
            const int kind = mode >= 2 ? 1 : 0;
            bool      any_unsub = false;
            for ( int c = 0; c != 3; ++c )
                if ( m.con[ c ].connected )
                {
                    if ( m.con[ c ].maybe.size() >= 1 && kind == 1 ) f_two_pending = true;
                    if ( !m.subscribed( c, chr, kind ) ) any_unsub = true;
                }
            if ( kind == 1 && any_unsub ) f_unsub_ind = true;
            if ( ( mode == 0 || mode == 2 ) ) f_prio_var = true;
            m.notified( chr, kind, r );
        }

        void output( int c, std::size_t given )
        {
            ensure( c );
            if ( given == 0 || given > static_cast< std::size_t >( db.max_mtu ) + 64 )
                given = db.max_mtu;
            if ( given < 23 )
                given = 23;   // no L2CAP layer offers less than the minimum ATT MTU (l2cap_input asserts it)
            std::uint8_t* ob = new std::uint8_t[ given ? given : 1 ];
            std::size_t   os = given;
            srv.l2cap_output( c, ob, os );
            const bool overflow = os > given;
            bytes      out( ob, ob + std::min( os, given ) );
            delete[] ob;
            m.require( !overflow, "c01.size", "l2cap_output reports ", os, " bytes for a buffer of ", given );
            m.output( c, out, given );
        }

        void adv( bool scan, int n );

        void run( const Case& cs )
        {
            ensure( 0 );
            for ( auto& o : cs.ops )
            {
                switch ( o.kind )
                {
                case OP_REQ: req( o.conn, o.data, o.a ); break;
                case OP_SEC:
                    ensure( o.conn );
                    srv.security( o.conn, o.a % 3 );
                    m.con[ o.conn ].sec = o.a % 3;
                    break;
                case OP_CON: ensure( o.conn ); break;
                case OP_DIS:
                    if ( m.con[ o.conn ].connected )
                    {
                        if ( m.queue_owner == o.conn && !m.queue.empty() ) f_queue_drop = true;
                        srv.disconnect( o.conn );
                        m.disconnected( o.conn );
                    }
                    break;
                case OP_SET:
                    if ( o.a >= 0 && o.a < db.n_vars )
                    {
                        // the application changes a value
                        bytes cur = m.store[ o.a ];
                        bool  is_store = false;
                        for ( auto& ch : db.chrs )
                            if ( ch.var == o.a && ch.vk >= vg::V_HBLOB ) is_store = true;
                        bool is_const = false;
                        for ( auto& ch : db.chrs )
                            if ( ch.var == o.a && ch.vk == vg::V_CONSTVAR ) is_const = true;
                        if ( is_const )
                            break;
                        if ( is_store )
                        {
                            cur = o.data;
                            int cap = 0;
                            for ( auto& ch : db.chrs )
                                if ( ch.var == o.a ) cap = ch.size;
                            if ( static_cast< int >( cur.size() ) > cap ) cur.resize( cap );
                        }
                        else
                            std::copy( o.data.begin(), o.data.begin() + std::min( o.data.size(), cur.size() ), cur.begin() );
                        srv.set_var( o.a, cur );
                        m.store[ o.a ] = cur;
                    }
                    break;
                case OP_NTF: notify( o.a, o.b ); break;
                case OP_OUT: output( o.conn, o.a ); break;
                case OP_WALK: walk( o.conn, o.a % 4, o.data ); break;
                case OP_ADV: adv( false, o.a ); break;
                case OP_SCAN: adv( true, o.a ); break;
                }
            }
            finish();
        }

        void finish()
        {
            m.compare_store( "at the end of the history" );
            if ( prop == "C09" )
                m.all_cccds();
            if ( prop == "C07" && db.queue_size )
                queue_released();
            if ( prop == "C11" || prop == "C10" )
                drain();
        }

        // C07: after execute / cancel / disconnect of the owner the next client can prepare
        void queue_released()
        {
            if ( m.queue_owner != -1 )
                return;
            // find a plainly writable variable
            for ( auto& ch : db.chrs )
            {
                if ( ch.vk != vg::V_VAR || ch.no_write || ch.enc != 0 || ch.size < 1 )
                    continue;
                for ( int c = 0; c != 3; ++c )
                {
                    if ( !m.con[ c ].connected )
                        continue;
                    bytes in{ 0x16 };
                    put16( in, db.attrs[ ch.value_attr ].handle );
                    put16( in, 0 );
                    in.push_back( m.store[ ch.var ][ 0 ] );
                    req( c, in, 0 );
                    bytes ex{ 0x18, 0x00 };
                    req( c, ex, 0 );
                    return;
                }
            }
        }

        // C11 bounded liveness: keep confirming and polling; every certainly pending request has to come out
        void drain()
        {
            for ( int c = 0; c != 3; ++c )
            {
                if ( !m.con[ c ].connected )
                    continue;
                const int rounds = 4 * ( static_cast< int >( m.con[ c ].maybe.size() ) + 2 );
                for ( int r = 0; r != rounds && !m.con[ c ].certain.empty(); ++r )
                {
                    if ( m.con[ c ].outstanding )
                        req( c, bytes{ 0x1e }, 0 );
                    output( c, 0 );
                }
                m.require( m.con[ c ].certain.empty(), "c11.never-sent", "after confirming every indication and polling ", rounds, " times the request ",
                    m.con[ c ].certain.empty() ? std::string() : verif::cat( "(chr ", m.con[ c ].certain.begin()->first, ", ", m.con[ c ].certain.begin()->second ? "indication" : "notification", ")" ),
                    " of connection ", c, " was never transmitted" );
            }
        }

        void labels()
        {
            if ( prop == "C01" ) rep.nontrivial = f_malformed;
            else if ( prop == "C02" ) rep.nontrivial = f_disc_end || f_multi_response;
            else if ( prop == "C03" ) rep.nontrivial = f_secondary_in_range;
            else if ( prop == "C05" ) rep.nontrivial = m.touched_protected_unencrypted;
            else if ( prop == "C06" ) rep.nontrivial = f_offset || f_perm;
            else if ( prop == "C07" ) rep.nontrivial = f_queue_multi || f_queue_drop;
            else if ( prop == "C08" ) rep.nontrivial = f_mtu;
            else if ( prop == "C09" ) rep.nontrivial = cccd_conns.size() >= 2 || n_cccd() >= 5;
            else if ( prop == "C10" ) rep.nontrivial = f_prio_var && has_prio();
            else if ( prop == "C11" ) rep.nontrivial = f_two_pending || f_unsub_ind;
            else if ( prop == "C14" ) rep.nontrivial = f_adv_trunc;
            rep.label_if( f_disc_end, "discovery-end-not-ffff" );
            rep.label_if( f_multi_response, "walk-needs-several-responses" );
            rep.label_if( f_secondary_in_range, "secondary-service-in-range" );
            rep.label_if( m.touched_protected_unencrypted, "protected-attribute-touched-unencrypted" );
            rep.label_if( f_offset, "non-zero-offset" );
            rep.label_if( f_perm, "permission-or-length-variation" );
            rep.label_if( f_queue_multi, "prepare-while-queue-owned-by-other" );
            rep.label_if( f_queue_drop, "disconnect-with-queued-writes" );
            rep.label_if( f_mtu, "mtu-exchange-not-23-or-rejected" );
            rep.label_if( cccd_conns.size() >= 2, "cccd-written-on-2-connections" );
            rep.label_if( n_cccd() >= 5, "5-or-more-cccds" );
            rep.label_if( f_two_pending, "two-requests-pending" );
            rep.label_if( f_unsub_ind, "indication-while-unsubscribed" );
            rep.label_if( f_adv_trunc, "advertising-item-truncated-or-dropped" );
            rep.label_if( has_prio(), "declaration-with-priorities" );
        }

        int n_cccd() const
        {
            int n = 0;
            for ( auto& ch : db.chrs ) n += ch.cccd_attr >= 0;
            return n;
        }
        bool has_prio() const { return prio_nonempty(); }
        bool prio_nonempty() const
        {
            std::size_t p = 0;
            while ( ( p = db.spec.find( "\"prio\":[", p ) ) != std::string::npos )
            {
                p += 8;
                if ( p < db.spec.size() && db.spec[ p ] != ']' )
                    return true;
            }
            return false;
        }
    };

    // ------------------------------------------------------------------------------------------ C14
    void Runner::adv( bool scan, int n )
    {
        const std::size_t size = static_cast< std::size_t >( n );
        std::uint8_t*     b    = new std::uint8_t[ size ? size : 1 ];
        // exact size heap buffer: a write beyond `size` is an ASan report (size 0: one byte that must stay untouched)
        if ( !size ) b[ 0 ] = 0xa5;
        const std::size_t r = scan ? srv.scan_response_data( b, size ) : srv.advertising_data( b, size );
        const bool canary = size || b[ 0 ] == 0xa5;
        bytes      out( b, b + std::min( r, size ) );
        delete[] b;
        const char* what = scan ? "scan response data" : "advertising data";
        m.require( r <= size && r <= 31 && canary, "c14.size", what, " for a buffer of ", size, " bytes reports ", r, " bytes" );
        const vg::AdvExpect& a = db.adv;
        if ( scan ? !a.automatic_scan : !a.automatic_adv )
        {
            const bytes& custom = scan ? a.custom_scan : a.custom_adv;
            bytes        exp( custom.begin(), custom.begin() + std::min( custom.size(), size ) );
            m.require( out == exp, "c14.custom", what, " must be the prefix of the custom data ", verif::hex( exp ), ", got ", verif::hex( out ) );
            if ( custom.size() > size ) f_adv_trunc = true;
            return;
        }
        // AD structures tile the payload; a zero length octet terminates early and only zeros may follow
        std::size_t p = 0;
        bool        have_flags = false, have_name = false;
        std::vector< int > types;
        while ( p < out.size() )
        {
            const std::size_t len = out[ p ];
            if ( len == 0 )
            {
                for ( std::size_t q = p; q != out.size(); ++q )
                    m.require( out[ q ] == 0, "c14.tiling", what, " ", verif::hex( out ), ": non zero octet after the terminating zero length" );
                break;
            }
            m.require( p + 1 + len <= out.size(), "c14.tiling", what, " ", verif::hex( out ), ": AD structure at offset ", p, " with length ", len, " runs past the end" );
            const int   type = out[ p + 1 ];
            const bytes body( out.begin() + p + 2, out.begin() + p + 1 + len );
            m.require( std::find( types.begin(), types.end(), type ) == types.end(), "c14.tiling", what, " ", verif::hex( out ), ": AD type ", type, " occurs twice" );
            types.push_back( type );
            switch ( type )
            {
            case 0x01:
                have_flags = true;
                m.require( body.size() == 1, "c14.flags", "flags AD with ", body.size(), " octets" );
                break;
            case 0x08:
            case 0x09: {
                have_name = true;
                m.require( a.has_name, "c14.name", what, " contains a name although none is configured: ", verif::hex( out ) );
                const std::string nm( body.begin(), body.end() );
                m.require( a.name.compare( 0, nm.size(), nm ) == 0, "c14.name", "advertised name '", nm, "' is no prefix of the configured name '", a.name, "'" );
                m.require( ( type == 0x09 ) == ( nm.size() == a.name.size() ), "c14.name", "advertised name '", nm, "' of '", a.name, "' is marked as ",
                    type == 0x09 ? "complete" : "shortened" );
                if ( type == 0x08 ) f_adv_trunc = true;
            }
            break;
            case 0x02:
            case 0x03:
            case 0x06:
            case 0x07: {
                const std::size_t            us   = type <= 0x03 ? 2 : 16;
                const std::vector< bytes >&  list = us == 2 ? a.uuids16 : a.uuids128;
                const bool                   complete = type == 0x03 || type == 0x07;
                m.require( body.size() % us == 0 && !body.empty(), "c14.uuids", "service UUID list AD with ", body.size(), " octets: ", verif::hex( out ) );
                std::vector< bytes > listed;
                for ( std::size_t q = 0; q < body.size(); q += us )
                {
                    const bytes u( body.begin() + q, body.begin() + q + us );
                    bool        known = std::find( list.begin(), list.end(), u ) != list.end();
                    // the automatic list may also name the GAP service
                    if ( !known && us == 2 && !( us == 2 ? db.adv_explicit16 : db.adv_explicit128 ) && u == bytes{ 0x00, 0x18 } )
                        known = true;
                    m.require( known, "c14.uuids", "advertised service UUID ", verif::hex( u ), " is not in the declared list" );
                    m.require( std::find( listed.begin(), listed.end(), u ) == listed.end(), "c14.uuids", "service UUID ", verif::hex( u ), " listed twice" );
                    listed.push_back( u );
                }
                std::size_t missing = 0;
                for ( auto& u : list )
                    if ( std::find( listed.begin(), listed.end(), u ) == listed.end() )
                        ++missing;
                // the automatic 16 bit list may or may not count the GAP service that the server adds itself
                const bool explicit_list = us == 2 ? db.adv_explicit16 : db.adv_explicit128;
                bool       gap_missing   = false;
                if ( !explicit_list && us == 2 )
                    for ( auto& s : db.svcs )
                        if ( s.is_gap && std::find( listed.begin(), listed.end(), s.uuid ) == listed.end() )
                            gap_missing = true;
                m.require( complete ? missing == 0 : ( missing != 0 || gap_missing ), "c14.uuids", "service UUID list ", verif::hex( body ), " is marked ",
                    complete ? "complete" : "incomplete", " but ", missing, " of the declared UUIDs are missing" );
                if ( !complete ) f_adv_trunc = true;
            }
            break;
            case 0x19:
                m.require( a.has_appearance && body.size() == 2 && vg::rd16( body.data() ) == a.appearance, "c14.appearance", "appearance AD ", verif::hex( body ), " (configured: ",
                    a.has_appearance ? int( a.appearance ) : -1, ")" );
                break;
            case 0x12:
                m.require( a.has_interval_range && body.size() == 4 && vg::rd16( body.data() ) == a.interval_min && vg::rd16( body.data() + 2 ) == a.interval_max, "c14.range",
                    "connection interval range AD ", verif::hex( body ), " does not match the configuration" );
                break;
            default: m.require( false, "c14.tiling", what, " ", verif::hex( out ), " contains the unexpected AD type ", type ); break;
            }
            p += 1 + len;
        }
        if ( !scan )
        {
            m.require( have_flags || size < 3, "c14.flags", "advertising data for a buffer of ", size, " bytes lacks the flags: ", verif::hex( out ) );
            // dropped items
            if ( a.has_name && !a.name.empty() && !have_name ) f_adv_trunc = true;
            if ( ( !a.uuids16.empty() && std::find( types.begin(), types.end(), 2 ) == types.end() && std::find( types.begin(), types.end(), 3 ) == types.end() )
                || ( !a.uuids128.empty() && std::find( types.begin(), types.end(), 6 ) == types.end() && std::find( types.begin(), types.end(), 7 ) == types.end() ) )
                f_adv_trunc = true;
        }
    }

    // ------------------------------------------------------------------------------------------ C04
    void static_handle_check( vg::ServerIf& srv, vg::Model& m, verif::Report& rep )
    {
        const vg::Db& db = srv.db();
        const std::size_t n = srv.number_of_attributes();
        m.require( n == db.attrs.size(), "c04.count", "the server has ", n, " attributes, the declaration describes ", db.attrs.size() );
        std::uint16_t prev = 0;
        for ( std::size_t i = 0; i != n; ++i )
        {
            const std::uint16_t h = srv.handle_by_index( i );
            m.require( h != 0 && h > prev, "c04.unique-increasing", "attribute ", i, " has handle ", h, " after handle ", prev );
            prev = h;
            m.require( h == db.attrs[ i ].handle, db.attrs[ i ].fixed_handle ? "c04.fixed-handle" : "c04.sequential", "attribute ", i, " (kind ", db.attrs[ i ].kind,
                ") has handle ", h, ", the declaration implies ", db.attrs[ i ].handle );
            m.require( srv.index_by_handle( h ) == i, "c04.mapping", "index_by_handle( handle_by_index( ", i, " ) = ", h, " ) = ", srv.index_by_handle( h ) );
        }
        // all 65536 handles
        std::size_t next = 0;  // lowest index with handle >= h
        for ( unsigned h = 0; h <= 0xffff; ++h )
        {
            while ( next < n && db.attrs[ next ].handle < h )
                ++next;
            const std::size_t idx   = srv.index_by_handle( static_cast< std::uint16_t >( h ) );
            const std::size_t first = srv.first_index_by_handle( static_cast< std::uint16_t >( h ) );
            const bool        exists = next < n && db.attrs[ next ].handle == h;
            if ( h != 0 )
            {
                m.require( exists ? idx == next : idx == ~std::size_t( 0 ), "c04.mapping", "index_by_handle( ", h, " ) = ", idx, ", expected ",
                    exists ? static_cast< long >( next ) : -1L );
                m.require( next < n ? first == next : first == ~std::size_t( 0 ), "c04.mapping", "first_index_by_handle( ", h, " ) = ", first, ", expected ",
                    next < n ? static_cast< long >( next ) : -1L );
            }
        }
        // every attribute is accessed under its handle and has the declared type and value (encrypted link: everything readable is visible)
        srv.connect( 0 );
        m.con[ 0 ].connected = true;
        srv.security( 0, 2 );
        m.con[ 0 ].sec = 2;
        for ( std::size_t i = 0; i != n; ++i )
        {
            const std::uint16_t h = db.attrs[ i ].handle;
            bytes               in{ 0x04 };
            put16( in, h );
            put16( in, h );
            bytes out = m.raw( 0, in );
            m.mtu_before = m.mtu( 0 );
            m.request( 0, in, out, db.max_mtu );
            bytes rd{ 0x0a };
            put16( rd, h );
            out = m.raw( 0, rd );
            m.request( 0, rd, out, db.max_mtu );
        }
        bool fixed = false, incl = false;
        for ( auto& a : db.attrs )
        {
            fixed = fixed || a.fixed_handle;
            incl  = incl || a.kind == vg::A_INCLUDE;
        }
        rep.nontrivial = fixed || incl;
        rep.label_if( fixed, "fixed-handles" );
        rep.label_if( incl, "include-declarations" );
    }

    void static_handle_labels( vg::ServerIf& srv, verif::Report& rep )
    {
        bool fixed = false, incl = false;
        for ( auto& a : srv.db().attrs )
        {
            fixed = fixed || a.fixed_handle;
            incl  = incl || a.kind == vg::A_INCLUDE;
        }
        rep.nontrivial = fixed || incl;
        rep.label_if( fixed, "fixed-handles" );
        rep.label_if( incl, "include-declarations" );
    }

    void run( const Case& c, verif::Report& rep )
    {
        vg::ServerIf& srv = *vg::servers()[ c.decl ];
        srv.reset();
        Runner r( srv, rep );
        rep.label( "decl=" + srv.db().id );
        try
        {
            if ( verif::property() == "C04" )
            {
                // the complete enumeration of the handle space is a function of the declaration only: once per declaration and
                // process (and always when a case is replayed); the other cases of that declaration add random histories
                static std::set< int > enumerated;
                if ( verif::Session::get().replay_mode || enumerated.insert( c.decl ).second )
                    static_handle_check( srv, r.m, rep );
                else
                    static_handle_labels( srv, rep );
                srv.reset();
                Runner r2( srv, rep );
                const bool nt = rep.nontrivial;
                r2.run( c );
                rep.nontrivial = nt;
                return;
            }
            r.run( c );
        }
        catch ( const vg::Diverged& d )
        {
            rep.label( "diverged-on-another-property" );
            if ( verif::opt( "show_diverged" ) == "1" )
                std::cerr << "diverged: " << d.what << "\n";
        }
        r.labels();
    }

    rc::Gen< Case > gen_case_c04()
    {
        // C04 enumerates each declaration completely; the history part is a short random walk
        return gen_case();
    }
}

#ifdef VG_FUZZ
extern "C" int LLVMFuzzerTestOneInput( const std::uint8_t* data, std::size_t size )
{
    static bool init = false;
    if ( !init )
    {
        init = true;
        auto& S = verif::Session::get();
        S.property = std::getenv( "VERIF_FUZZ_PROPERTY" ) ? std::getenv( "VERIF_FUZZ_PROPERTY" ) : "C01";
        if ( std::getenv( "VERIF_FUZZ_EXCLUDE" ) )
            S.opts[ "exclude" ] = std::getenv( "VERIF_FUZZ_EXCLUDE" );
    }
    FuzzedDataProvider fdp( data, size );
    g_fdp = &fdp;
    const Case c = decode_case();
    if ( std::getenv( "VERIF_FUZZ_DECODE" ) )
        std::cout << to_text( c );
    verif::Report rep;
    try
    {
        run( c, rep );
    }
    catch ( const verif::failure& f )
    {
        std::cerr << "VERIF-FUZZ-VIOLATION oracle=" << f.oracle << " " << f.msg << "\n" << to_text( c );
        __builtin_trap();
    }
    return 0;
}
#else
int main( int argc, char** argv )
{
    if ( vg::servers().empty() )
    {
        std::cerr << "no declaration linked\n";
        return 2;
    }
    verif::Harness< Case > h;
    h.gen       = gen_case;
    h.to_text   = to_text;
    h.from_text = from_text;
    h.run       = run;
    return verif::run_main( argc, argv, h );
}
#endif
