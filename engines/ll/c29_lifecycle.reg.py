import hashlib as _hashlib
_c29_base = _hashlib.sha256(open(_os.path.join(_os.path.dirname(_os.path.abspath(_f)), 'c27_llbase.hpp'), 'rb').read()).hexdigest()[:16]

target('c29_lifecycle', 'engines/ll/c29_lifecycle.cpp',
       quick=dict(cases=400000, size=50), thorough=dict(cases=1000000, size=80),
       extra_src=LL_SRC, cxxflags=['-DC27_LLBASE_SHA=0x' + _c29_base],
       # avoid=F-21c: no traffic but empty PDUs while an instant is pending, instant carrying PDUs are sent with empty queues
       #              (deferred PDU overwritten / instant == current event hangs on a tree without sketches 13 and 25);
       # avoid=F-27b: an empty PDU still delivers its acknowledgement when the receive ring is full (see c27_llbase.hpp)
       opts={'avoid': 'F-21c,F-27b'})
prop('C29', ['c29_lifecycle'], 'll',
     rule='rapidcheck generates a buffer / latency configuration and a run over several connections: valid and invalid '
          'CONNECT_INDs, unanswered advertising, bursts of up to 8 control PDUs per connection event that produce application '
          'callbacks (rejects, unknown responses, feature requests, version indication, PHY update), connection updates with '
          'instants in the future and in the past, LL_TERMINATE_IND, unacknowledged events (received PDUs pile up and are '
          'handled in one burst), idle and missed events up to the supervision / connection attempt timeout, disconnect( reason ) '
          'and own procedures; a case is non-trivial if one radio callback produced four or more application callbacks or a '
          'connection ended in a radio callback that produced other callbacks as well; distinct = distinct serialised cases',
     technique='model-based property testing (rapidcheck): per connection state machine over the application callback log, checked after every radio callback',
     level_text='the real link_layer runs under a harness-owned radio and central; after every radio callback the callback log '
                'has to be a prefix of requested (established changed* closed | attempt_timeout) with every lifecycle callback '
                'exactly once, in the radio callback the model expects it, with the parameters / address / reason the history '
                'justifies, and never for another connection object. Sampling, not proof.',
     level_note='trusted: state machine in engines/ll/c29_lifecycle.cpp, reference central in engines/ll/c27_llbase.hpp; version / '
                'rejected / unknown / features / phy notifications may be dropped under overload (not covered by the statement); '
                'the exact time of a supervision timeout is C22',
     assumptions=COMMON_ASSUME)
