// C21 / C22 / C23 (link-layer half): bluetoe::link_layer::link_layer under a harness-owned radio and a reference central
// (DESIGN.md 3.3 and section 4, C21, C22, C23).  One source, three targets (c21_instant, c22_timing, c23ll_latency); the
// generator profile, the oracle set and the non-trivial rule are switched on verif::property().
//
// The harness is the radio and the central: it owns the clock.  After every scheduling call of the link layer the
// monitors compare the scheduled connection event (event counter, data channel, receive window, PHY) with what the
// reference central -- which keeps its own absolute event index, anchor times, connection parameters, channel map
// (CSA#1 written from Vol 6 Part B 4.5.8.2), PHY and SN/NESN -- is going to do.
//
//   time 0                       = end of the CONNECT_IND (T0 of the scheduled radio)
//   T(c)                         = absolute time at which the central transmits in the event with (absolute) index c
//   anchor                       = T(a) of the last event a in which the peripheral received a packet
//   receive window [s,e]         = as given to schedule_connection_event(), relative to the anchor
//
// Case text: `cfg <n>`, `param creq ...`, then one operation per line:
//   ev <pdu> [args] [lost] [md] [unack] [err]    the peripheral receives the central's packet in the scheduled event
//   miss <n>                                     the peripheral receives nothing in n consecutive scheduled events
//   notify <grant> <percent> <characteristic>    application calls notify(); answer of disarm_connection_event()
//   cfgset <k>                                   change_peripheral_latency<>() (configuration set only)
#include "verif.hpp"

#include <bluetoe/server.hpp>
#include <bluetoe/ll_data_pdu_buffer.hpp>
#include <bluetoe/link_layer.hpp>

#include <deque>
#include <memory>

namespace c21_lltiming {

    namespace ll = bluetoe::link_layer;
    using u8     = std::uint8_t;
    using i64    = std::int64_t;

    // ============================================================================================ harness radio
    struct radio_rec
    {
        bool            adv_pending = false, evt_pending = false;
        unsigned        evt_channel = 0;
        std::uint32_t   evt_start = 0, evt_end = 0, evt_interval = 0;
        unsigned        evt_count = 0, adv_count = 0;
        ll::read_buffer adv_rx{ nullptr, 0 };
        bool            cancel_req = false;
        int             wake       = 0;
        bool            disarm_grant = false;
        std::uint32_t   disarm_time  = 0;
        unsigned        disarm_calls = 0;
        u8              phy_rx = 1, phy_tx = 1;
        unsigned        phy_calls = 0;
    };

    template < std::size_t Tx, std::size_t Rx, typename CB >
    class verif_radio : public ll::ll_data_pdu_buffer< Tx, Rx, verif_radio< Tx, Rx, CB > >, public radio_rec
    {
    public:
        using buf = ll::ll_data_pdu_buffer< Tx, Rx, verif_radio< Tx, Rx, CB > >;

        // user provided, so that -fsanitize-address-field-padding pads everything that derives from the radio
        ~verif_radio() { evt_pending = adv_pending = false; }

        void schedule_advertisment( unsigned, const ll::write_buffer&, const ll::write_buffer&, ll::delta_time, const ll::read_buffer& rx )
        {
            adv_rx      = rx;
            adv_pending = true;
            evt_pending = false;
            ++adv_count;
        }

        ll::delta_time schedule_connection_event( unsigned channel, ll::delta_time s, ll::delta_time e, ll::delta_time i )
        {
            evt_channel  = channel;
            evt_start    = s.usec();
            evt_end      = e.usec();
            evt_interval = i.usec();
            evt_pending  = true;
            adv_pending  = false;
            ++evt_count;
            return ll::delta_time();
        }

        std::pair< bool, ll::delta_time > disarm_connection_event()
        {
            ++disarm_calls;
            if ( disarm_grant )
                evt_pending = false;
            return { disarm_grant, ll::delta_time( disarm_time ) };
        }

        bool          schedule_synchronized_user_timer( ll::delta_time, ll::delta_time ) { return false; }
        bool          cancel_synchronized_user_timer() { return false; }
        void          set_access_address_and_crc_init( std::uint32_t, std::uint32_t ) {}
        std::uint32_t static_random_address_seed() const { return 0x47110815; }
        void          run() {}
        void          wake_up() { ++wake; }
        void          request_event_cancelation() { cancel_req = true; }
        void          radio_set_phy( ll::phy_ll_encoding::phy_ll_encoding_t r, ll::phy_ll_encoding::phy_ll_encoding_t t )
        {
            if ( r != ll::phy_ll_encoding::le_unchanged_coding ) phy_rx = r;
            if ( t != ll::phy_ll_encoding::le_unchanged_coding ) phy_tx = t;
            ++phy_calls;
        }
        void increment_receive_packet_counter() {}
        void increment_transmit_packet_counter() {}
        struct lock_guard
        {
            lock_guard() {}
            ~lock_guard() {}
        };
        static constexpr std::size_t radio_maximum_white_list_entries          = 0;
        static constexpr bool        hardware_supports_encryption              = false;
        static constexpr bool        hardware_supports_2mbit                   = true;
        static constexpr bool        hardware_supports_synchronized_user_timer = false;
        static constexpr unsigned    connection_event_setup_time_us            = 100u;

        using buf::allocate_receive_buffer;
        using buf::next_transmit;
        using buf::received;
    };

    // ============================================================================================ server, callbacks
    std::uint32_t value1 = 0, value2 = 0;

    // handles: 1 service, 2/3 first characteristic + value, 4 its CCCD, 5/6 second characteristic + value, 7 its CCCD
    using srv = bluetoe::server< bluetoe::no_gap_service_for_gatt_servers,
        bluetoe::service< bluetoe::service_uuid16< 0x1815 >,
            bluetoe::characteristic< bluetoe::characteristic_uuid16< 0x2A01 >, bluetoe::bind_characteristic_value< std::uint32_t, &value1 >, bluetoe::notify >,
            bluetoe::characteristic< bluetoe::characteristic_uuid16< 0x2A02 >, bluetoe::bind_characteristic_value< std::uint32_t, &value2 >, bluetoe::notify > > >;

    struct cb_entry
    {
        std::string what;
        int         a = 0, b = 0, c = 0;
    };
    std::vector< cb_entry > cblog;

    struct cb_t
    {
        template < class C > void ll_connection_requested( const ll::connection_details&, const ll::connection_addresses&, C& ) { cblog.push_back( { "requested" } ); }
        template < class C > void ll_connection_established( const ll::connection_details&, const ll::connection_addresses&, C& ) { cblog.push_back( { "established" } ); }
        template < class C > void ll_connection_closed( std::uint8_t r, C& ) { cblog.push_back( { "closed", r } ); }
        template < class C > void ll_connection_changed( const ll::connection_details& d, C& ) { cblog.push_back( { "changed", d.interval(), d.latency(), d.timeout() } ); }
        template < class C > void ll_connection_attempt_timeout( C& ) { cblog.push_back( { "attempt_timeout" } ); }
        template < class C > void ll_version( std::uint8_t, std::uint16_t, std::uint16_t, C& ) { cblog.push_back( { "version" } ); }
        template < class C > void ll_rejected( std::uint8_t, C& ) { cblog.push_back( { "rejected" } ); }
        template < class C > void ll_unknown( std::uint8_t, C& ) { cblog.push_back( { "unknown" } ); }
        template < class C > void ll_remote_features( std::uint8_t*, C& ) { cblog.push_back( { "features" } ); }
        template < class C > void ll_phy_updated( ll::phy_ll_encoding::phy_ll_encoding_t r, ll::phy_ll_encoding::phy_ll_encoding_t t, C& ) { cblog.push_back( { "phy", r, t } ); }
    } cbs;

    // ============================================================================================ configurations
    enum feature : unsigned { F_PENDING = 1, F_UNACK = 2, F_RX = 4, F_TX = 8, F_MD = 16, F_ALWAYS = 32 };
    using PL = ll::peripheral_latency;

    using lat_none    = ll::peripheral_latency_configuration<>;
    using lat_strict  = ll::peripheral_latency_strict;
    using lat_plus    = ll::peripheral_latency_strict_plus;
    using lat_default = ll::periperal_latency_default_configuration;
    using lat_ack_tx  = ll::peripheral_latency_configuration< PL::listen_if_unacknowledged_data, PL::listen_if_last_transmitted_not_empty >;
    using lat_set     = ll::peripheral_latency_configuration_set< lat_none, lat_strict, lat_default >;

    struct dev_if
    {
        virtual ~dev_if() {}
        virtual radio_rec&       rec()                                    = 0;
        virtual void             start()                                  = 0;
        virtual void             adv_received( const ll::read_buffer& )   = 0;
        virtual void             timeout()                                = 0;
        virtual void             end_event( ll::connection_event_events ) = 0;
        virtual void             try_event_cancelation()                  = 0;
        virtual unsigned         counter()                                = 0;
        virtual bool             pending_tx()                             = 0;
        virtual std::size_t      rx_head()                                = 0;
        virtual std::size_t      tx_room()                                = 0;
        virtual ll::read_buffer  alloc_rx()                               = 0;
        virtual ll::write_buffer received( ll::read_buffer )              = 0;
        virtual ll::write_buffer next_transmit()                          = 0;
        virtual void             notify( int which )                      = 0;
        virtual void             cfgset( int )                            = 0;
    };

    template < class Dev >
    void switch_cfg( Dev&, int, std::false_type )
    {
    }
    template < class Dev >
    void switch_cfg( Dev& d, int k, std::true_type )
    {
        if ( k == 0 ) d.template change_peripheral_latency< lat_none >();
        if ( k == 1 ) d.template change_peripheral_latency< lat_strict >();
        if ( k == 2 ) d.template change_peripheral_latency< lat_default >();
    }

    template < bool IsSet, class... Opts >
    struct dev_impl : dev_if
    {
        struct dev : ll::link_layer< srv, verif_radio, ll::connection_callbacks< cb_t, cbs >, ll::static_address< 0xc0, 0x0f, 0x15, 0x08, 0x11, 0x47 >, Opts... >
        {
        } d;

        radio_rec&       rec() override { return d; }
        void             start() override { d.run(); }
        void             adv_received( const ll::read_buffer& b ) override { d.adv_received( b ); }
        void             timeout() override { d.timeout(); }
        void             end_event( ll::connection_event_events e ) override { d.end_event( e ); }
        void             try_event_cancelation() override { d.try_event_cancelation(); }
        unsigned         counter() override { return d.connection_event_counter(); }
        bool             pending_tx() override { return d.pending_outgoing_data_available(); }
        std::size_t      rx_head() override { return d.next_received().size; }
        std::size_t      tx_room() override { return d.allocate_transmit_buffer( 29 ).size; }
        ll::read_buffer  alloc_rx() override { return d.allocate_receive_buffer(); }
        ll::write_buffer received( ll::read_buffer b ) override { return d.received( b ); }
        ll::write_buffer next_transmit() override { return d.next_transmit(); }
        void             notify( int which ) override
        {
            if ( which )
                d.notify( value2 );
            else
                d.notify( value1 );
        }
        void             cfgset( int k ) override { switch_cfg( d, k, std::integral_constant< bool, IsSet >() ); }
    };

    struct config
    {
        const char*                                   name;
        unsigned                                      sca_ppm;   // peripheral's own sleep clock accuracy
        std::vector< unsigned >                       features;  // per selectable latency configuration
        std::function< std::unique_ptr< dev_if >() >  make;
    };

    template < bool IsSet, class... Opts >
    config cfg( const char* name, unsigned sca, std::vector< unsigned > f )
    {
        return config{ name, sca, f, [] { return std::unique_ptr< dev_if >( new dev_impl< IsSet, Opts... >() ); } };
    }

    const std::vector< config >& configs()
    {
        static const std::vector< config > c = {
            cfg< false >( "default-lat,500ppm", 500, { F_PENDING | F_UNACK | F_RX | F_TX | F_MD } ),
            cfg< false, lat_strict, ll::sleep_clock_accuracy_ppm< 20 > >( "strict,20ppm", 20, { F_PENDING | F_MD } ),
            cfg< false, lat_none, ll::sleep_clock_accuracy_ppm< 250 >, ll::buffer_sizes< 100, 100 > >( "no-listen-option,250ppm,buf100", 250, { 0 } ),
            cfg< true, lat_set, ll::sleep_clock_accuracy_ppm< 100 > >( "set(none|strict|default),100ppm", 100,
                { 0, F_PENDING | F_MD, F_PENDING | F_UNACK | F_RX | F_TX | F_MD } ),
#ifndef LLT_FEW_CONFIGS
            cfg< false, lat_plus, ll::sleep_clock_accuracy_ppm< 50 > >( "strict-plus,50ppm", 50, { F_RX | F_MD } ),
            cfg< false, ll::peripheral_latency_ignored >( "listen-always,500ppm", 500, { F_ALWAYS } ),
            cfg< false, lat_ack_tx, ll::sleep_clock_accuracy_ppm< 0 > >( "unack|tx,0ppm", 0, { F_UNACK | F_TX } ),
#endif
        };
        return c;
    }

    // ============================================================================================ the generated case
    struct Creq
    {
        int winsize = 3, winoff = 11, interval = 24, latency = 0, timeout = 72, sca = 5, hop = 10;
        u8  map[ 5 ] = { 0xff, 0xff, 0xff, 0xff, 0x1f };
        int frac      = 50;  // where inside the transmit window the central places its first packet (percent)
    };

    enum op_kind { EV, MISS, NOTIFY, CFGSET };
    enum pdu_kind { P_EMPTY, P_PING, P_WRCMD, P_WRREQ, P_READ, P_CCCD, P_UPD, P_MAP, P_PHY };

    struct Op
    {
        int kind = EV;
        int pdu  = P_EMPTY;
        int len  = 0;      // P_WRCMD / P_WRREQ payload length, P_CCCD value
        int delta = 6;     // instant - counter of the event in which the peripheral receives the PDU (as 16 bit two's complement)
        int winsize = 1, winoff = 0, interval = 24, latency = 0, timeout = 72, frac = 0;  // P_UPD
        u8  map[ 5 ] = { 0xff, 0xff, 0xff, 0xff, 0x1f };                                    // P_MAP
        int phy_c2p = 2, phy_p2c = 2;                                                       // P_PHY
        bool lost = false, md = false, unack = false, err = false;
        int n = 1;         // MISS: number of events; CFGSET: configuration
        bool grant = true; // NOTIFY
        int percent = 0;   // NOTIFY: how far the time went towards the start of the scheduled window
        int which = 0;     // NOTIFY: characteristic
    };

    struct Case
    {
        int               cfg = 0;
        Creq              creq;
        std::vector< Op > ops;
    };

    // -------------------------------------------------------------------------------------------- parameter rules (Vol 6 Part B 2.3.3.1, 4.5.2)
    enum validity { VALID, INVALID, GREY };

    int popcount37( const u8* m )
    {
        int n = 0;
        for ( int c = 0; c != 37; ++c )
            n += ( m[ c / 8 ] >> ( c % 8 ) ) & 1;
        return n;
    }

    validity classify( const Creq& q, std::string& why )
    {
        validity v = VALID;
        auto bad = [&]( const char* w ) { v = INVALID; if ( why.empty() ) why = w; };
        auto grey = [&]( const char* w ) { if ( v == VALID ) { v = GREY; why = w; } };
        if ( q.interval < 6 || q.interval > 3200 ) bad( "interval" );
        if ( q.latency > 499 ) bad( "latency" );
        if ( q.timeout < 10 || q.timeout > 3200 ) bad( "timeout" );
        // timeout * 10 ms > ( 1 + latency ) * interval * 1.25 ms * 2
        if ( i64( q.timeout ) * 4 < ( i64( q.latency ) + 1 ) * q.interval ) bad( "supervision-relation" );
        if ( q.winsize > 8 || q.winsize > q.interval ) bad( "winsize" );
        if ( q.winoff > q.interval ) bad( "winoffset" );
        if ( q.hop < 5 || q.hop > 16 ) bad( "hop" );
        if ( popcount37( q.map ) < 2 ) bad( "map" );
        if ( v != INVALID )
        {
            if ( q.winsize == 0 ) grey( "winsize=0" );
            if ( q.winsize == q.interval ) grey( "winsize=interval" );
            if ( i64( q.timeout ) * 4 == ( i64( q.latency ) + 1 ) * q.interval ) grey( "supervision-relation-equal" );
        }
        return v;
    }

    // -------------------------------------------------------------------------------------------- generators
    struct timing
    {
        int interval, latency, timeout, winsize, winoff;
    };

    // valid timing parameters; `maxlat` caps the latency, `tight` prefers a supervision timeout that a few missed anchor points reach
    rc::Gen< timing > gen_valid_timing( int maxlat, bool tight, bool long_times )
    {
        return rc::gen::exec( [=]() {
            timing t;
            const int cls = *rc::gen::weightedElement< int >( { { long_times ? 3u : 6u, 0 }, { 3, 1 }, { long_times ? 4u : 1u, 2 }, { 1, 3 } } );
            t.interval    = cls == 0 ? *verif::range< int >( 6, 40 ) : cls == 1 ? *verif::range< int >( 41, 400 ) : cls == 2 ? *verif::range< int >( 401, 3200 )
                                                                                                                          : *rc::gen::element( 6, 7, 3199, 3200 );
            // ( 1 + latency ) * interval < 4 * 3200
            const int lat_limit = std::max( 0, std::min( { 499, maxlat, ( 4 * 3200 - 1 ) / t.interval - 1 } ) );
            t.latency           = *rc::gen::weightedOneOf< int >( { { 2, rc::gen::just( 0 ) }, { 5, verif::range< int >( 0, std::min( lat_limit, 10 ) ) }, { 2, verif::range< int >( 0, lat_limit ) },
                { 1, rc::gen::just( lat_limit ) } } );
            const int min_to    = std::max( 10, ( ( t.latency + 1 ) * t.interval ) / 4 + 1 );
            const int hi        = tight ? std::min< i64 >( 3200, std::max< i64 >( min_to, i64( min_to ) * 3 ) ) : 3200;
            t.timeout           = *rc::gen::weightedOneOf< int >( { { 6, verif::range< int >( min_to, hi ) }, { 2, verif::range< int >( min_to, 3200 ) }, { 1, rc::gen::just( min_to ) }, { 1, rc::gen::just( 3200 ) } } );
            t.winsize           = *verif::range< int >( 1, std::min( 8, t.interval - 1 ) );
            t.winoff            = *rc::gen::weightedOneOf< int >( { { 4, verif::range< int >( 0, t.interval ) }, { 1, rc::gen::just( 0 ) }, { 1, rc::gen::just( t.interval ) } } );
            return t;
        } );
    }

    rc::Gen< std::array< u8, 5 > > gen_map( bool valid )
    {
        return rc::gen::exec( [=]() {
            std::array< u8, 5 > m{};
            const int           style = *verif::range< int >( 0, 5 );
            if ( style == 0 )
                m = { 0xff, 0xff, 0xff, 0xff, 0x1f };
            else if ( style == 1 )
                m = { 0x55, 0x55, 0x55, 0x55, 0x15 };
            else if ( style == 2 )
                m = { 0xaa, 0xaa, 0xaa, 0xaa, 0x0a };
            else
            {
                const int want = style == 3 ? *verif::range< int >( 2, 5 ) : *verif::range< int >( 2, 37 );
                int       have = 0;
                while ( have < want )
                {
                    const int c = *verif::range< int >( 0, 36 );
                    if ( !( m[ c / 8 ] & ( 1 << ( c % 8 ) ) ) )
                    {
                        m[ c / 8 ] |= 1 << ( c % 8 );
                        ++have;
                    }
                }
            }
            if ( !valid )
            {
                m = { 0, 0, 0, 0, 0 };
                if ( *rc::gen::arbitrary< bool >() )
                {
                    const int c = *verif::range< int >( 0, 36 );
                    m[ c / 8 ] |= 1 << ( c % 8 );
                }
            }
            return m;
        } );
    }

    int prop_no()
    {
        const std::string& p = verif::property();
        return p == "C22" ? 22 : p == "C23" ? 23 : 21;
    }

    rc::Gen< Creq > gen_creq( int prop )
    {
        return rc::gen::exec( [=]() {
            Creq         q;
            const timing t = *gen_valid_timing( prop == 21 ? 10 : prop == 22 ? 60 : 499, prop != 23, prop == 22 );
            q.interval = t.interval, q.latency = t.latency, q.timeout = t.timeout, q.winsize = t.winsize, q.winoff = t.winoff;
            // C22: favour the coarse central clocks, so that a lost clock accuracy term is far outside of the 1 us tolerance
            q.sca  = prop == 22 ? *rc::gen::weightedElement< int >( { { 5, 0 }, { 4, 1 }, { 1, 2 }, { 1, 3 }, { 1, 4 }, { 1, 5 }, { 1, 6 }, { 1, 7 } } ) : *verif::range< int >( 0, 7 );
            q.hop  = *verif::range< int >( 5, 16 );
            q.frac = *rc::gen::weightedOneOf< int >( { { 3, verif::range< int >( 0, 100 ) }, { 1, rc::gen::just( 0 ) }, { 1, rc::gen::just( 100 ) } } );
            const auto m = *gen_map( true );
            std::copy( m.begin(), m.end(), q.map );

            if ( prop == 22 && *rc::gen::arbitrary< bool >() )
            {
                // one field is moved into an invalid or boundary class
                switch ( *verif::range< int >( 0, 9 ) )
                {
                case 0: q.interval = *rc::gen::weightedOneOf< int >( { { 3, verif::range< int >( 0, 5 ) }, { 2, verif::range< int >( 3201, 12800 ) }, { 1, verif::range< int >( 12801, 65535 ) } } ); break;
                case 1: q.latency = *rc::gen::weightedOneOf< int >( { { 2, rc::gen::just( 500 ) }, { 2, verif::range< int >( 501, 2000 ) }, { 2, verif::range< int >( 2001, 65535 ) } } ); break;
                case 2: q.timeout = *rc::gen::weightedOneOf< int >( { { 2, verif::range< int >( 0, 9 ) }, { 2, verif::range< int >( 3201, 65535 ) }, { 1, rc::gen::just( 3201 ) } } ); break;
                case 3:  // supervision relation violated or met with equality
                {
                    const i64 prod = ( i64( q.latency ) + 1 ) * q.interval;
                    q.timeout      = static_cast< int >( std::max< i64 >( 0, prod / 4 - *verif::range< int >( 0, 3 ) ) );
                    break;
                }
                case 4: q.winsize = *rc::gen::weightedOneOf< int >( { { 2, rc::gen::just( 0 ) }, { 3, verif::range< int >( 9, 255 ) }, { 1, rc::gen::just( std::min( 255, q.interval ) ) },
                    { 1, rc::gen::just( std::min( 255, q.interval + 1 ) ) } } ); break;
                case 5: q.winoff = *rc::gen::weightedOneOf< int >( { { 3, verif::range< int >( q.interval + 1, std::min( 65535, q.interval + 20 ) ) }, { 1, verif::range< int >( q.interval + 1, 65535 ) } } ); break;
                case 6: q.hop = *rc::gen::oneOf( verif::range< int >( 0, 4 ), verif::range< int >( 17, 31 ) ); break;
                case 7:
                {
                    const auto bad = *gen_map( false );
                    std::copy( bad.begin(), bad.end(), q.map );
                    break;
                }
                case 8:  // a short interval with a valid window that is as large as possible
                    q.interval = *verif::range< int >( 6, 9 );
                    q.latency  = 0;
                    q.winsize  = *verif::range< int >( q.interval - 1, q.interval + 1 );
                    q.winoff   = *verif::range< int >( 0, q.interval );
                    break;
                case 9:  // large latency with a large interval: the product overflows 32 bit microsecond arithmetic
                    q.interval = *verif::range< int >( 1000, 3200 );
                    q.latency  = *verif::range< int >( 300, 3000 );
                    q.timeout  = *verif::range< int >( 100, 3200 );
                    break;
                }
            }
            return q;
        } );
    }

    rc::Gen< Op > gen_proc( int prop, int pdu )
    {
        return rc::gen::exec( [=]() {
            Op o;
            o.kind = EV;
            o.pdu  = pdu;
            if ( prop == 21 )
                o.delta = *rc::gen::weightedOneOf< int >( { { 2, rc::gen::just( 0 ) }, { 2, rc::gen::just( 1 ) }, { 2, rc::gen::just( 2 ) }, { 6, verif::range< int >( 3, 20 ) }, { 1, rc::gen::just( -1 ) },
                    { 1, verif::range< int >( -32768, -2 ) }, { 1, rc::gen::just( 32767 ) } } );
            else
                o.delta = *verif::range< int >( 2, 14 );
            if ( pdu == P_UPD )
            {
                const timing t = *gen_valid_timing( prop == 21 ? 10 : prop == 22 ? 60 : 499, prop != 23, prop == 22 );
                o.interval = t.interval, o.latency = t.latency, o.timeout = t.timeout, o.winsize = t.winsize, o.winoff = t.winoff;
                o.frac     = *verif::range< int >( 0, 100 );
            }
            else if ( pdu == P_MAP )
            {
                const auto m = *gen_map( true );
                std::copy( m.begin(), m.end(), o.map );
            }
            else
            {
                o.phy_c2p = *rc::gen::element( 0, 1, 2, 2 );
                o.phy_p2c = *rc::gen::element( 0, 1, 2, 2 );
            }
            return o;
        } );
    }

    rc::Gen< Op > gen_op( int prop, bool is_set )
    {
        return rc::gen::exec( [=]() {
            // weights: empty, ping, wrcmd, wrreq, read, cccd, upd, map, phy | miss, notify, cfgset
            static const unsigned w21[] = { 8, 3, 5, 2, 2, 1, 3, 3, 2, 5, 3, 0 };
            static const unsigned w22[] = { 10, 1, 1, 0, 0, 0, 3, 0, 0, 9, 0, 0 };
            static const unsigned w23[] = { 8, 3, 3, 1, 1, 1, 1, 1, 0, 4, 6, 2 };
            const unsigned*       w     = prop == 21 ? w21 : prop == 22 ? w22 : w23;
            unsigned total = 0;
            for ( int i = 0; i != 12; ++i )
                if ( i != 11 || is_set )
                    total += w[ i ];
            unsigned pick = *verif::range< unsigned >( 0, total - 1 );
            int      what = 0;
            for ( int i = 0; i != 12; ++i )
            {
                const unsigned wi = ( i != 11 || is_set ) ? w[ i ] : 0;
                if ( pick < wi )
                {
                    what = i;
                    break;
                }
                pick -= wi;
            }
            Op        o;
            if ( what <= 8 )
            {
                if ( what >= P_UPD )
                    o = *gen_proc( prop, what );
                o.kind = EV;
                o.pdu  = what;
                if ( what == P_WRCMD ) o.len = *verif::range< int >( 0, 20 );
                if ( what == P_WRREQ ) o.len = *rc::gen::element( 4, 4, 4, 1, 20 );
                if ( what == P_CCCD ) o.len = *rc::gen::element( 1, 1, 17, 17, 0, 16 );
                o.lost = *rc::gen::weightedElement< bool >( { { 12, false }, { 1, true } } );
                if ( prop == 23 )
                {
                    o.md    = *rc::gen::weightedElement< bool >( { { 5, false }, { 1, true } } );
                    o.unack = *rc::gen::weightedElement< bool >( { { 5, false }, { 1, true } } );
                    o.err   = *rc::gen::weightedElement< bool >( { { 8, false }, { 1, true } } );
                }
            }
            else if ( what == 9 )
            {
                o.kind = MISS;
                o.n    = prop == 22 ? *rc::gen::weightedOneOf< int >( { { 4, rc::gen::just( 1 ) }, { 3, verif::range< int >( 2, 6 ) }, { 1, verif::range< int >( 7, 40 ) } } )
                                    : *rc::gen::weightedOneOf< int >( { { 5, rc::gen::just( 1 ) }, { 2, verif::range< int >( 2, 4 ) } } );
            }
            else if ( what == 10 )
            {
                o.kind    = NOTIFY;
                o.grant   = *rc::gen::weightedElement< bool >( { { 5, true }, { 1, false } } );
                o.percent = *rc::gen::weightedOneOf< int >( { { 2, rc::gen::just( 0 ) }, { 4, verif::range< int >( 0, 100 ) }, { 1, rc::gen::just( 100 ) } } );
                o.which   = *rc::gen::element( 0, 0, 1 );
            }
            else
            {
                o.kind = CFGSET;
                o.n    = *verif::range< int >( 0, 2 );
            }
            return o;
        } );
    }

    rc::Gen< Case > gen_case()
    {
        const int prop = prop_no();
        return rc::gen::exec( [=]() {
            Case c;
            c.cfg = *verif::range< int >( 0, static_cast< int >( configs().size() ) - 1 );
            c.creq = *gen_creq( prop );
            const bool is_set = configs()[ c.cfg ].features.size() > 1;
            c.ops = *rc::gen::container< std::vector< Op > >( gen_op( prop, is_set ) );
            // subscribe early, otherwise notify() never produces pending data
            if ( prop != 22 && *rc::gen::weightedElement< bool >( { { 4, true }, { 1, false } } ) )
            {
                Op s;
                s.kind = EV, s.pdu = P_CCCD, s.len = 1;
                c.ops.insert( c.ops.begin(), s );
                if ( *rc::gen::arbitrary< bool >() )
                {
                    s.len = 17;  // second characteristic
                    c.ops.insert( c.ops.begin() + 1, s );
                }
            }
            return c;
        } );
    }

    // -------------------------------------------------------------------------------------------- text form
    const char* const pdu_names[] = { "empty", "ping", "wrcmd", "wrreq", "read", "cccd", "upd", "map", "phy" };

    std::string to_text( const Case& c )
    {
        std::ostringstream os;
        os << "cfg " << c.cfg << "  # " << configs()[ c.cfg % configs().size() ].name << "\n";
        const Creq& q = c.creq;
        os << "param creq interval=" << q.interval << " latency=" << q.latency << " timeout=" << q.timeout << " winsize=" << q.winsize << " winoff=" << q.winoff
           << " sca=" << q.sca << " hop=" << q.hop << " map=" << verif::hex( q.map, 5 ) << " frac=" << q.frac << "\n";
        for ( auto& o : c.ops )
        {
            if ( o.kind == EV )
            {
                os << "ev " << pdu_names[ o.pdu ];
                if ( o.pdu == P_WRCMD || o.pdu == P_WRREQ || o.pdu == P_CCCD ) os << " " << o.len;
                if ( o.pdu == P_UPD ) os << " " << o.delta << " " << o.winsize << " " << o.winoff << " " << o.interval << " " << o.latency << " " << o.timeout << " " << o.frac;
                if ( o.pdu == P_MAP ) os << " " << o.delta << " " << verif::hex( o.map, 5 );
                if ( o.pdu == P_PHY ) os << " " << o.delta << " " << o.phy_c2p << " " << o.phy_p2c;
                if ( o.lost ) os << " lost";
                if ( o.md ) os << " md";
                if ( o.unack ) os << " unack";
                if ( o.err ) os << " err";
                os << "\n";
            }
            else if ( o.kind == MISS ) os << "miss " << o.n << "\n";
            else if ( o.kind == NOTIFY ) os << "notify " << ( o.grant ? 1 : 0 ) << " " << o.percent << " " << o.which << "\n";
            else os << "cfgset " << o.n << "\n";
        }
        return os.str();
    }

    Case from_text( const std::string& text )
    {
        Case         c;
        verif::Lines L( text );
        for ( auto& l : L.lines )
        {
            if ( l[ 0 ] == "cfg" )
                c.cfg = static_cast< int >( verif::tok_int( l, 1 ) );
            else if ( l[ 0 ] == "param" )
            {
                for ( std::size_t i = 2; i < l.size(); ++i )
                {
                    const auto        eq = l[ i ].find( '=' );
                    const std::string k = l[ i ].substr( 0, eq ), v = eq == std::string::npos ? "" : l[ i ].substr( eq + 1 );
                    const int         n = static_cast< int >( std::strtol( v.c_str(), nullptr, 0 ) );
                    if ( k == "interval" ) c.creq.interval = n;
                    if ( k == "latency" ) c.creq.latency = n;
                    if ( k == "timeout" ) c.creq.timeout = n;
                    if ( k == "winsize" ) c.creq.winsize = n;
                    if ( k == "winoff" ) c.creq.winoff = n;
                    if ( k == "sca" ) c.creq.sca = n;
                    if ( k == "hop" ) c.creq.hop = n;
                    if ( k == "frac" ) c.creq.frac = n;
                    if ( k == "map" )
                    {
                        auto m = verif::unhex( v );
                        m.resize( 5 );
                        std::copy( m.begin(), m.end(), c.creq.map );
                    }
                }
            }
            else if ( l[ 0 ] == "ev" )
            {
                Op o;
                o.kind = EV;
                const std::string p = verif::tok_str( l, 1, "empty" );
                for ( int i = 0; i != 9; ++i )
                    if ( p == pdu_names[ i ] )
                        o.pdu = i;
                std::size_t at = 2;
                auto num = [&]() { return static_cast< int >( verif::tok_int( l, at++ ) ); };
                if ( o.pdu == P_WRCMD || o.pdu == P_WRREQ || o.pdu == P_CCCD ) o.len = num();
                if ( o.pdu == P_UPD ) o.delta = num(), o.winsize = num(), o.winoff = num(), o.interval = num(), o.latency = num(), o.timeout = num(), o.frac = num();
                if ( o.pdu == P_MAP )
                {
                    o.delta = num();
                    auto m  = verif::unhex( verif::tok_str( l, at++, "ffffffff1f" ) );
                    m.resize( 5 );
                    std::copy( m.begin(), m.end(), o.map );
                }
                if ( o.pdu == P_PHY ) o.delta = num(), o.phy_c2p = num(), o.phy_p2c = num();
                for ( ; at < l.size(); ++at )
                {
                    if ( l[ at ] == "lost" ) o.lost = true;
                    if ( l[ at ] == "md" ) o.md = true;
                    if ( l[ at ] == "unack" ) o.unack = true;
                    if ( l[ at ] == "err" ) o.err = true;
                }
                c.ops.push_back( o );
            }
            else if ( l[ 0 ] == "miss" )
            {
                Op o;
                o.kind = MISS;
                o.n    = std::max( 1, static_cast< int >( verif::tok_int( l, 1, 1 ) ) );
                c.ops.push_back( o );
            }
            else if ( l[ 0 ] == "notify" )
            {
                Op o;
                o.kind    = NOTIFY;
                o.grant   = verif::tok_int( l, 1, 1 ) != 0;
                o.percent = static_cast< int >( verif::tok_int( l, 2, 0 ) );
                o.which   = verif::tok_int( l, 3, 0 ) != 0;
                c.ops.push_back( o );
            }
            else if ( l[ 0 ] == "cfgset" )
            {
                Op o;
                o.kind = CFGSET;
                o.n    = static_cast< int >( verif::tok_int( l, 1, 0 ) );
                c.ops.push_back( o );
            }
        }
        return c;
    }

    // ============================================================================================ reference central
    struct Params
    {
        i64 interval = 0;  // us
        int latency  = 0;
        i64 timeout  = 0;  // us
        int iv = 0, to = 0;  // in protocol units
    };

    struct ChMap
    {
        u8 m[ 5 ];
    };

    // Vol 6 Part B 4.5.8.2: unmappedChannel = ( lastUnmappedChannel + hopIncrement ) mod 37, starting with 0 before the first event
    unsigned csa1( const ChMap& map, unsigned hop, i64 abs_index )
    {
        const unsigned unmapped = static_cast< unsigned >( ( ( abs_index + 1 ) % 37 ) * hop % 37 );
        if ( map.m[ unmapped / 8 ] & ( 1 << ( unmapped % 8 ) ) )
            return unmapped;
        unsigned used[ 37 ], n = 0;
        for ( unsigned c = 0; c != 37; ++c )
            if ( map.m[ c / 8 ] & ( 1 << ( c % 8 ) ) )
                used[ n++ ] = c;
        return used[ unmapped % n ];
    }

    enum proc_kind { PR_NONE, PR_INIT, PR_UPD, PR_MAP, PR_PHY };

    struct Proc
    {
        int    kind    = PR_NONE;
        i64    instant = 0;   // absolute event index
        int    delta   = 0;
        bool   grey    = false;  // instant - counter == 32767: neither future nor past by the letter of the specification
        Params np;
        i64    old_step = 0, off = 0, size = 0, dlt = 0;
        ChMap  nm{};
        u8     nrx = 0, ntx = 0;
        bool   changed_seen = false;
    };

    struct TxPdu
    {
        std::vector< u8 > bytes;  // header (LLID only), length, payload
        int               req;    // 0 none, 1 ping, 2 att request
        int               proc_op;  // index of the op that describes a procedure, finalised when first received; -1 otherwise
    };

    struct Run
    {
        const Case&   c;
        verif::Report& rep;
        const config& cf;
        std::unique_ptr< dev_if > dev;
        radio_rec&    r;
        const int     prop;
        const bool    excl_21b;

        // central state
        unsigned ppm = 0;
        unsigned hop = 0;
        Params   cur;
        ChMap    map{};
        u8       prx = 1, ptx = 1;
        Proc     proc;
        i64      anchor_abs = -1, anchor_T = 0;
        bool     sn = false, nesn = false;
        std::deque< TxPdu > txq;
        bool     have_inflight = false;  // the PDU sent last is not acknowledged yet and has to be sent again
        TxPdu    inflight{ {}, 0, -1 };
        struct Outstanding { int req; i64 since; };
        std::deque< Outstanding > outstanding;
        i64      exchanges = 0;
        int      waiting_proc_op = -1;
        bool     progress_possible = true;

        // peripheral tracking
        i64      prev_abs = -1;          // event handled last (received or missed)
        i64      sched_abs = 0;          // event that is scheduled
        unsigned sched_cnt = 0;
        unsigned seen_evt_count = 0;
        i64      now_low = 0;            // time (relative to the anchor) that has certainly passed
        bool     monitors = true;        // false: crash-only (grey zone connect requests)
        int      cfg_sel = 0;
        std::size_t cb_seen = 0;
        bool     established = false;
        bool     pullback_after_apply = false;
        i64      misses_since_anchor = 0;

        // class flags
        bool f_proc_near = false, f_lat_pending = false, f_lost_pending = false, f_applied = false, f_passed = false, f_grey = false;
        bool f_checked_after_miss = false, f_pullback = false, f_cond_listen = false, f_skipped = false, f_supervision = false;
        bool f_long_elapsed = false, f_wrap_traffic = false, f_upd_applied = false, f_map_applied = false, f_phy_applied = false;
        bool f_clamped = false, f_tw_miss = false;
        int  nonempty_while_pending = 0;
        bool f_proc_busy = false, f_rx_full = false, f_reply_lost = false, f_deadlock = false, f_pending_after = false, f_phy_nochange = false;
        bool f_disarm_granted = false, f_disarm_refused = false;
        std::vector< std::string > delta_labels;

        Run( const Case& cc, verif::Report& rr )
            : c( cc ), rep( rr ), cf( configs()[ static_cast< std::size_t >( cc.cfg ) % configs().size() ] ), dev( cf.make() ), r( dev->rec() ), prop( prop_no() ),
              excl_21b( verif::opt_has( "exclude", "F-21b" ) )
        {
        }

        std::string sig() const { return pullback_after_apply ? "pullback-after-apply=1" : ""; }

        const bool trace = verif::opt_int( "trace", 0 ) != 0;
        template < class... Ts >
        void tr( const Ts&... ts ) const
        {
            if ( trace )
                std::cerr << verif::cat( ts... ) << "\n";
        }

#define LL_CHECK( cond, oracle, ... ) V_CHECK_SIG( cond, oracle, sig(), __VA_ARGS__ )

        // ------------------------------------------------------------------------------------ central's view of event `c`
        bool   proc_timing() const { return proc.kind == PR_INIT || proc.kind == PR_UPD; }
        bool   past_instant( i64 e ) const { return proc.kind != PR_NONE && !proc.grey && e >= proc.instant; }
        Params params_at( i64 e ) const { return proc_timing() && past_instant( e ) ? proc.np : cur; }
        ChMap  map_at( i64 e ) const { return proc.kind == PR_MAP && past_instant( e ) ? proc.nm : map; }
        u8     rx_at( i64 e ) const { return proc.kind == PR_PHY && past_instant( e ) && proc.nrx ? proc.nrx : prx; }
        u8     tx_at( i64 e ) const { return proc.kind == PR_PHY && past_instant( e ) && proc.ntx ? proc.ntx : ptx; }

        // nominal distance of event e from the anchor as the peripheral can know it: [ lo, hi ]
        void nominal( i64 e, i64& lo, i64& hi ) const
        {
            if ( proc_timing() && past_instant( e ) )
            {
                lo = ( proc.instant - 1 - anchor_abs ) * cur.interval + proc.old_step + proc.off + ( e - proc.instant ) * proc.np.interval;
                hi = lo + proc.size;
            }
            else
                lo = hi = ( e - anchor_abs ) * cur.interval;
        }

        i64 actual_distance( i64 e ) const
        {
            i64 lo, hi;
            nominal( e, lo, hi );
            return proc_timing() && past_instant( e ) ? lo + proc.dlt : lo;
        }

        void peripheral_received( i64 e )
        {
            anchor_T += actual_distance( e );
            if ( past_instant( e ) )
            {
                if ( proc_timing() ) cur = proc.np;
                if ( proc.kind == PR_MAP ) map = proc.nm;
                if ( proc.kind == PR_PHY )
                {
                    if ( proc.nrx ) prx = proc.nrx;
                    if ( proc.ntx ) ptx = proc.ntx;
                }
                proc.kind = PR_NONE;
            }
            anchor_abs          = e;
            misses_since_anchor = 0;
            now_low             = 300;
        }

        // ------------------------------------------------------------------------------------ callback log
        struct Seen
        {
            bool requested = false, established = false, attempt_timeout = false, closed = false;
            int  reason = -1;
            int  changed = 0;
            cb_entry last_changed;
        };
        Seen drain_callbacks()
        {
            Seen s;
            for ( ; cb_seen < cblog.size(); ++cb_seen )
            {
                const cb_entry& e = cblog[ cb_seen ];
                if ( e.what == "requested" ) s.requested = true;
                if ( e.what == "established" ) s.established = established = true;
                if ( e.what == "attempt_timeout" ) s.attempt_timeout = true;
                if ( e.what == "closed" ) s.closed = true, s.reason = e.a;
                if ( e.what == "changed" ) ++s.changed, s.last_changed = e;
            }
            return s;
        }

        // ------------------------------------------------------------------------------------ monitors run after every scheduling
        enum how { AFTER_CONNECT, AFTER_EVENT, AFTER_MISS, AFTER_PULLBACK };

        void check_scheduled( how h, const Seen& seen, bool cond_listen = false, const char* cond_name = "", std::uint32_t reported = 0 )
        {
            const unsigned cnt   = dev->counter() & 0xffff;
            const i64      old_s = sched_abs;
            if ( h == AFTER_CONNECT )
            {
                LL_CHECK( cnt == 0, "counter.first-event", "the first connection event has the counter ", cnt );
                sched_abs = 0;
            }
            else
                sched_abs = old_s + static_cast< std::int16_t >( static_cast< std::uint16_t >( cnt - sched_cnt ) );
            sched_cnt      = cnt;
            seen_evt_count = r.evt_count;
            if ( !monitors )
                return;

            const i64 n = sched_abs - prev_abs;
            const int lat = prev_abs < 0 ? 0 : params_at( prev_abs ).latency;
            if ( h == AFTER_PULLBACK )
            {
                LL_CHECK( sched_abs <= old_s, "pullback.moved-away", "a pulled back event moved from event ", old_s, " to the later event ", sched_abs );
                LL_CHECK( n >= 1, "pullback.before-last-event", "after the pull back the event ", sched_abs, " is scheduled, but event ", prev_abs, " was already handled" );
                i64 lo, hi;
                nominal( sched_abs, lo, hi );
                LL_CHECK( lo >= i64( reported ), "pullback.in-the-past", "event ", sched_abs, " nominally starts ", lo, " us after the anchor, but the radio reported that ", reported, " us have passed already" );
                f_pullback = f_pullback || sched_abs < old_s;
            }
            else
            {
                LL_CHECK( n >= 1, "counter.backwards", "scheduled event ", sched_abs, " is not after the last handled event ", prev_abs );
                LL_CHECK( n <= lat + 1, "latency.bound", "event ", prev_abs, " was followed by event ", sched_abs, ": ", n - 1, " events are skipped with a peripheral latency of ", lat );
                if ( n > 1 ) f_skipped = true;
            }
            if ( proc.kind != PR_NONE && !proc.grey && prev_abs < proc.instant )
            {
                LL_CHECK( sched_abs <= proc.instant, "instant.skipped", "a procedure is pending for the instant ", proc.instant, " but after event ", prev_abs, " event ", sched_abs, " is scheduled" );
                if ( sched_abs == proc.instant && lat > 0 && n < lat + 1 && h == AFTER_EVENT && !cond_listen ) f_clamped = true;
            }
            if ( prop == 23 && h == AFTER_EVENT && cond_listen )
            {
                LL_CHECK( n == 1, "latency.listen-condition", "the condition `", cond_name, "` of the latency configuration held in event ", prev_abs, " but the next ", n - 1, " events are skipped" );
                if ( lat > 0 ) f_cond_listen = true;
            }

            // channel
            const unsigned expected_channel = csa1( map_at( sched_abs ), hop, sched_abs );
            LL_CHECK( r.evt_channel == expected_channel, "channel", "event ", sched_abs, " (counter ", cnt, ") is scheduled on channel ", r.evt_channel, ", the central uses ", expected_channel );

            // PHY
            LL_CHECK( r.phy_rx == rx_at( sched_abs ) && r.phy_tx == tx_at( sched_abs ), "phy", "event ", sched_abs, " is scheduled with PHY rx/tx ", int( r.phy_rx ), "/", int( r.phy_tx ), ", the central uses ",
                int( rx_at( sched_abs ) ), "/", int( tx_at( sched_abs ) ) );

            // receive window
            i64 lo, hi;
            nominal( sched_abs, lo, hi );
            const i64 wlo = lo * ppm / 1000000, whi = hi * ppm / 1000000;
            LL_CHECK( i64( r.evt_start ) <= lo - wlo + 1, "window.start", "event ", sched_abs, ": the receive window starts ", r.evt_start, " us after the anchor; the central may transmit at ", lo, " us - ", wlo,
                " us (", ppm, " ppm) [window ", r.evt_start, "..", r.evt_end, "]" );
            LL_CHECK( i64( r.evt_end ) + 1 >= hi + whi, "window.end", "event ", sched_abs, ": the receive window ends ", r.evt_end, " us after the anchor; the central may transmit until ", hi, " us + ", whi, " us (",
                ppm, " ppm) [window ", r.evt_start, "..", r.evt_end, "]" );
            if ( misses_since_anchor > 0 ) f_checked_after_miss = true;
            if ( hi >= 1000000 ) f_long_elapsed = true;
            if ( proc_timing() && past_instant( sched_abs ) && misses_since_anchor > 0 && sched_abs > proc.instant ) f_tw_miss = true;

            // connection update: reported to the application when (and only when) it is applied
            if ( proc.kind == PR_UPD && !proc.grey )
            {
                if ( seen.changed && !proc.changed_seen )
                {
                    LL_CHECK( sched_abs >= proc.instant, "update.early", "ll_connection_changed() is reported while event ", sched_abs, " is scheduled; the instant is ", proc.instant );
                    LL_CHECK( seen.last_changed.a == proc.np.iv && seen.last_changed.b == proc.np.latency && seen.last_changed.c == proc.np.to, "update.parameters", "ll_connection_changed( interval ",
                        seen.last_changed.a, ", latency ", seen.last_changed.b, ", timeout ", seen.last_changed.c, " ) but the indication carried ", proc.np.iv, ", ", proc.np.latency, ", ", proc.np.to );
                    proc.changed_seen = true;
                }
                if ( sched_abs >= proc.instant )
                    LL_CHECK( proc.changed_seen, "update.not-reported", "event ", sched_abs, " is at or after the instant ", proc.instant, " but ll_connection_changed() was not called" );
            }
            else
                LL_CHECK( seen.changed == 0, "update.unexpected", "ll_connection_changed() without a connection update being applied" );

            if ( proc.kind != PR_NONE && proc.kind != PR_INIT && !proc.grey && sched_abs == proc.instant )
            {
                f_applied = true;
                if ( proc.kind == PR_UPD ) f_upd_applied = true;
                if ( proc.kind == PR_MAP ) f_map_applied = true;
                if ( proc.kind == PR_PHY ) f_phy_applied = true;
            }
            if ( proc.kind != PR_NONE && proc.kind != PR_INIT && prev_abs < proc.instant && params_at( prev_abs ).latency > 0 ) f_lat_pending = true;
        }

        // the link ended: is that justified?
        void check_closed( how h, const Seen& seen, i64 missed_abs, i64 window_end, bool instant_passed_ok )
        {
            if ( !monitors )
                return;
            if ( h == AFTER_MISS && ( seen.attempt_timeout || ( seen.closed && seen.reason == 0x08 ) ) )
            {
                if ( anchor_abs < 0 )
                    // (bluetoe also applies the supervision timeout of the connect request before the first packet; the statement allows that)
                    LL_CHECK( missed_abs >= 5 || window_end >= params_at( missed_abs ).timeout, "supervision.early", "the connection attempt is given up after ", missed_abs + 1, " missed windows, ", window_end,
                        " us after the connect request (6 windows or the supervision timeout of ", params_at( missed_abs ).timeout, " us are required)" );
                else
                {
                    i64 to = params_at( missed_abs ).timeout;
                    if ( proc.kind == PR_UPD && past_instant( missed_abs ) ) to = std::min( to, cur.timeout );
                    LL_CHECK( window_end >= to, "supervision.early", "supervision timeout reported after event ", missed_abs, " was missed, ", window_end, " us after the last valid packet; the timeout is ", to, " us" );
                }
                f_supervision = true;
                return;
            }
            if ( seen.closed && seen.reason == 0x28 && instant_passed_ok )
                return;
            LL_CHECK( false, "link.unexpected-close", "the link ended (", seen.closed ? verif::cat( "closed, reason ", seen.reason ) : seen.attempt_timeout ? std::string( "attempt timeout" ) : std::string( "no callback" ),
                ") without a reason the central knows of; last handled event ", prev_abs );
        }

        // ------------------------------------------------------------------------------------ connect
        bool connect()
        {
            dev->start();
            V_CHECK( r.adv_pending, "harness.advertising", "the link layer does not advertise after run()" );
            const Creq& q = c.creq;
            std::string why;
            const validity v = classify( q, why );
            rep.label( verif::cat( "creq=", v == VALID ? "valid" : v == GREY ? "grey:" + why : "invalid:" + why ) );

            u8 pdu[ 36 ] = { 0xc5, 0x22, 0x3c, 0x1c, 0x62, 0x92, 0xf0, 0x48, 0x47, 0x11, 0x08, 0x15, 0x0f, 0xc0, 0x5a, 0xb3, 0x9a, 0xaf, 0x08, 0x81, 0xf6 };
            pdu[ 21 ] = static_cast< u8 >( q.winsize );
            pdu[ 22 ] = q.winoff & 0xff, pdu[ 23 ] = q.winoff >> 8;
            pdu[ 24 ] = q.interval & 0xff, pdu[ 25 ] = q.interval >> 8;
            pdu[ 26 ] = q.latency & 0xff, pdu[ 27 ] = q.latency >> 8;
            pdu[ 28 ] = q.timeout & 0xff, pdu[ 29 ] = q.timeout >> 8;
            std::copy( q.map, q.map + 5, &pdu[ 30 ] );
            pdu[ 35 ] = static_cast< u8 >( ( q.hop & 0x1f ) | ( ( q.sca & 7 ) << 5 ) );

            ll::read_buffer rx = r.adv_rx;
            V_CHECK( rx.size >= sizeof pdu, "harness.advertising", "receive buffer for the advertising response too small: ", rx.size );
            std::copy( std::begin( pdu ), std::end( pdu ), rx.buffer );
            rx.size = sizeof pdu;
            dev->adv_received( rx );
            const Seen seen = drain_callbacks();

            if ( v == INVALID )
            {
                // the central transmits in the window the peripheral scheduled (if any): the connection must not get established
                if ( r.evt_pending )
                {
                    ll::read_buffer b = dev->alloc_rx();
                    if ( b.size )
                    {
                        b.buffer[ 0 ] = 0x01, b.buffer[ 1 ] = 0;
                        dev->received( b );
                        dev->end_event( ll::connection_event_events() );
                        const Seen s2 = drain_callbacks();
                        V_CHECK_SIG( !s2.established, "connect.invalid-established", verif::cat( "field=", why ), "a connection was established from a connect request with an invalid ", why, " (interval ", q.interval,
                            ", latency ", q.latency, ", timeout ", q.timeout, ", winsize ", q.winsize, ", winoffset ", q.winoff, ", hop ", q.hop, ", channels ", popcount37( q.map ), ")" );
                    }
                }
                rep.nontrivial = prop == 22;
                return false;
            }
            if ( v == GREY )
            {
                monitors = false;
                rep.nontrivial = prop == 22;
                return r.evt_pending;
            }
            V_CHECK( seen.requested && r.evt_pending, "connect.valid-rejected", "a connect request with valid parameters was ignored (interval ", q.interval, ", latency ", q.latency, ", timeout ", q.timeout,
                ", winsize ", q.winsize, ", winoffset ", q.winoff, ", hop ", q.hop, ", channels ", popcount37( q.map ), ")" );

            static const unsigned sca_ppm[ 8 ] = { 500, 250, 150, 100, 75, 50, 30, 20 };  // upper bounds of the classes of Vol 6 Part B 2.3.3.1
            ppm = sca_ppm[ q.sca & 7 ] + cf.sca_ppm;
            hop = static_cast< unsigned >( q.hop );
            std::copy( q.map, q.map + 5, map.m );
            proc          = Proc();
            proc.kind     = PR_INIT;
            proc.instant  = 0;
            proc.np       = Params{ q.interval * 1250ll, q.latency, q.timeout * 10000ll, q.interval, q.timeout };
            proc.old_step = 1250;
            proc.off      = q.winoff * 1250ll;
            proc.size     = q.winsize * 1250ll;
            proc.dlt      = proc.size * std::min( 100, std::max( 0, q.frac ) ) / 100;
            cur           = proc.np;  // not used before the first anchor, but defined
            anchor_abs    = -1;
            anchor_T      = 0;
            prev_abs      = -1;
            check_scheduled( AFTER_CONNECT, seen );
            return true;
        }

        // ------------------------------------------------------------------------------------ operations
        std::vector< u8 > att( std::initializer_list< u8 > head, int extra )
        {
            std::vector< u8 > a( head );
            for ( int i = 0; i < extra; ++i )
                a.push_back( static_cast< u8 >( 0xd0 + i ) );
            std::vector< u8 > p = { 0x02, static_cast< u8 >( a.size() + 4 ), static_cast< u8 >( a.size() ), 0x00, 0x04, 0x00 };
            p.insert( p.end(), a.begin(), a.end() );
            return p;
        }

        bool can_start_procedure() const { return proc.kind == PR_NONE && txq.empty() && !have_inflight && outstanding.empty() && !dev->pending_tx() && established; }

        void enqueue( const Op& o, int op_index )
        {
            switch ( o.pdu )
            {
            case P_EMPTY: break;
            case P_PING: txq.push_back( { { 0x03, 0x01, 0x12 }, 1, -1 } ); break;
            case P_WRCMD: txq.push_back( { att( { 0x52, 0x03, 0x00 }, std::min( 20, std::max( 0, o.len ) ) ), 0, -1 } ); break;
            case P_WRREQ:
            case P_READ:
            case P_CCCD:
            {
                // ATT is sequential: only one request at a time
                bool busy = false;
                for ( auto& x : outstanding ) busy = busy || x.req == 2;
                for ( auto& x : txq ) busy = busy || x.req == 2;
                busy = busy || ( have_inflight && inflight.req == 2 );
                if ( busy )
                    break;
                if ( o.pdu == P_WRREQ ) txq.push_back( { att( { 0x12, 0x03, 0x00 }, std::min( 20, std::max( 0, o.len ) ) ), 2, -1 } );
                if ( o.pdu == P_READ ) txq.push_back( { att( { 0x0a, 0x03, 0x00 }, 0 ), 2, -1 } );
                if ( o.pdu == P_CCCD ) txq.push_back( { att( { 0x12, static_cast< u8 >( ( o.len & 16 ) ? 0x07 : 0x04 ), 0x00, static_cast< u8 >( o.len & 3 ), 0x00 }, 0 ), 2, -1 } );
                break;
            }
            case P_UPD:
            case P_MAP:
            case P_PHY:
                // a central starts a procedure with an instant only when no other procedure is running; here also only when
                // nothing else is in flight, so that the peripheral certainly handles the PDU in the event that carries it
                if ( can_start_procedure() )
                    txq.push_back( { {}, 0, op_index } );
                else if ( waiting_proc_op < 0 )
                    waiting_proc_op = op_index;  // started as soon as the central is idle
                else
                    f_proc_busy = true;
                break;
            }
        }

        // builds the PDU of a procedure when the peripheral is about to receive it for the first time
        bool finalise_procedure( TxPdu& t )
        {
            const Op& o = c.ops[ static_cast< std::size_t >( t.proc_op ) ];
            const int delta = static_cast< std::int16_t >( o.delta );
            const std::uint16_t inst16 = static_cast< std::uint16_t >( sched_cnt + delta );
            proc         = Proc();
            proc.delta   = delta;
            proc.grey    = delta == 32767;
            proc.instant = sched_abs + delta;
            if ( o.pdu == P_UPD )
            {
                proc.kind     = PR_UPD;
                proc.np       = Params{ o.interval * 1250ll, o.latency, o.timeout * 10000ll, o.interval, o.timeout };
                proc.old_step = cur.interval;
                proc.off      = o.winoff * 1250ll;
                proc.size     = o.winsize * 1250ll;
                proc.dlt      = proc.size * std::min( 100, std::max( 0, o.frac ) ) / 100;
                t.bytes       = { 0x03, 12, 0x00, u8( o.winsize ), u8( o.winoff ), u8( o.winoff >> 8 ), u8( o.interval ), u8( o.interval >> 8 ), u8( o.latency ), u8( o.latency >> 8 ), u8( o.timeout ),
                    u8( o.timeout >> 8 ), u8( inst16 ), u8( inst16 >> 8 ) };
            }
            else if ( o.pdu == P_MAP )
            {
                proc.kind = PR_MAP;
                std::copy( o.map, o.map + 5, proc.nm.m );
                t.bytes = { 0x03, 8, 0x01, o.map[ 0 ], o.map[ 1 ], o.map[ 2 ], o.map[ 3 ], o.map[ 4 ], u8( inst16 ), u8( inst16 >> 8 ) };
            }
            else
            {
                proc.kind = PR_PHY;
                proc.nrx  = static_cast< u8 >( o.phy_c2p );
                proc.ntx  = static_cast< u8 >( o.phy_p2c );
                t.bytes   = { 0x03, 5, 0x18, proc.nrx, proc.ntx, u8( inst16 ), u8( inst16 >> 8 ) };
            }
            t.proc_op = -1;
            if ( proc.kind == PR_PHY && proc.nrx == 0 && proc.ntx == 0 )
            {
                // no PHY changes: the instant has no meaning (Vol 6 Part B 5.1.10), nothing is pending
                proc.kind = PR_NONE;
                f_phy_nochange = true;
                return false;
            }
            if ( delta >= -2 && delta <= 2 ) f_proc_near = true;
            if ( proc.grey ) f_grey = true;
            const std::string dl = verif::cat( "instant-delta=", delta <= -2 ? "past" : delta == 32767 ? "32767" : delta > 2 ? ">2" : std::to_string( delta ) );
            if ( std::find( delta_labels.begin(), delta_labels.end(), dl ) == delta_labels.end() )
                delta_labels.push_back( dl );
            return true;
        }

        void handle_reply( const ll::write_buffer& t )
        {
            const u8 h = t.buffer[ 0 ], len = t.buffer[ 1 ];
            // acknowledgement of the central's PDU
            if ( bool( h & 4 ) != sn )
            {
                sn = !sn;
                if ( have_inflight && inflight.req )
                    outstanding.push_back( { inflight.req, -1 } );
                have_inflight = false;
            }
            // new data from the peripheral
            if ( bool( h & 8 ) == nesn )
            {
                nesn = !nesn;
                int answers = 0;
                if ( ( h & 3 ) == 3 && len >= 1 && t.buffer[ 2 ] == 0x13 ) answers = 1;
                if ( ( h & 3 ) == 2 && len >= 5 && t.buffer[ 4 ] == 0x04 && t.buffer[ 5 ] == 0x00 )
                {
                    const u8 op = t.buffer[ 6 ];
                    if ( op == 0x13 || op == 0x0b || op == 0x01 || op == 0x03 ) answers = 2;
                }
                if ( answers )
                    for ( auto i = outstanding.begin(); i != outstanding.end(); ++i )
                        if ( i->req == answers )
                        {
                            outstanding.erase( i );
                            break;
                        }
            }
            if ( progress_possible )
                ++exchanges;
        }

        // a pending procedure must not stop the peripheral from answering for longer than until its instant
        void check_not_blocked()
        {
            static const i64 bound = 8;
            const bool blocked = proc.kind != PR_NONE && proc.kind != PR_INIT;  // the anchor has not reached the instant yet
            if ( blocked || outstanding.empty() || prop != 21 )
                return;
            Outstanding& o = outstanding.front();
            if ( o.since < 0 )
                o.since = exchanges;
            LL_CHECK( exchanges - o.since <= bound, "instant.data-blocked", "a ", o.req == 1 ? "LL_PING_REQ" : "ATT request", " that the peripheral acknowledged is not answered after ", exchanges - o.since,
                " further connection events with a successful exchange, although no procedure is pending" );
        }

        bool op_event( const Op& o, int op_index )
        {
            if ( waiting_proc_op >= 0 && can_start_procedure() )
            {
                txq.push_back( { {}, 0, waiting_proc_op } );
                waiting_proc_op = -1;
            }
            enqueue( o, op_index );
            const i64       e     = sched_abs;
            const bool      first = !established;
            ll::read_buffer b     = dev->alloc_rx();

            // the radio hears the central: the anchor moves
            peripheral_received( e );

            // the central sends the unacknowledged PDU again, otherwise the next one of its queue or an empty PDU
            bool proc_received_now = false;
            if ( !have_inflight && b.size != 0 )
            {
                if ( txq.empty() )
                    inflight = TxPdu{ { 0x01, 0x00 }, 0, -1 };
                else
                {
                    inflight = txq.front();
                    txq.pop_front();
                }
                have_inflight = true;
                if ( inflight.proc_op >= 0 )
                {
                    proc_received_now = finalise_procedure( inflight );
                }
            }
            if ( !have_inflight && !txq.empty() && txq.front().proc_op >= 0 )
            {
                txq.pop_front();  // receive buffer full: the central gives the procedure up before it was sent
                f_proc_busy = true;
            }
            std::vector< u8 > pdu = have_inflight ? inflight.bytes : std::vector< u8 >{ 0x01, 0x00 };

            const bool md = o.md || !txq.empty();
            pdu[ 0 ] = static_cast< u8 >( ( pdu[ 0 ] & 3 ) | ( sn ? 8 : 0 ) | ( nesn ? 4 : 0 ) | ( md ? 0x10 : 0 ) );

            if ( proc.kind != PR_NONE && proc.kind != PR_INIT && !proc_received_now && pdu[ 1 ] != 0 && b.size != 0 )
            {
                ++nonempty_while_pending;
                if ( nonempty_while_pending >= 2 ) f_wrap_traffic = true;
            }

            ll::write_buffer t{ nullptr, 0 };
            if ( b.size )
            {
                std::copy( pdu.begin(), pdu.end(), b.buffer );
                t = dev->received( b );
            }
            else
            {
                t = dev->next_transmit();
                f_rx_full = true;
            }
            const bool tx_not_empty = t.buffer[ 1 ] != 0;
            // (receive buffer full and the peripheral repeats a PDU: both rings are full, acknowledgements are not seen any more --
            //  a flow control matter of C15-C17, no progress can be expected here)
            progress_possible = b.size != 0 || ( !tx_not_empty && !dev->pending_tx() );
            if ( !progress_possible )
                f_deadlock = true;
            tr( "event ", e, " cnt ", sched_cnt, " ch ", r.evt_channel, " win ", r.evt_start, "..", r.evt_end, b.size ? "" : " RXFULL", " C->P ", verif::hex( pdu.data(), pdu.size() ), "  P->C ",
                verif::hex( t.buffer, std::size_t( t.buffer[ 1 ] ) + 2 ), o.lost ? " (reply lost)" : "" );
            if ( !o.lost )
                handle_reply( t );
            else
                f_reply_lost = true;

            ll::connection_event_events ev;
            ev.unacknowledged_data         = o.unack;
            ev.last_received_not_empty     = pdu[ 1 ] != 0;
            ev.last_transmitted_not_empty  = tx_not_empty;
            ev.last_received_had_more_data = md;
            ev.pending_outgoing_data       = false;
            ev.error_occured               = o.err;

            // which configured listen condition held?  (pending transmit data: whatever is in the transmit buffer now -- the PDU
            // sent in this event is not acknowledged yet -- is still there when the next event is planned)
            const unsigned feat = cf.features[ static_cast< std::size_t >( cfg_sel ) % cf.features.size() ];
            const char*    cond = nullptr;
            if ( ev.error_occured ) cond = "error occured";
            else if ( feat & F_ALWAYS ) cond = "listen_always";
            else if ( ( feat & F_UNACK ) && ev.unacknowledged_data ) cond = "listen_if_unacknowledged_data";
            else if ( ( feat & F_RX ) && ev.last_received_not_empty ) cond = "listen_if_last_received_not_empty";
            else if ( ( feat & F_TX ) && ev.last_transmitted_not_empty ) cond = "listen_if_last_transmitted_not_empty";
            else if ( ( feat & F_MD ) && ev.last_received_had_more_data ) cond = "listen_if_last_received_had_more_data";
            else if ( ( feat & F_PENDING ) && dev->pending_tx() ) cond = "listen_if_pending_transmit_data";

            prev_abs = e;
            dev->end_event( ev );
            const Seen seen = drain_callbacks();
            tr( "   after end_event: tx pending ", dev->pending_tx(), ", oldest unhandled received PDU ", dev->rx_head(), " bytes; room for a 29 byte PDU to transmit: ", dev->tx_room() );

            if ( first && monitors )
                V_CHECK( established, "connect.not-established", "the first connection event took place, but ll_connection_established() was not called" );

            const int delta = proc.delta;
            if ( r.evt_pending && r.evt_count != seen_evt_count )
            {
                if ( proc_received_now && !proc.grey && delta < 1 )
                {
                    if ( monitors && prop == 21 )
                        LL_CHECK( false, "instant.passed-not-detected", "the peripheral received a procedure in event ", e, " with the instant ", proc.instant, " (", delta,
                            " events away): it can not be applied at its instant any more, but the link was not ended with reason 0x28" );
                    proc.kind = PR_NONE;
                }
                check_scheduled( AFTER_EVENT, seen, cond != nullptr, cond ? cond : "" );
                if ( ( feat & F_PENDING ) && dev->pending_tx() && sched_abs - prev_abs > 1 )
                {
                    // data (a notification, a control PDU of the link layer) was handed to the transmit buffer at the end of end_event(),
                    // after the next event was planned
                    f_pending_after = true;
                    if ( verif::opt_int( "strict_pending", prop == 23 ? 1 : 0 ) )
                        LL_CHECK( false, "latency.pending-after-planning", "after event ", prev_abs, " there is data to transmit and listen_if_pending_transmit_data is configured, but ", sched_abs - prev_abs - 1,
                            " events are skipped (event ", sched_abs, " is scheduled)" );
                }
                check_not_blocked();
                return true;
            }
            if ( r.adv_pending )
            {
                const bool ip_ok = proc_received_now && ( delta <= 1 || proc.grey );
                if ( proc_received_now && ( delta < 1 || proc.grey ) ) f_passed = true;
                if ( proc_received_now && monitors && prop == 21 && seen.closed && seen.reason == 0x28 )
                    LL_CHECK( ip_ok, "instant.passed-wrongly", "the link is ended with `instant passed`, but the instant ", proc.instant, " is ", delta, " events in the future of event ", e );
                check_closed( AFTER_EVENT, seen, e, 0, ip_ok );
                return false;
            }
            LL_CHECK( false, "link.dead", "after end_event() neither a connection event nor advertising is scheduled" );
            return false;
        }

        // a distance from the anchor at which the supervision timeout is certainly over when event e was missed (a connection
        // update in between may restart the supervision timer at its instant, whose exact time the peripheral does not know)
        i64 latest_timeout( i64 e ) const
        {
            i64 to = params_at( e ).timeout;
            if ( proc.kind == PR_UPD && past_instant( e ) )
            {
                i64 lo, hi;
                nominal( proc.instant, lo, hi );
                to = std::max( to, cur.timeout ) + hi;
            }
            return to;
        }

        bool op_miss()
        {
            const i64 e = sched_abs;
            i64 lo, hi;
            nominal( e, lo, hi );
            const std::uint32_t window_end = r.evt_end;
            const bool late = monitors && ( anchor_abs < 0 ? e >= 5 : lo >= latest_timeout( e ) );
            prev_abs = e;
            ++misses_since_anchor;
            now_low = window_end;
            if ( proc.kind != PR_NONE && proc.kind != PR_INIT ) f_lost_pending = true;
            tr( "event ", e, " cnt ", sched_cnt, " ch ", r.evt_channel, " win ", r.evt_start, "..", r.evt_end, " missed" );
            dev->timeout();
            const Seen seen = drain_callbacks();
            if ( r.evt_pending && r.evt_count != seen_evt_count )
            {
                if ( prop == 22 )
                    LL_CHECK( !late, "supervision.not-dropped", "event ", e, ", nominally ", lo, " us after the last valid packet, was missed and the link is kept (supervision timeout ", params_at( e ).timeout,
                        " us; 6 windows while connecting)" );
                check_scheduled( AFTER_MISS, seen );
                return true;
            }
            if ( r.adv_pending )
            {
                check_closed( AFTER_MISS, seen, e, window_end, false );
                return false;
            }
            LL_CHECK( false, "link.dead", "after timeout() neither a connection event nor advertising is scheduled" );
            return false;
        }

        void op_notify( const Op& o )
        {
            // F-21b: the scheduled event is the instant of a procedure that was applied while it was planned
            const bool shape_21b = proc.kind != PR_NONE && proc.kind != PR_INIT && !proc.grey && prev_abs < proc.instant && sched_abs >= proc.instant;
            bool       grant     = o.grant;
            if ( grant && shape_21b && excl_21b )
            {
                grant        = false;
                rep.excluded = true;
            }
            const i64 limit = i64( r.evt_start ) - 100;
            i64       elapsed = 0;
            if ( grant )
            {
                if ( limit <= now_low )
                    grant = false;
                else
                    elapsed = now_low + ( limit - now_low ) * std::min( 100, std::max( 0, o.percent ) ) / 100;
            }
            r.disarm_grant = grant;
            r.disarm_time  = static_cast< std::uint32_t >( elapsed + 100 );
            r.cancel_req   = false;
            const unsigned calls = r.disarm_calls;
            dev->notify( o.which );
            if ( !r.cancel_req )
                return;
            r.cancel_req = false;
            dev->try_event_cancelation();
            const Seen seen = drain_callbacks();
            if ( r.disarm_calls == calls )
            {
                LL_CHECK( r.evt_pending && r.evt_count == seen_evt_count, "pullback.spurious-schedule", "a connection event was scheduled without disarming the pending one" );
                return;
            }
            ( grant ? f_disarm_granted : f_disarm_refused ) = true;
            tr( "notify: disarm ", grant ? "granted" : "refused", " at ", r.disarm_time, " us; now event ", sched_abs + static_cast< std::int16_t >( static_cast< std::uint16_t >( ( dev->counter() & 0xffff ) - sched_cnt ) ),
                " win ", r.evt_start, "..", r.evt_end );
            if ( !grant )
            {
                LL_CHECK( r.evt_pending && r.evt_count == seen_evt_count && ( dev->counter() & 0xffff ) == sched_cnt, "pullback.refused-but-moved", "disarm_connection_event() was refused but the planned event changed" );
                return;
            }
            LL_CHECK( r.evt_pending && r.evt_count != seen_evt_count, "pullback.no-reschedule", "the connection event was disarmed but no new event was scheduled" );
            now_low = elapsed;
            if ( shape_21b )
                pullback_after_apply = true;
            if ( proc.kind != PR_NONE && proc.kind != PR_INIT ) f_lost_pending = true;
            check_scheduled( AFTER_PULLBACK, seen, false, "", r.disarm_time );
        }

        void run()
        {
            if ( !connect() )
                return;
            bool alive = true;
            for ( std::size_t i = 0; alive && i != c.ops.size(); ++i )
            {
                const Op& o = c.ops[ i ];
                switch ( o.kind )
                {
                case EV: alive = op_event( o, static_cast< int >( i ) ); break;
                case MISS:
                    for ( int k = 0; alive && k < o.n; ++k )
                        alive = op_miss();
                    break;
                case NOTIFY: op_notify( o ); break;
                case CFGSET:
                    if ( cf.features.size() > 1 )
                    {
                        cfg_sel = std::abs( o.n ) % 3;
                        dev->cfgset( cfg_sel );
                    }
                    break;
                }
            }
            finish();
        }

        void finish()
        {
            rep.label( verif::cat( "cfg=", cf.name ) );
            rep.label_if( f_applied, "procedure-applied-at-instant" );
            rep.label_if( f_upd_applied, "applied:connection-update" );
            rep.label_if( f_map_applied, "applied:channel-map" );
            rep.label_if( f_phy_applied, "applied:phy" );
            rep.label_if( f_passed, "instant-passed-link-ended" );
            rep.label_if( f_lat_pending, "latency>0-while-pending" );
            rep.label_if( f_lost_pending, "event-lost-or-rescheduled-while-pending" );
            rep.label_if( f_wrap_traffic, "non-empty-traffic-while-pending>=2" );
            rep.label_if( f_clamped, "latency-clamped-to-instant" );
            rep.label_if( f_checked_after_miss, "window-checked-after-missed-events" );
            rep.label_if( f_long_elapsed, "window-checked-after>=1s" );
            rep.label_if( f_tw_miss, "transmit-window-repeated-after-miss" );
            rep.label_if( f_supervision, "supervision-timeout-reached" );
            rep.label_if( f_pullback, "event-pulled-back" );
            rep.label_if( f_cond_listen, "listen-condition-with-latency>0" );
            rep.label_if( f_skipped, "events-skipped" );
            rep.label_if( pullback_after_apply, "pullback-after-apply(F-21b shape)" );
            rep.label_if( !monitors, "crash-only(grey connect request)" );
            rep.label_if( f_proc_busy, "procedure-not-started(central busy)" );
            rep.label_if( f_rx_full, "rx-buffer-full" );
            rep.label_if( f_reply_lost, "reply-lost" );
            rep.label_if( f_deadlock, "rx-full-and-tx-pending(no acknowledgements seen)" );
            rep.label_if( f_pending_after, "data-became-pending-after-planning,event-skipped" );
            rep.label_if( f_phy_nochange, "phy-update-without-change" );
            rep.label_if( f_disarm_granted, "disarm-granted" );
            rep.label_if( f_disarm_refused, "disarm-refused" );
            for ( auto& l : delta_labels )
                rep.label( l );
            if ( prop == 21 )
                rep.nontrivial = f_proc_near || f_lat_pending || f_lost_pending;
            else if ( prop == 22 )
                rep.nontrivial = rep.nontrivial || f_checked_after_miss || f_supervision;
            else
                rep.nontrivial = f_skipped && ( f_pullback || f_cond_listen );
        }
    };

    void run( const Case& c, verif::Report& rep )
    {
        cblog.clear();
        value1 = value2 = 0;
        Run r( c, rep );
        r.run();
    }
}

int main( int argc, char** argv )
{
    using namespace c21_lltiming;
    verif::Harness< Case > h;
    h.gen       = gen_case;
    h.to_text   = to_text;
    h.from_text = from_text;
    h.run       = run;
    return verif::run_main( argc, argv, h );
}
