import hashlib as _hl
# the shared device header is not hashed by ./check; make it part of the flags (and with that of the cache key)
_c24_dev_hash = _hl.sha256(open(_os.path.join(_os.path.dirname(_f), 'c24_dev.hpp'), 'rb').read()).hexdigest()[:16]

target('c24_adv', 'engines/ll/c24_adv.cpp', extra_src=LL_SRC, cxxflags=['-gline-tables-only', '-DC24_DEV_HASH=0x' + _c24_dev_hash],
       quick=dict(cases=240000, size=120), thorough=dict(cases=1000000, size=160))
prop('C24', ['c24_adv'], 'll',
     rule='rapidcheck generates one of 5 link layer configurations (variable/fixed channel map, variable/fixed interval, automatic/manual '
          'start, one, two or four advertising types, two PDU layouts) and a history of up to ~150 steps: start_advertising(), '
          'start_advertising(count 1..10), stop_advertising(), channel map edits (applied only while no advertisement is scheduled, never '
          'leaving the map empty), interval changes 20..10240 ms (some out of range), change_advertising, directed target, interleaved with '
          'radio reports: advertisement timed out (1..7 in a row), unrelated PDU received, valid connect request, connection events, loss '
          'of the connection. A case is non-trivial if an advertisement was sent while exactly two channels were enabled, or if the channel '
          'map changed between two advertising periods that both sent advertisements; distinct = distinct serialised cases',
     technique='model-based property testing (rapidcheck) of link_layer<> under a harness-owned scheduled radio against a reference advertiser',
     level_text='every schedule_advertisment() call is compared with a reference advertiser written from Core Vol 6 Part B 4.4.2 and the '
                'documentation comments: channel enabled, ascending order, first event of a period starts on the lowest enabled channel, '
                'events interval+0..10 ms apart (sum of the delays of one event), PDUs of one event at most 10 ms apart, exactly count '
                'advertisements after start_advertising(count) (the suite pins count = PDUs), nothing after stop_advertising() beyond the '
                'current event, no advertisement without start / while connected, never two schedulings for one radio slot. Sampling, not proof.',
     level_note='trusted: the reference advertiser in engines/ll/c24_adv.cpp and the harness radio in engines/ll/c24_dev.hpp; the time of the '
                'first advertisement of a period is not constrained; out of range interval requests make any legal interval acceptable',
     assumptions=COMMON_ASSUME + ['documented preconditions are respected by the generator: no channel map change while an advertisement is '
                                  'scheduled, never an empty channel map, change_advertising<directed> only with a directed address set'])
