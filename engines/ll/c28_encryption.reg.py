import hashlib as _hashlib
_c28_base = _hashlib.sha256(open(_os.path.join(_os.path.dirname(_os.path.abspath(_f)), 'c27_llbase.hpp'), 'rb').read()).hexdigest()[:16]

target('c28_encryption', 'engines/ll/c28_encryption.cpp',
       quick=dict(cases=320000, size=40), thorough=dict(cases=800000, size=60),
       extra_src=LL_SRC, cxxflags=['-DC27_LLBASE_SHA=0x' + _c28_base])
prop('C28', ['c28_encryption'], 'll',
     rule='rapidcheck generates a security manager configuration (legacy / LESC / both, always with a bond data base owned by '
          'the harness that starts with 0..3 bonds of central A and one of central B) and a history over LL_ENC_REQ (EDIV/Rand = '
          '0/0, bonded, bonded for the other central, created by bonding, unknown), LL_START_ENC_RSP, LL_PAUSE_ENC_REQ/RSP, wrong '
          'length variants, up to 4 of them in one connection event, legacy pairing (complete / aborted / wrong confirm / with '
          'bonding), ATT read / write of the protected and the open characteristic, idle / missed events, LL_TERMINATE_IND, local '
          'disconnect and reconnects as central A or B; a case is non-trivial if it contains an encryption PDU that is not the '
          'next one the reference expects (unsolicited LL_START_ENC_RSP, LL_ENC_REQ while a procedure is pending or while '
          'encrypted, pause while not encrypted, unsolicited LL_PAUSE_ENC_RSP, wrong length); distinct = distinct serialised cases',
     technique='model-based property testing (rapidcheck): reference encryption state machine driven by the PDUs of both sides, '
               'compared at every quiet point with the protected ATT read, the reported link state, the radio encryption switches and the key given to the radio',
     level_text='the real link_layer + security manager run under a harness-owned radio (toy tool box), central and bond data '
                'base; the reference flag "encrypted" is set only by LL_START_ENC_RSP after an LL_START_ENC_REQ of a procedure '
                'whose key the reference knows, and every observable (protected read and write, ll_connection_changed, '
                'start/stop_*_encrypted, session key source, reject with 0x06) has to agree with it. Sampling, not proof.',
     level_note='trusted: reference state machine in engines/ll/c28_encryption.cpp, reference central in engines/ll/c27_llbase.hpp; '
                'the toy cryptography is not a subject (C37); LESC pairing is not driven (C32-C35), LESC configurations use bonded keys only; '
                'between LL_PAUSE_ENC_REQ and LL_PAUSE_ENC_RSP the radio may still encrypt its transmissions',
     assumptions=COMMON_ASSUME)
