// c27_llbase.hpp -- link layer under a harness-owned radio and a reference central (DESIGN.md 3.3)
//
// Shared by the harnesses c27_control.cpp, c28_encryption.cpp and c29_lifecycle.cpp (the *.reg.py files put the
// sha256 of this header into the compiler flags, so that an edit changes the build cache key of ./check).
//
//  * verif_radio<Tx,Rx,CB>   the `ScheduledRadio` template argument of bluetoe::link_layer::link_layer. It records every
//                            scheduling request and hands control back to the harness (run() is a no-op). It also is
//                            the (toy) security tool box and records the start/stop_*_encrypted calls.
//  * dev_if / dev_impl<LL>   type erasure over the instantiated link layer configurations.
//  * cb_log                  application callbacks (`connection_callbacks<>`) log every call.
//  * central                 plays the central: owns the clock, SN/NESN, delivers PDUs, withholds acknowledgements,
//                            lets events pass (timeout), records every new PDU the peripheral transmits.
//
// The harness owns the clock: the time of a radio callback is the anchor of the last connection event that took
// place plus the middle of the window the link layer asked the radio to listen in.
#pragma once

#include "verif.hpp"

#include <bluetoe/server.hpp>
#include <bluetoe/ll_data_pdu_buffer.hpp>
#include <bluetoe/link_layer.hpp>

#include <deque>
#include <memory>
#include <set>
#include <string>

namespace llh {

    namespace ll = bluetoe::link_layer;
    using bytes  = std::vector< std::uint8_t >;
    using u128   = bluetoe::details::uint128_t;

    // ---------------------------------------------------------------------------------------------- radio
    struct sched_adv
    {
        unsigned        channel = 0;
        bytes           pdu;
        std::uint32_t   when_us = 0;
        ll::read_buffer rx{ nullptr, 0 };
    };

    struct sched_evt
    {
        unsigned      channel = 0;
        std::uint32_t start_us = 0, end_us = 0, interval_us = 0;
    };

    // toy "cryptography": deterministic, invertible by nobody, known to the harness
    struct toy
    {
        static u128 mix( const u128& a, const u128& b, std::uint8_t salt )
        {
            u128 r;
            for ( int i = 0; i != 16; ++i )
                r[ i ] = static_cast< std::uint8_t >( a[ i ] * 31 + b[ ( i + 5 ) % 16 ] * 17 + salt + i );
            return r;
        }
        static u128 c1( const u128& k, const u128& r, const u128& p1, const u128& p2 ) { return mix( mix( k, r, 1 ), mix( p1, p2, 2 ), 3 ); }
        static u128 s1( const u128& k, const u128& a, const u128& b ) { return mix( k, mix( a, b, 4 ), 5 ); }
    };

    // everything the harness wants to see of the radio, independent of the template parameters
    struct radio_state
    {
        bool                                 adv_pending = false, evt_pending = false;
        sched_adv                            adv;
        sched_evt                            evt;
        unsigned                             n_adv = 0, n_evt = 0;
        int                                  wake = 0;
        bool                                 cancel_req = false;
        std::uint32_t                        aa = 0, crc = 0;
        unsigned                             rx_cnt = 0, tx_cnt = 0;
        std::pair< bool, ll::delta_time >    disarm_answer{ false, ll::delta_time() };
        bool                                 rx_enc = false, tx_enc = false;
        std::vector< std::string >           enc_log;
        u128                                 last_key{};
        unsigned                             n_setup = 0;
        unsigned                             n_phy = 0;
        int                                  phy_rx = 1, phy_tx = 1;
    };

    template < std::size_t Tx, std::size_t Rx, typename CB >
    class verif_radio : public ll::ll_data_pdu_buffer< Tx, Rx, verif_radio< Tx, Rx, CB > >, public radio_state
    {
    public:
        using buf = ll::ll_data_pdu_buffer< Tx, Rx, verif_radio< Tx, Rx, CB > >;

        // a user provided destructor makes the derived link layer eligible for -fsanitize-address-field-padding
        ~verif_radio() {}

        void schedule_advertisment( unsigned channel, const ll::write_buffer& a, const ll::write_buffer&, ll::delta_time when, const ll::read_buffer& rx )
        {
            adv.channel = channel;
            adv.pdu.assign( a.buffer, a.buffer + a.size );
            adv.when_us = when.usec();
            adv.rx      = rx;
            adv_pending = true;
            evt_pending = false;
            ++n_adv;
        }

        ll::delta_time schedule_connection_event( unsigned channel, ll::delta_time s, ll::delta_time e, ll::delta_time i )
        {
            evt         = sched_evt{ channel, s.usec(), e.usec(), i.usec() };
            evt_pending = true;
            adv_pending = false;
            ++n_evt;
            return ll::delta_time();
        }

        std::pair< bool, ll::delta_time > disarm_connection_event()
        {
            if ( disarm_answer.first )
                evt_pending = false;
            return disarm_answer;
        }

        bool          schedule_synchronized_user_timer( ll::delta_time, ll::delta_time ) { return false; }
        bool          cancel_synchronized_user_timer() { return false; }
        void          set_access_address_and_crc_init( std::uint32_t a, std::uint32_t c ) { aa = a; crc = c; }
        std::uint32_t static_random_address_seed() const { return 0x47110815; }
        void          run() {}
        void          wake_up() { ++wake; }
        void          request_event_cancelation() { cancel_req = true; }
        void          radio_set_phy( ll::phy_ll_encoding::phy_ll_encoding_t rx, ll::phy_ll_encoding::phy_ll_encoding_t tx )
        {
            phy_rx = rx;
            phy_tx = tx;
            ++n_phy;
        }
        void increment_receive_packet_counter() { ++rx_cnt; }
        void increment_transmit_packet_counter() { ++tx_cnt; }

        struct lock_guard
        {
            lock_guard() {}
            ~lock_guard() {}
        };

        static constexpr std::size_t radio_maximum_white_list_entries          = 0;
        static constexpr bool        hardware_supports_encryption              = true;
        static constexpr bool        hardware_supports_lesc_pairing            = true;
        static constexpr bool        hardware_supports_legacy_pairing          = true;
        static constexpr bool        hardware_supports_2mbit                   = true;
        static constexpr bool        hardware_supports_synchronized_user_timer = false;
        static constexpr unsigned    connection_event_setup_time_us            = 100u;

        // toy security tool box
        u128                             create_srand() { return u128{ { 0x51, 0x52, 0x53, 0x54 } }; }
        bluetoe::details::longterm_key_t create_long_term_key() { return { u128{ { 9, 9 } }, 0x1122334455667788ull, 0x4242 }; }
        u128 c1( const u128& k, const u128& r, const u128& p1, const u128& p2 ) const { return toy::c1( k, r, p1, p2 ); }
        u128 s1( const u128& k, const u128& a, const u128& b ) { return toy::s1( k, a, b ); }
        bool is_valid_public_key( const std::uint8_t* k ) const { return k[ 0 ] != 0xff; }
        std::pair< bluetoe::details::ecdh_public_key_t, bluetoe::details::ecdh_private_key_t > generate_keys() { return {}; }
        u128                                   select_random_nonce() { return u128{ { 7 } }; }
        bluetoe::details::ecdh_shared_secret_t p256( const std::uint8_t*, const std::uint8_t* ) { return {}; }
        u128 f4( const std::uint8_t*, const std::uint8_t*, const u128& k, std::uint8_t ) { return k; }
        std::pair< u128, u128 > f5( const bluetoe::details::ecdh_shared_secret_t, const u128& a, const u128& b, const ll::device_address&, const ll::device_address& )
        {
            return { a, b };
        }
        u128 f6( const u128& k, const u128&, const u128&, const u128&, const bluetoe::details::io_capabilities_t&, const ll::device_address&, const ll::device_address& )
        {
            return k;
        }
        std::uint32_t g2( const std::uint8_t*, const std::uint8_t*, const u128&, const u128& ) { return 123456; }
        u128          create_passkey() { return u128{ { 0x40, 0xe2, 0x01 } }; }
        std::pair< std::uint64_t, std::uint32_t > setup_encryption( u128 key, std::uint64_t, std::uint32_t )
        {
            last_key = key;
            ++n_setup;
            return { 0x1111222233334444ull, 0x55667788u };
        }
        void start_receive_encrypted()
        {
            rx_enc = true;
            enc_log.push_back( "start_rx" );
        }
        void start_transmit_encrypted()
        {
            tx_enc = true;
            enc_log.push_back( "start_tx" );
        }
        void stop_receive_encrypted()
        {
            rx_enc = false;
            enc_log.push_back( "stop_rx" );
        }
        void stop_transmit_encrypted()
        {
            tx_enc = false;
            enc_log.push_back( "stop_tx" );
        }

        // harness access to the protected radio side interface of the buffer
        using buf::allocate_receive_buffer;
        using buf::next_transmit;
        using buf::received;
        ll::write_buffer mic_failure( ll::read_buffer b ) { return this->acknowledge( b ); }
    };

    // ---------------------------------------------------------------------------------------------- callbacks
    enum cb_kind { CB_REQUESTED, CB_ESTABLISHED, CB_CLOSED, CB_CHANGED, CB_ATTEMPT_TIMEOUT, CB_VERSION, CB_REJECTED, CB_UNKNOWN, CB_FEATURES, CB_PHY };

    inline const char* cb_name( int k )
    {
        static const char* n[] = { "requested", "established", "closed", "changed", "attempt_timeout", "version", "rejected", "unknown", "features", "phy" };
        return n[ k ];
    }

    struct cb_entry
    {
        int           kind;
        const void*   conn;
        unsigned      step;          // radio callback during which the application callback was made
        unsigned      arg;           // reason / error code / opcode / version
        unsigned      interval = 0, latency = 0, timeout = 0;
        bool          encrypted = false;
        bytes         remote_addr;
    };

    struct cb_state
    {
        std::vector< cb_entry > log;
        unsigned                step = 0;   // set by the central before every radio callback
    };

    inline cb_state& cbs()
    {
        static cb_state s;
        return s;
    }

    struct cb_t
    {
        template < class C >
        static bool enc( const C& c )
        {
            return c.security_attributes().is_encrypted;
        }

        template < class C >
        void ll_connection_requested( const ll::connection_details& d, const ll::connection_addresses& a, C& c )
        {
            cb_entry e{ CB_REQUESTED, &c, cbs().step, 0, d.interval(), d.latency(), d.timeout(), enc( c ), {} };
            e.remote_addr.assign( a.remote_address().begin(), a.remote_address().end() );
            cbs().log.push_back( e );
        }
        template < class C >
        void ll_connection_established( const ll::connection_details& d, const ll::connection_addresses& a, C& c )
        {
            cb_entry e{ CB_ESTABLISHED, &c, cbs().step, 0, d.interval(), d.latency(), d.timeout(), enc( c ), {} };
            e.remote_addr.assign( a.remote_address().begin(), a.remote_address().end() );
            cbs().log.push_back( e );
        }
        template < class C >
        void ll_connection_closed( std::uint8_t r, C& c )
        {
            cbs().log.push_back( cb_entry{ CB_CLOSED, &c, cbs().step, r, 0, 0, 0, enc( c ), {} } );
        }
        template < class C >
        void ll_connection_changed( const ll::connection_details& d, C& c )
        {
            cbs().log.push_back( cb_entry{ CB_CHANGED, &c, cbs().step, 0, d.interval(), d.latency(), d.timeout(), enc( c ), {} } );
        }
        template < class C >
        void ll_connection_attempt_timeout( C& c )
        {
            cbs().log.push_back( cb_entry{ CB_ATTEMPT_TIMEOUT, &c, cbs().step, 0, 0, 0, 0, enc( c ), {} } );
        }
        template < class C >
        void ll_version( std::uint8_t v, std::uint16_t, std::uint16_t, C& c )
        {
            cbs().log.push_back( cb_entry{ CB_VERSION, &c, cbs().step, v, 0, 0, 0, enc( c ), {} } );
        }
        template < class C >
        void ll_rejected( std::uint8_t e, C& c )
        {
            cbs().log.push_back( cb_entry{ CB_REJECTED, &c, cbs().step, e, 0, 0, 0, enc( c ), {} } );
        }
        template < class C >
        void ll_unknown( std::uint8_t o, C& c )
        {
            cbs().log.push_back( cb_entry{ CB_UNKNOWN, &c, cbs().step, o, 0, 0, 0, enc( c ), {} } );
        }
        template < class C >
        void ll_remote_features( std::uint8_t* f, C& c )
        {
            cbs().log.push_back( cb_entry{ CB_FEATURES, &c, cbs().step, f[ 0 ], 0, 0, 0, enc( c ), {} } );
        }
        template < class C >
        void ll_phy_updated( ll::phy_ll_encoding::phy_ll_encoding_t t, ll::phy_ll_encoding::phy_ll_encoding_t r, C& c )
        {
            cbs().log.push_back( cb_entry{ CB_PHY, &c, cbs().step, static_cast< unsigned >( t ) * 16u + static_cast< unsigned >( r ), 0, 0, 0, enc( c ), {} } );
        }
    };

    inline cb_t& cb_obj()
    {
        static cb_t o;
        return o;
    }
    // connection_callbacks<> needs an object with linkage as template argument
    extern cb_t g_cb;

    using callbacks_option = ll::connection_callbacks< cb_t, g_cb >;
    using address_option   = ll::static_address< 0xc0, 0x0f, 0x15, 0x08, 0x11, 0x47 >;

    // ---------------------------------------------------------------------------------------------- device
    struct dev_if
    {
        virtual ~dev_if() {}
        virtual radio_state&     rs()                                                    = 0;
        virtual void             run()                                                   = 0;
        virtual void             adv_timeout()                                           = 0;
        virtual void             adv_received( const ll::read_buffer& )                  = 0;
        virtual void             timeout()                                               = 0;
        virtual void             end_event( ll::connection_event_events )                = 0;
        virtual void             try_event_cancelation()                                 = 0;
        virtual ll::read_buffer  allocate_receive_buffer()                               = 0;
        virtual ll::write_buffer received( ll::read_buffer )                             = 0;
        virtual ll::write_buffer next_transmit()                                         = 0;
        virtual ll::write_buffer mic_failure( ll::read_buffer )                          = 0;
        virtual std::uint16_t    event_counter()                                         = 0;
        virtual bool             cpr( unsigned, unsigned, unsigned, unsigned )           = 0;   // connection_parameter_update_request
        virtual bool             icpr( unsigned, unsigned, unsigned, unsigned )          = 0;   // initiating_connection_parameter_request
        virtual bool             phy( unsigned tx, unsigned rx )                         = 0;
        virtual bool             ver()                                                   = 0;
        virtual void             disconnect( std::uint8_t reason )                       = 0;
        virtual std::uint64_t    features()                                              = 0;
        virtual void             async_reply( bool, unsigned, unsigned, unsigned, unsigned, unsigned ) {}
    };

    template < class LL >
    struct dev_impl : dev_if
    {
        LL d;

        radio_state&     rs() override { return d; }
        void             run() override { d.run(); }
        void             adv_timeout() override { d.adv_timeout(); }
        void             adv_received( const ll::read_buffer& b ) override { d.adv_received( b ); }
        void             timeout() override { d.timeout(); }
        void             end_event( ll::connection_event_events e ) override { d.end_event( e ); }
        void             try_event_cancelation() override { d.try_event_cancelation(); }
        ll::read_buffer  allocate_receive_buffer() override { return d.allocate_receive_buffer(); }
        ll::write_buffer received( ll::read_buffer b ) override { return d.received( b ); }
        ll::write_buffer next_transmit() override { return d.next_transmit(); }
        ll::write_buffer mic_failure( ll::read_buffer b ) override { return d.mic_failure( b ); }
        std::uint16_t    event_counter() override { return d.connection_event_counter(); }
        bool cpr( unsigned a, unsigned b, unsigned c, unsigned e ) override { return d.connection_parameter_update_request( a, b, c, e ); }
        bool icpr( unsigned a, unsigned b, unsigned c, unsigned e ) override { return d.initiating_connection_parameter_request( a, b, c, e ); }
        bool phy( unsigned tx, unsigned rx ) override { return d.phy_update_request( static_cast< std::uint8_t >( tx ), static_cast< std::uint8_t >( rx ) ); }
        bool ver() override { return d.remote_versions_request(); }
        void disconnect( std::uint8_t reason ) override { d.disconnect( reason ); }
        std::uint64_t features() override { return d.supported_link_layer_features(); }
    };

    // ---------------------------------------------------------------------------------------------- central
    struct conn_params
    {
        unsigned win_size = 1, win_offset = 0, interval = 24, latency = 0, timeout = 100, hop = 7, sca = 1;
        bytes    chmap{ 0xff, 0xff, 0xff, 0xff, 0x1f };
        bytes    init_addr{ 0x3c, 0x1c, 0x62, 0x92, 0xf0, 0x48 };
        bool     init_random = true;
    };

    struct pdu
    {
        std::uint8_t llid = 1;
        bytes        payload;
    };

    struct tx_rec
    {
        unsigned      step;        // radio callback (connection event) in which the PDU was accepted by the central
        std::uint64_t t_first_us;  // time of the event in which it was on the air for the first time
        std::uint64_t t_us;        // time of the event in which it was accepted
        std::uint8_t  llid;
        bytes         payload;
        unsigned      conn;        // number of the connection
    };

    struct central
    {
        dev_if&               d;
        bool                  sn = false, nesn = false;
        std::uint64_t         anchor_us = 0, now_us = 0;
        unsigned              step = 0;
        unsigned              conn_no = 0;
        unsigned              events_in_conn = 0;   // connection events that took place in the current connection
        std::vector< tx_rec > tx;
        bool                  have_first_seen = false;
        std::uint64_t         first_seen_us   = 0;
        conn_params           params;
        // F-27b: the hardware bindings call next_transmit() when no receive buffer is available, so the acknowledgement
        // in the header of the received PDU is lost; once receive and transmit ring are both full the link is dead.
        // lenient == true: an *empty* PDU is handed to acknowledge() from a buffer of the radio in that situation.
        bool                  lenient_when_rx_full = false;
        unsigned              rx_full = 0, rx_full_on_empty = 0, rx_full_rescued = 0;
        bool                  last_event_quiet = false;   // the peripheral only transmitted empty PDUs in the last connection event

        explicit central( dev_if& dev ) : d( dev ) {}

        bool connected() const { return d.rs().evt_pending; }
        bool advertising() const { return d.rs().adv_pending && !d.rs().evt_pending; }

        void begin_callback( std::uint64_t t )
        {
            now_us      = t;
            cbs().step  = ++step;
        }

        std::uint64_t next_event_time() const { return anchor_us + ( static_cast< std::uint64_t >( d.rs().evt.start_us ) + d.rs().evt.end_us ) / 2; }

        static bytes connect_ind( const conn_params& p )
        {
            bytes r{ static_cast< std::uint8_t >( 0x85 | ( p.init_random ? 0x40 : 0 ) ), 0x22 };
            r.insert( r.end(), p.init_addr.begin(), p.init_addr.end() );
            static const std::uint8_t adv_a[] = { 0x47, 0x11, 0x08, 0x15, 0x0f, 0xc0 };
            r.insert( r.end(), adv_a, adv_a + 6 );
            static const std::uint8_t aa_crc[] = { 0x5a, 0xb3, 0x9a, 0xaf, 0x08, 0x81, 0xf6 };
            r.insert( r.end(), aa_crc, aa_crc + 7 );
            r.push_back( static_cast< std::uint8_t >( p.win_size ) );
            r.push_back( static_cast< std::uint8_t >( p.win_offset ) );
            r.push_back( static_cast< std::uint8_t >( p.win_offset >> 8 ) );
            r.push_back( static_cast< std::uint8_t >( p.interval ) );
            r.push_back( static_cast< std::uint8_t >( p.interval >> 8 ) );
            r.push_back( static_cast< std::uint8_t >( p.latency ) );
            r.push_back( static_cast< std::uint8_t >( p.latency >> 8 ) );
            r.push_back( static_cast< std::uint8_t >( p.timeout ) );
            r.push_back( static_cast< std::uint8_t >( p.timeout >> 8 ) );
            r.insert( r.end(), p.chmap.begin(), p.chmap.end() );
            r.push_back( static_cast< std::uint8_t >( ( p.hop & 0x1f ) | ( ( p.sca & 7 ) << 5 ) ) );
            return r;
        }

        // answers the pending advertisement with a CONNECT_IND; returns true if the link layer took the request
        bool connect( const conn_params& p )
        {
            if ( !advertising() )
                return false;
            params           = p;
            const bytes  req = connect_ind( p );
            auto         rx  = d.rs().adv.rx;
            if ( rx.size < req.size() )
                return false;
            std::copy( req.begin(), req.end(), rx.buffer );
            rx.size = req.size();
            begin_callback( now_us + 10000 );
            d.adv_received( rx );
            if ( !connected() )
                return false;
            sn = nesn       = false;
            anchor_us       = now_us;
            have_first_seen = false;
            events_in_conn  = 0;
            ++conn_no;
            return true;
        }

        void adv_no_answer()
        {
            if ( !advertising() )
                return;
            begin_callback( now_us + 10000 );
            d.adv_timeout();
        }

        struct ev_result
        {
            unsigned delivered   = 0;     // PDUs of the burst that were taken by the peripheral
            bool     link_closed = false;
        };

        // one connection event: delivers the PDUs of `burst` (an empty burst is a single empty PDU); ack == false: the
        // central pretends not to have received the peripheral's PDUs (they are not acknowledged)
        ev_result event( const std::vector< pdu >& burst, bool ack = true )
        {
            ev_result res;
            if ( !connected() )
                return res;
            begin_callback( next_event_time() );
            ll::connection_event_events ev;
            last_event_quiet                  = true;
            std::size_t                 i     = 0;
            bool                        first = true;
            while ( first || i < burst.size() )
            {
                first             = false;
                const bool have   = i < burst.size();
                const pdu  cur    = have ? burst[ i ] : pdu{ 1, {} };
                const bool more   = i + 1 < burst.size();
                auto       b      = d.allocate_receive_buffer();
                ll::write_buffer t;
                bool sent_empty_instead = false;
                if ( b.size == 0 || b.size < 2 + cur.payload.size() )
                {
                    ++rx_full;
                    if ( cur.payload.empty() )
                        ++rx_full_on_empty;
                    if ( lenient_when_rx_full )
                    {
                        // the central's PDU (an empty one, if it wanted to send something else) only delivers its header
                        static std::uint8_t scratch[ 8 ];
                        scratch[ 0 ] = static_cast< std::uint8_t >( 1 | ( sn ? 8 : 0 ) | ( nesn ? 4 : 0 ) );
                        scratch[ 1 ] = 0;
                        ++rx_full_rescued;
                        sent_empty_instead = !cur.payload.empty();
                        t                  = d.mic_failure( ll::read_buffer{ scratch, 2 } );
                    }
                    else
                        t = d.next_transmit();
                }
                else
                {
                    b.buffer[ 0 ] = static_cast< std::uint8_t >( ( cur.llid & 3 ) | ( sn ? 8 : 0 ) | ( nesn ? 4 : 0 ) | ( more ? 0x10 : 0 ) );
                    b.buffer[ 1 ] = static_cast< std::uint8_t >( cur.payload.size() );
                    std::copy( cur.payload.begin(), cur.payload.end(), b.buffer + 2 );
                    t = d.received( b );
                }
                const std::uint8_t h0     = t.buffer[ 0 ];
                const std::uint8_t len    = t.buffer[ 1 ];
                const bool         p_sn   = h0 & 8;
                const bool         p_nesn = h0 & 4;
                if ( len != 0 )
                    last_event_quiet = false;
                bool               taken  = false;
                if ( p_nesn != sn )
                {
                    sn    = !sn;
                    taken = true;
                }
                if ( p_sn == nesn )
                {
                    // a PDU the central has not seen yet
                    if ( !have_first_seen )
                    {
                        have_first_seen = true;
                        first_seen_us   = now_us;
                    }
                    if ( ack )
                    {
                        nesn = !nesn;
                        tx.push_back( tx_rec{ step, first_seen_us, now_us, static_cast< std::uint8_t >( h0 & 3 ), bytes( t.buffer + 2, t.buffer + 2 + len ), conn_no } );
                        have_first_seen = false;
                    }
                    else if ( len != 0 )
                    {
                        ev.unacknowledged_data = true;
                    }
                    if ( len != 0 )
                        ev.last_transmitted_not_empty = true;
                }
                if ( have && !cur.payload.empty() && !sent_empty_instead )
                    ev.last_received_not_empty = true;
                if ( taken && have && !sent_empty_instead )
                {
                    ++i;
                    ++res.delivered;
                }
                else if ( have )
                {
                    break;   // receive buffer full: the rest of the burst is not sent in this event
                }
            }
            d.end_event( ev );
            anchor_us = now_us;
            ++events_in_conn;
            res.link_closed = !connected();
            return res;
        }

        // the central (or the peripheral) misses a connection event
        bool missed()
        {
            if ( !connected() )
                return true;
            begin_callback( next_event_time() );
            d.timeout();
            return !connected();
        }
    };

    // ---------------------------------------------------------------------------------------------- text helpers
    inline std::string kv( const std::vector< std::string >& toks, const std::string& key, const std::string& dflt = "" )
    {
        for ( auto& t : toks )
            if ( t.size() > key.size() && t.compare( 0, key.size(), key ) == 0 && t[ key.size() ] == '=' )
                return t.substr( key.size() + 1 );
        return dflt;
    }
    inline long kvi( const std::vector< std::string >& toks, const std::string& key, long dflt = 0 )
    {
        const std::string s = kv( toks, key );
        return s.empty() ? dflt : std::strtol( s.c_str(), nullptr, 0 );
    }

    inline std::string params_text( const conn_params& p )
    {
        return verif::cat( "ws=", p.win_size, " wo=", p.win_offset, " int=", p.interval, " lat=", p.latency, " to=", p.timeout, " hop=", p.hop, " sca=", p.sca,
            " map=", verif::hex( p.chmap ) );
    }
    inline conn_params params_from( const std::vector< std::string >& t )
    {
        conn_params p;
        p.win_size   = static_cast< unsigned >( kvi( t, "ws", 1 ) );
        p.win_offset = static_cast< unsigned >( kvi( t, "wo", 0 ) );
        p.interval   = static_cast< unsigned >( kvi( t, "int", 24 ) );
        p.latency    = static_cast< unsigned >( kvi( t, "lat", 0 ) );
        p.timeout    = static_cast< unsigned >( kvi( t, "to", 100 ) );
        p.hop        = static_cast< unsigned >( kvi( t, "hop", 7 ) );
        p.sca        = static_cast< unsigned >( kvi( t, "sca", 1 ) );
        const auto m = verif::unhex( kv( t, "map", "ffffffff1f" ) );
        if ( m.size() == 5 )
            p.chmap = m;
        return p;
    }

    // valid connection parameters: interval in 1.25 ms, latency, supervision timeout in 10 ms
    //   timeout >= (1 + latency) * interval * 2 (and a margin, so that a few missed events do not end the link)
    inline rc::Gen< conn_params > gen_params( bool long_intervals )
    {
        return rc::gen::map(
            rc::gen::tuple( long_intervals ? rc::gen::weightedElement< unsigned >( { { 1, 6 }, { 2, 24 }, { 6, 80 }, { 10, 400 }, { 10, 800 }, { 10, 1600 }, { 8, 3200 } } )
                                               : rc::gen::weightedElement< unsigned >( { { 2, 6 }, { 1, 7 }, { 3, 24 }, { 3, 80 }, { 2, 400 } } ),
                verif::range< unsigned >( 0, 3 ), verif::range< unsigned >( 0, 3 ), verif::range< unsigned >( 5, 16 ), verif::range< unsigned >( 0, 7 ),
                verif::range< unsigned >( 1, 4 ), verif::range< unsigned >( 0, 2 ) ),
            []( const std::tuple< unsigned, unsigned, unsigned, unsigned, unsigned, unsigned, unsigned >& t ) {
                conn_params p;
                p.interval = std::get< 0 >( t );
                p.latency  = std::get< 1 >( t ) == 3 ? 2 : ( std::get< 1 >( t ) == 2 ? 1 : 0 );
                // supervision timeout: at least 8 (+ margin) intervals of the effective rate, at most 32 s
                const unsigned long min_us = static_cast< unsigned long >( 1 + p.latency ) * p.interval * 1250ul * ( 4 + 2 * std::get< 2 >( t ) );
                unsigned long       to     = std::max< unsigned long >( 10, ( min_us + 9999 ) / 10000 + 1 );
                if ( to > 3200 )
                {
                    p.latency = 0;
                    to        = std::min< unsigned long >( 3200, std::max< unsigned long >( 10, ( p.interval * 1250ul * 4 + 9999 ) / 10000 + 1 ) );
                }
                p.timeout    = static_cast< unsigned >( to );
                p.hop        = std::get< 3 >( t );
                p.sca        = std::get< 4 >( t );
                p.win_size   = std::min( std::get< 5 >( t ), std::min( 8u, p.interval ) );
                p.win_offset = std::min( std::get< 6 >( t ), p.interval );
                return p;
            } );
    }
}
