import hashlib as _hl
# the shared device header is not hashed by ./check; make it part of the flags (and with that of the cache key)
_c25_dev_hash = _hl.sha256(open(_os.path.join(_os.path.dirname(_f), 'c24_dev.hpp'), 'rb').read()).hexdigest()[:16]

target('c25_advrx', 'engines/ll/c25_advrx.cpp', extra_src=LL_SRC, cxxflags=['-gline-tables-only', '-DC24_DEV_HASH=0x' + _c25_dev_hash],
       quick=dict(cases=120000, size=120), thorough=dict(cases=400000, size=160))
prop('C25', ['c25_advrx'], 'll',
     rule='rapidcheck generates one of 6 link layer configurations (default; undirected / directed / scannable single type; four types; '
          'directed + non connectable; white_list<1..4> or none; two PDU layouts), the own address (option default / public / random set '
          'before run()), white list, connection filter, scan filter, directed target and change_advertising edits before and between '
          'advertisements, and per advertisement: time out, scan request from one of 6 peers (3 byte patterns x public/random, two patterns '
          'one bit apart), random bytes (2..41), or a CONNECT_IND with 0..3 broken aspects out of PDU type 0..15, length field (33, 35, any, '
          'RFU bits), received size (0..37 body octets), AdvA (one of 48 bits flipped / other device), RxAdd, InitA+TxAdd (proper = directed '
          'target / white listed peer, or any of the 6 peers); parameters inside the always-valid region of C22 (70 %), default, or with one '
          'field outside (20 %, connection outcome not asserted). A case is non-trivial if at least one received PDU differs from an '
          'acceptable connect request in exactly one aspect; distinct = distinct serialised cases',
     technique='property testing (rapidcheck) of link_layer<>::adv_received under a harness-owned radio against a reference acceptance predicate',
     level_text='for every received PDU the reference predicate (type 5, length 34, received size, AdvA and RxAdd equal the own address and type, '
                'advertised PDU type connectable, directed: InitA/TxAdd equal the configured target, connection filter off or InitA in the '
                'white list model, parameters valid) decides: must connect (connection event scheduled, requested callback with InitA as '
                'remote and the own address as local address) or must not connect (no event, no callback) and then advertising goes on with '
                'the next advertisement. The callback gets an exact size heap copy of the PDU (ASan finds reads past the received size). '
                'Advertising PDUs and scan response data handed to the radio carry the own address / address type (what the bindings compare '
                'scan requests with); no response data for directed and non connectable advertising; is_scan_request_in_filter() equals the '
                'white list model. Sampling, not proof.',
     level_note='trusted: the predicate and the white list model in engines/ll/c25_advrx.cpp, the harness radio in engines/ll/c24_dev.hpp. The '
                'addressing decision for scan requests is taken in nrf52.hpp / nrf51.cpp (register level code, out of reach). Length fields '
                'with RFU bits 6,7 set and parameters outside the always-valid region are generated but the connection outcome is not asserted',
     assumptions=COMMON_ASSUME + ['a radio delivers at least the header (2 octets + the gap of its PDU layout) of a received advertising channel PDU',
                                  'software white list (radio_maximum_white_list_entries = 0); the radio backed variant is C26'])
