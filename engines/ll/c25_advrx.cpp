// C25: only properly addressed and permitted requests are answered while advertising (DESIGN.md section 4, C25)
//
// Generated: a link layer configuration (advertising types single / multiple, white list size, PDU layout), the own
// address (option default, public or random set at run time), white list / filter / directed target / advertising type
// edits, and for every advertisement the answer of the outside world: nothing, a scan request, or an advertising channel
// PDU built from a valid CONNECT_IND by breaking 0, 1 or 2 aspects (PDU type, length field, received size, AdvA, RxAdd,
// InitA/TxAdd, parameters) or plain random bytes.
// Oracle: a predicate over the received bytes written from Core Vol 6 Part B 2.3.3.1 / 4.4.2 and the white list
// documentation decides whether a connection has to / must not be entered; in every other case advertising continues.
// Scan requests: the addressing decision is taken inside the radio bindings (nrf52.hpp), which cannot run here. Checked
// instead: is_scan_request_in_filter() against the white list model, and what the link layer hands to the radio for
// that decision (scan response PDU with the own address and address type; no response data for advertising types that
// are not scannable).
#include "verif.hpp"

#include "c24_dev.hpp"

#include <set>

namespace {

    using namespace c24;

    // ------------------------------------------------------------------------------------------ configurations
    struct config
    {
        std::string                                     name;
        std::function< std::unique_ptr< device_if >() > make;
    };

    template < class Cfg, template < std::size_t, std::size_t, class > class Radio, class... Opts >
    config make_cfg( const std::string& name, bool gap, bool explicit_types = true )
    {
        using LL = ll::link_layer< server_t, Radio, callbacks_opt, Opts... >;
        return config{ name, [=] { return std::unique_ptr< device_if >( new device_impl< LL, Cfg >( name, gap, 100, explicit_types ) ); } };
    }

    const std::vector< config >& configs()
    {
        static const std::vector< config > c = {
            make_cfg< cfg< false, false, false, 0 >, radio >( "default", false, false ),
            make_cfg< cfg< false, false, false, 3, T_UNDIRECTED >, radio, ll::connectable_undirected_advertising, ll::white_list< 3 >,
                ll::static_address< 0xc0, 0x0f, 0x15, 0x08, 0x11, 0x47 > >( "undirected-wl3", false ),
            make_cfg< cfg< false, false, false, 2, T_DIRECTED >, radio, ll::connectable_directed_advertising, ll::white_list< 2 > >( "directed-wl2", false ),
            make_cfg< cfg< false, false, false, 1, T_SCANNABLE >, radio_gap, ll::scannable_undirected_advertising, ll::white_list< 1 > >(
                "scannable-wl1-gap", true ),
            make_cfg< cfg< false, false, false, 4, T_UNDIRECTED, T_DIRECTED, T_SCANNABLE, T_NONCONN >, radio, ll::connectable_undirected_advertising,
                ll::connectable_directed_advertising, ll::scannable_undirected_advertising, ll::non_connectable_undirected_advertising,
                ll::white_list< 4 > >( "multi4-wl4", false ),
            make_cfg< cfg< false, false, false, 0, T_DIRECTED, T_NONCONN >, radio_gap, ll::connectable_directed_advertising,
                ll::non_connectable_undirected_advertising >( "multi2-directed-nonconn-gap", true ),
        };
        return c;
    }

    // ------------------------------------------------------------------------------------------ case
    enum op_kind { O_OWN, O_RUN, O_T, O_SCAN, O_REQ, O_RAW, O_WLADD, O_WLREM, O_WLCLEAR, O_CFILTER, O_SFILTER, O_DADDR, O_TYPE, O_KINDS };
    const char* const op_names[] = { "own", "run", "t", "scan", "req", "raw", "wl_add", "wl_rem", "wl_clear", "cfilter", "sfilter", "daddr", "type" };

    enum adva_mode { ADVA_OWN = 0, ADVA_OTHER = 49 };  // 1..48: own address with bit (n-1) flipped
    enum init_mode { INIT_PROPER = -1 };               // 0..5: peer( n )

    struct Op
    {
        int                         kind  = O_T;
        int                         a     = 0;   // own: 0 default 1 public 2 random; index / flag for the simple ops
        // req
        int                         type  = 5;   // PDU type 0..15
        int                         lenf  = 34;  // second header octet
        int                         blen  = 34;  // number of body octets delivered
        int                         hbits = 0;   // header bits 4,5 (RFU / ChSel)
        int                         adva  = ADVA_OWN;
        int                         rxbad = 0;   // RxAdd does not match the own address type
        int                         init  = INIT_PROPER;
        std::vector< std::uint8_t > bytes;       // req: LLData (22); raw: the PDU; own: the address
    };

    struct Case
    {
        int               cfg = 0;
        std::vector< Op > ops;
    };

    using Ops = std::vector< Op >;

    Op simple( int kind, int a )
    {
        Op o;
        o.kind = kind;
        o.a    = a;
        return o;
    }

    // ---- LLData
    void put16( std::vector< std::uint8_t >& v, std::size_t at, unsigned x )
    {
        v[ at ]     = static_cast< std::uint8_t >( x );
        v[ at + 1 ] = static_cast< std::uint8_t >( x >> 8 );
    }
    unsigned get16( const std::uint8_t* p ) { return p[ 0 ] | ( p[ 1 ] << 8 ); }

    struct lldata_fields
    {
        unsigned wsize, woff, interval, latency, timeout, hop, sca, channels, map_rfu;
    };

    lldata_fields parse_lldata( const std::uint8_t* l )
    {
        lldata_fields f;
        f.wsize    = l[ 7 ];
        f.woff     = get16( l + 8 );
        f.interval = get16( l + 10 );
        f.latency  = get16( l + 12 );
        f.timeout  = get16( l + 14 );
        f.channels = 0;
        for ( int i = 0; i != 37; ++i )
            f.channels += ( l[ 16 + i / 8 ] >> ( i % 8 ) ) & 1;
        f.map_rfu = l[ 20 ] >> 5;
        f.hop     = l[ 21 ] & 0x1f;
        f.sca     = l[ 21 ] >> 5;
        return f;
    }

    // valid by every reading of Core Vol 6 Part B 2.3.3.1 / 4.5.2 (the region in which C22 demands acceptance)
    bool lldata_always_valid( const lldata_fields& f )
    {
        return f.interval >= 6 && f.interval <= 3200 && f.latency <= 499 && f.timeout >= 10 && f.timeout <= 3200
            && f.timeout * 4 > ( 1 + f.latency ) * f.interval && f.wsize >= 1 && f.wsize <= std::min( 8u, f.interval - 1 ) && f.woff <= f.interval
            && f.hop >= 5 && f.hop <= 16 && f.channels >= 2 && f.map_rfu == 0;
    }

    rc::Gen< std::vector< std::uint8_t > > gen_valid_lldata()
    {
        auto interval = rc::gen::weightedOneOf< int >( { { 3, rc::gen::element( 6, 7, 8, 9, 3199, 3200 ) }, { 5, verif::range< int >( 6, 3200 ) }, { 2, verif::range< int >( 6, 40 ) } } );
        return rc::gen::mapcat( interval, []( int iv ) {
            const int max_lat = std::min( 499, 12799 / iv - 1 );
            return rc::gen::mapcat( rc::gen::weightedOneOf< int >( { { 3, rc::gen::just( 0 ) }, { 2, verif::range< int >( 0, max_lat ) }, { 1, rc::gen::just( max_lat ) } } ),
                [ iv ]( int lat ) {
                    const int min_to = std::max( 10, ( 1 + lat ) * iv / 4 + 1 );
                    return rc::gen::map(
                        rc::gen::tuple( rc::gen::weightedOneOf< int >( { { 2, rc::gen::just( min_to ) }, { 1, rc::gen::just( 3200 ) }, { 3, verif::range< int >( min_to, 3200 ) } } ),
                            verif::range< int >( 1, std::min( 8, iv - 1 ) ), rc::gen::weightedOneOf< int >( { { 1, rc::gen::just( 0 ) }, { 1, rc::gen::just( iv ) }, { 2, verif::range< int >( 0, iv ) } } ),
                            verif::range< int >( 5, 16 ), verif::range< int >( 0, 7 ), verif::bytes( 12, 12 ) ),
                        [ iv, lat ]( const std::tuple< int, int, int, int, int, std::vector< std::uint8_t > >& t ) {
                            const auto&                 r = std::get< 5 >( t );
                            std::vector< std::uint8_t > l( 22 );
                            std::copy( r.begin(), r.begin() + 7, l.begin() );  // access address, CRC init
                            l[ 7 ] = static_cast< std::uint8_t >( std::get< 1 >( t ) );
                            put16( l, 8, static_cast< unsigned >( std::get< 2 >( t ) ) );
                            put16( l, 10, static_cast< unsigned >( iv ) );
                            put16( l, 12, static_cast< unsigned >( lat ) );
                            put16( l, 14, static_cast< unsigned >( std::get< 0 >( t ) ) );
                            // channel map: random, at least the two channels r[ 7 ] % 37 and the next one
                            for ( int i = 0; i != 5; ++i )
                                l[ 16 + i ] = r[ 7 + i ];
                            l[ 20 ] &= 0x1f;
                            const int c1 = r[ 7 ] % 37, c2 = ( c1 + 1 + r[ 8 ] % 36 ) % 37;
                            l[ 16 + c1 / 8 ] |= static_cast< std::uint8_t >( 1 << ( c1 % 8 ) );
                            l[ 16 + c2 / 8 ] |= static_cast< std::uint8_t >( 1 << ( c2 % 8 ) );
                            l[ 21 ] = static_cast< std::uint8_t >( std::get< 3 >( t ) | ( std::get< 4 >( t ) << 5 ) );
                            return l;
                        } );
                } );
        } );
    }

    // one field pushed out of (or to the border of) the valid region; the oracle does not assert an outcome for these
    rc::Gen< std::vector< std::uint8_t > > gen_odd_lldata()
    {
        return rc::gen::map( rc::gen::tuple( gen_valid_lldata(), verif::range< int >( 0, 9 ), rc::gen::arbitrary< std::uint16_t >() ),
            []( const std::tuple< std::vector< std::uint8_t >, int, std::uint16_t >& t ) {
                auto           l = std::get< 0 >( t );
                const unsigned x = std::get< 2 >( t );
                switch ( std::get< 1 >( t ) )
                {
                case 0: l[ 21 ] = static_cast< std::uint8_t >( ( l[ 21 ] & 0xe0 ) | ( x % 2 ? x % 5 : 17 + x % 15 ) ); break;  // hop
                case 1: std::fill( l.begin() + 16, l.begin() + 21, 0 ); l[ 16 + ( x % 37 ) / 8 ] = static_cast< std::uint8_t >( 1 << ( ( x % 37 ) % 8 ) ); break;  // one channel
                case 2: std::fill( l.begin() + 16, l.begin() + 21, 0 ); break;                                                  // no channel
                case 3: l[ 7 ] = static_cast< std::uint8_t >( x % 2 ? 0 : 9 + x % 240 ); break;                                 // window size
                case 4: put16( l, 8, get16( &l[ 10 ] ) + 1 + x % 100 ); break;                                                  // window offset
                case 5: put16( l, 12, 500 + x % 2000 ); break;                                                                  // latency
                case 6: put16( l, 14, x % 2 ? x % 10 : 3201 + x % 5000 ); break;                                                // timeout
                case 7: put16( l, 14, ( 1 + get16( &l[ 12 ] ) ) * get16( &l[ 10 ] ) / 4 ); break;                               // supervision relation
                case 8: l[ 20 ] |= 0xe0; break;                                                                                 // RFU bits of the map
                default:  // large latency with a large interval: ( latency + 1 ) * 2 * interval does not fit into 32 bit microseconds
                    put16( l, 10, 3200 - x % 800 );
                    put16( l, 12, 600 + x % 5000 );
                    put16( l, 14, 3200 );
                    break;
                }
                return l;
            } );
    }

    rc::Gen< std::vector< std::uint8_t > > gen_lldata()
    {
        return rc::gen::weightedOneOf< std::vector< std::uint8_t > >( { { 1, rc::gen::just( default_lldata() ) }, { 7, gen_valid_lldata() }, { 2, gen_odd_lldata() } } );
    }

    // aspects that can be broken
    enum aspect { A_TYPE, A_LENF, A_SIZE, A_ADVA, A_RXADD, A_INIT, A_ASPECTS };

    rc::Gen< Op > gen_req()
    {
        auto n_broken = rc::gen::weightedElement< int >( { { 5, 0 }, { 11, 1 }, { 3, 2 }, { 1, 3 } } );
        return rc::gen::mapcat( n_broken, []( int n ) {
            return rc::gen::map(
                rc::gen::tuple( rc::gen::container< std::vector< int > >( static_cast< std::size_t >( n ), verif::range< int >( 0, A_ASPECTS - 1 ) ), gen_lldata(),
                    rc::gen::arbitrary< std::uint64_t >(), verif::range< int >( 0, 3 ), rc::gen::weightedElement< int >( { { 6, INIT_PROPER }, { 1, 0 }, { 1, 1 }, { 1, 2 }, { 1, 3 }, { 1, 4 }, { 1, 5 } } ) ),
                []( const std::tuple< std::vector< int >, std::vector< std::uint8_t >, std::uint64_t, int, int >& t ) {
                    Op o;
                    o.kind           = O_REQ;
                    o.bytes          = std::get< 1 >( t );
                    o.hbits          = std::get< 3 >( t );
                    o.init           = std::get< 4 >( t );
                    std::uint64_t rnd = std::get< 2 >( t );
                    for ( int a : std::get< 0 >( t ) )
                    {
                        const unsigned x = static_cast< unsigned >( rnd & 0xffff );
                        rnd >>= 16;
                        switch ( a )
                        {
                        case A_TYPE: o.type = static_cast< int >( x % 2 ? ( x >> 1 ) % 16 : ( x >> 1 ) % 2 ? 3 : 4 + ( x >> 2 ) % 4 ); break;
                        case A_LENF: o.lenf = static_cast< int >( x % 4 == 0 ? 33 : x % 4 == 1 ? 35 : x % 4 == 2 ? x >> 2 : 34 | ( ( 1 + ( x >> 2 ) % 3 ) << 6 ) ); break;
                        case A_SIZE: o.blen = static_cast< int >( x % 4 == 0 ? 33 : x % 4 == 1 ? 35 : x % 4 == 2 ? ( x >> 2 ) % 38 : ( x >> 2 ) % 2 ? 0 : 12 ); break;
                        case A_ADVA: o.adva = static_cast< int >( x % 8 == 0 ? ADVA_OTHER : 1 + ( x >> 3 ) % 48 ); break;
                        case A_RXADD: o.rxbad = 1; break;
                        case A_INIT: o.init = static_cast< int >( x % 6 ); break;
                        }
                    }
                    return o;
                } );
        } );
    }

    rc::Gen< Op > gen_raw()
    {
        return rc::gen::map( verif::bytes( 2, 41 ), []( const std::vector< std::uint8_t >& b ) {
            Op o;
            o.kind  = O_RAW;
            o.bytes = b;
            return o;
        } );
    }

    rc::Gen< Op > gen_setup_op()
    {
        return rc::gen::weightedOneOf< Op >( {
            { 6, rc::gen::map( verif::range< int >( 0, 5 ), []( int i ) { return simple( O_WLADD, i ); } ) },
            { 3, rc::gen::map( verif::range< int >( 0, 5 ), []( int i ) { return simple( O_WLREM, i ); } ) },
            { 1, rc::gen::just( simple( O_WLCLEAR, 0 ) ) },
            { 4, rc::gen::map( rc::gen::weightedElement< int >( { { 3, 1 }, { 1, 0 } } ), []( int b ) { return simple( O_CFILTER, b ); } ) },
            { 2, rc::gen::map( verif::range< int >( 0, 1 ), []( int b ) { return simple( O_SFILTER, b ); } ) },
            { 4, rc::gen::map( verif::range< int >( 0, 5 ), []( int i ) { return simple( O_DADDR, i ); } ) },
            { 4, rc::gen::map( verif::range< int >( 0, 3 ), []( int i ) { return simple( O_TYPE, i ); } ) },
        } );
    }

    rc::Gen< Op > gen_own()
    {
        return rc::gen::map( rc::gen::tuple( verif::range< int >( 0, 2 ), verif::bytes( 6, 6 ) ), []( const std::tuple< int, std::vector< std::uint8_t > >& t ) {
            Op o      = simple( O_OWN, std::get< 0 >( t ) );
            o.bytes   = std::get< 1 >( t );
            o.bytes[ 5 ] |= 0xc0;  // looks like a static random address in both cases
            return o;
        } );
    }

    rc::Gen< Op > gen_step()
    {
        return rc::gen::weightedOneOf< Op >( { { 62, gen_req() }, { 5, gen_raw() }, { 8, rc::gen::map( verif::range< int >( 0, 5 ), []( int i ) { return simple( O_SCAN, i ); } ) },
            { 6, rc::gen::just( simple( O_T, 0 ) ) }, { 19, gen_setup_op() } } );
    }

    rc::Gen< Case > gen_case()
    {
        auto prefix = rc::gen::resize( 8, rc::gen::container< Ops >( gen_setup_op() ) );
        auto body   = rc::gen::container< Ops >( gen_step() );
        return rc::gen::map( rc::gen::tuple( verif::range< int >( 0, static_cast< int >( configs().size() ) - 1 ), gen_own(), prefix, body ),
            []( const std::tuple< int, Op, Ops, Ops >& t ) {
                Case c;
                c.cfg = std::get< 0 >( t );
                c.ops.push_back( std::get< 1 >( t ) );
                c.ops.insert( c.ops.end(), std::get< 2 >( t ).begin(), std::get< 2 >( t ).end() );
                c.ops.push_back( simple( O_RUN, 0 ) );
                c.ops.insert( c.ops.end(), std::get< 3 >( t ).begin(), std::get< 3 >( t ).end() );
                return c;
            } );
    }

    // ------------------------------------------------------------------------------------------ text
    std::string adva_text( int a ) { return a == ADVA_OWN ? "own" : a == ADVA_OTHER ? "other" : "bit" + std::to_string( a - 1 ); }
    int         adva_parse( const std::string& s )
    {
        if ( s == "own" )
            return ADVA_OWN;
        if ( s == "other" )
            return ADVA_OTHER;
        if ( s.compare( 0, 3, "bit" ) == 0 )
            return 1 + static_cast< int >( std::strtol( s.c_str() + 3, nullptr, 10 ) ) % 48;
        return ADVA_OWN;
    }

    std::string to_text( const Case& c )
    {
        std::ostringstream os;
        os << "cfg " << c.cfg << "  # " << configs()[ c.cfg ].name << "\n";
        static const char* own_modes[] = { "default", "public", "random" };
        for ( auto& o : c.ops )
        {
            os << op_names[ o.kind ];
            switch ( o.kind )
            {
            case O_OWN: os << " " << own_modes[ o.a % 3 ] << " " << verif::hex( o.bytes ); break;
            case O_RUN:
            case O_T:
            case O_WLCLEAR: break;
            case O_REQ:
                os << " type=" << o.type << " len=" << o.lenf << " size=" << o.blen << " hbits=" << o.hbits << " adva=" << adva_text( o.adva )
                   << " rxadd=" << ( o.rxbad ? "bad" : "ok" ) << " init=" << ( o.init == INIT_PROPER ? std::string( "proper" ) : std::to_string( o.init ) )
                   << " lldata=" << verif::hex( o.bytes );
                break;
            case O_RAW: os << " " << verif::hex( o.bytes ); break;
            default: os << " " << o.a; break;
            }
            os << "\n";
        }
        return os.str();
    }

    Case from_text( const std::string& t )
    {
        Case         c;
        verif::Lines L( t );
        for ( auto& l : L.lines )
        {
            if ( l[ 0 ] == "cfg" )
            {
                c.cfg = static_cast< int >( verif::tok_int( l, 1 ) ) % static_cast< int >( configs().size() );
                continue;
            }
            int kind = -1;
            for ( int k = 0; k != O_KINDS; ++k )
                if ( l[ 0 ] == op_names[ k ] )
                    kind = k;
            if ( kind < 0 )
                continue;
            Op o;
            o.kind = kind;
            if ( kind == O_OWN )
            {
                const std::string m = verif::tok_str( l, 1, "default" );
                o.a                 = m == "public" ? 1 : m == "random" ? 2 : 0;
                o.bytes             = verif::unhex( verif::tok_str( l, 2, "c00f15081147" ) );
                o.bytes.resize( 6, 0xc0 );
            }
            else if ( kind == O_RAW )
            {
                o.bytes = verif::unhex( verif::tok_str( l, 1, "0000" ) );
                if ( o.bytes.size() < 2 )
                    o.bytes.resize( 2, 0 );
            }
            else if ( kind == O_REQ )
            {
                o.bytes = default_lldata();
                for ( std::size_t i = 1; i < l.size(); ++i )
                {
                    const auto        eq = l[ i ].find( '=' );
                    const std::string k = l[ i ].substr( 0, eq ), v = eq == std::string::npos ? "" : l[ i ].substr( eq + 1 );
                    const int         n = static_cast< int >( std::strtol( v.c_str(), nullptr, 0 ) );
                    if ( k == "type" ) o.type = n & 15;
                    else if ( k == "len" ) o.lenf = n & 255;
                    else if ( k == "size" ) o.blen = std::max( 0, std::min( n, 40 ) );
                    else if ( k == "hbits" ) o.hbits = n & 3;
                    else if ( k == "adva" ) o.adva = adva_parse( v );
                    else if ( k == "rxadd" ) o.rxbad = v == "bad";
                    else if ( k == "init" ) o.init = v == "proper" ? INIT_PROPER : ( ( n % 6 ) + 6 ) % 6;
                    else if ( k == "lldata" )
                    {
                        o.bytes = verif::unhex( v );
                        o.bytes.resize( 22, 0 );
                    }
                }
            }
            else
                o.a = static_cast< int >( verif::tok_int( l, 1 ) );
            c.ops.push_back( o );
        }
        return c;
    }

    // ------------------------------------------------------------------------------------------ reference
    struct Model
    {
        const caps&        c;
        bool               ran = false;
        addr_t             own{};
        std::set< addr_t > wl;
        bool               cfilter = false, sfilter = false;
        bool               target_valid = false;
        addr_t             target{};
        std::set< addr_t > targets_ever;
        int                type_prop;
        int                last_code = -1;  // PDU type of the previous advertisement of this advertising period

        explicit Model( const caps& cc ) : c( cc ), type_prop( cc.types[ 0 ] ) {}

        bool in_conn_filter( const addr_t& a ) const { return c.wl_size == 0 || !cfilter || wl.count( a ) != 0; }
        bool in_scan_filter( const addr_t& a ) const { return c.wl_size == 0 || !sfilter || wl.count( a ) != 0; }
        bool should_advertise() const { return ran && ( type_prop != T_DIRECTED || target_valid ); }
    };

    struct verdict
    {
        bool        must_connect = false, must_not_connect = false;
        int         broken       = 0;   // number of aspects that keep the PDU from being an acceptable connect request
        std::string reason;             // the first of them
        addr_t      init{};
        bool        sized = false;
    };

    struct Runner
    {
        const Case&                  cs;
        verif::Report&               rep;
        std::unique_ptr< device_if > dev;
        Model                        m;
        std::size_t                  seen_adv = 0, seen_evt = 0, seen_cb = 0, step = 0;
        bool                         excl_stall, excl_overflow;
        std::set< std::string >      labels;
        unsigned                     one_aspect = 0, accepted = 0, rejected = 0;

        Runner( const Case& c, verif::Report& r )
            : cs( c ), rep( r ), dev( configs()[ c.cfg ].make() ), m( dev->cap() ), excl_stall( verif::opt_has( "exclude", "F-25b" ) ),
              excl_overflow( verif::opt_has( "exclude", "F-22b" ) )
        {
        }

        std::string where() const { return verif::cat( "step ", step, " (", op_names[ cs.ops[ step ].kind ], "): " ); }
        std::size_t gap() const { return dev->cap().hdr_gap(); }
        bool        adv_pending() { return dev->log().pending == P_ADV; }
        unsigned    advertised_code() { return dev->log().advs.back().adv[ 0 ] & 0x0f; }
        std::string cfg_sig() { return verif::cat( "adv=", advertised_code(), " cfg=", dev->cap().name ); }

        // ---- what the link layer hands to the radio
        void check_adv_pdu( const adv_rec& a )
        {
            const caps& c = dev->cap();
            V_CHECK( !a.while_busy, "adv.schedule-while-radio-busy", where(), "schedule_advertisment() called while the radio was busy" );
            V_CHECK( a.adv.size() >= 2 + gap() + 6, "adv.pdu", where(), "advertising data of ", a.adv.size(), " octets" );
            const unsigned code = a.adv[ 0 ] & 0x0f, lenf = a.adv[ 1 ] & 0x3f;
            std::set< unsigned > allowed{ pdu_code_of( m.type_prop ) };
            if ( c.multi() && m.last_code >= 0 )
                allowed.insert( static_cast< unsigned >( m.last_code ) );  // documented: a new type is used after the next (re)start
            V_CHECK_SIG( allowed.count( code ), "adv.pdu-type", verif::cat( "code=", code ), where(), "advertising PDU type ", code, " but the configured advertising type is ",
                type_name( m.type_prop ) );
            V_CHECK( lenf >= 6 && lenf <= 37, "adv.pdu", where(), "advertising PDU length field ", lenf );
            const std::uint8_t* body = &a.adv[ 2 + gap() ];
            V_CHECK_SIG( std::equal( m.own.b, m.own.b + 6, body ) && bool( a.adv[ 0 ] & 0x40 ) == m.own.random, "adv.pdu-address", cfg_sig(), where(),
                "AdvA / TxAdd of the advertising PDU (", verif::hex( body, 6 ), ", TxAdd ", bool( a.adv[ 0 ] & 0x40 ), ") is not the own address ", verif::hex( m.own.b, 6 ),
                m.own.random ? " (random)" : " (public)" );
            if ( code == 1 )
            {
                V_CHECK( lenf == 12, "adv.pdu", where(), "ADV_DIRECT_IND with length ", lenf );
                addr_t t;
                std::copy( body + 6, body + 12, t.b );
                t.random = a.adv[ 0 ] & 0x80;
                V_CHECK_SIG( m.targets_ever.count( t ), "adv.pdu-address", cfg_sig(), where(), "ADV_DIRECT_IND is addressed to ", verif::hex( t.b, 6 ), " RxAdd ", t.random,
                    " which was never configured as directed advertising address" );
            }
            // scan response data: the bindings answer a scan request only with this buffer and compare the request with the address in it
            if ( code == 0 || code == 6 )
            {
                V_CHECK_SIG( !a.rsp_null && a.rsp.size() >= 2 + gap() + 6, "scan.response-data", cfg_sig(), where(), "no scan response data for a scannable advertising type" );
                const unsigned rlen = a.rsp[ 1 ] & 0x3f;
                // (the content behind the address and the size of the buffer are not part of this property)
                V_CHECK_SIG( ( a.rsp[ 0 ] & 0x0f ) == 4 && rlen >= 6 && rlen <= 37, "scan.response-data", cfg_sig(), where(), "scan response header ",
                    verif::hex( a.rsp.data(), 2 ) );
                V_CHECK_SIG( std::equal( m.own.b, m.own.b + 6, &a.rsp[ 2 + gap() ] ) && bool( a.rsp[ 0 ] & 0x40 ) == m.own.random, "scan.response-data", cfg_sig(), where(),
                    "AdvA / TxAdd of the scan response (", verif::hex( &a.rsp[ 2 + gap() ], 6 ), ", TxAdd ", bool( a.rsp[ 0 ] & 0x40 ), ") is not the own address" );
            }
            else
                V_CHECK_SIG( a.rsp_null, "scan.response-data", cfg_sig(), where(), "scan response data handed to the radio for the advertising PDU type ", code,
                    " which is not scannable" );
            m.last_code = static_cast< int >( code );
        }

        // expect_adv / expect_evt: -1 do not care, 0 none, 1 exactly one
        void settle( int expect_adv, int expect_evt, const char* oracle_missing, const std::string& sig, const char* why )
        {
            radio_log&        L       = dev->log();
            const std::size_t new_adv = L.advs.size() - seen_adv, new_evt = L.evts.size() - seen_evt;
            V_CHECK( new_adv + new_evt <= 1, "adv.double-schedule", where(), new_adv, " advertisements and ", new_evt, " connection events scheduled by one call" );
            if ( expect_adv == 0 )
                V_CHECK( new_adv == 0, "adv.unexpected-advertisement", where(), "an advertisement was scheduled although ", why );
            if ( expect_adv == 1 )
                V_CHECK_SIG( new_adv == 1, oracle_missing, sig, where(), "no advertisement was scheduled although ", why );
            if ( expect_evt == 0 )
                V_CHECK( new_evt == 0, "conn.unexpected-connection-event", where(), "a connection event was scheduled although ", why );
            if ( new_adv )
                check_adv_pdu( L.advs.back() );
            seen_adv = L.advs.size();
            seen_evt = L.evts.size();
        }

        void settle_quiet( const char* why ) { settle( 0, 0, "adv.missing-advertisement", "", why ); }

        // radio_was_busy: the radio had something scheduled before the call
        void settle_start( const char* why, bool radio_was_busy = false )
        {
            m.last_code = -1;
            if ( radio_was_busy )
                settle_quiet( "an advertisement is in flight" );
            else if ( m.should_advertise() )
                settle( 1, 0, "adv.missing-advertisement", "", why );
            else
                settle_quiet( "no directed advertising address is set" );
        }

        // ---- the received PDU
        std::vector< std::uint8_t > build_req( const Op& o, bool force_valid_lldata )
        {
            addr_t init;
            if ( o.init == INIT_PROPER )
            {
                if ( advertised_code() == 1 && m.target_valid )
                    init = m.target;
                else if ( dev->cap().wl_size && m.cfilter && !m.wl.empty() )
                    init = *m.wl.begin();
                else
                    init = peer( 0 );
            }
            else
                init = peer( o.init );
            addr_t adva = m.own;
            if ( o.adva == ADVA_OTHER )
                adva = peer( 4 );
            else if ( o.adva != ADVA_OWN )
                adva.b[ ( o.adva - 1 ) / 8 ] ^= static_cast< std::uint8_t >( 1 << ( ( o.adva - 1 ) % 8 ) );
            const bool                  rxadd = o.rxbad ? !m.own.random : m.own.random;
            std::vector< std::uint8_t > body( init.b, init.b + 6 );
            body.insert( body.end(), adva.b, adva.b + 6 );
            const auto lld = force_valid_lldata ? default_lldata() : o.bytes;
            body.insert( body.end(), lld.begin(), lld.end() );
            body.resize( static_cast< std::size_t >( o.blen ), 0x55 );
            const std::uint8_t h0 = static_cast< std::uint8_t >( ( o.type & 15 ) | ( ( o.hbits & 3 ) << 4 ) | ( init.random ? 0x40 : 0 ) | ( rxadd ? 0x80 : 0 ) );
            // a PDU shorter than header + gap is delivered as far as it goes
            return to_memory( h0, static_cast< std::uint8_t >( o.lenf ), body, gap() );
        }

        // the reference decision, from the bytes alone
        verdict judge( const std::vector< std::uint8_t >& mem )
        {
            verdict           v;
            const unsigned    adv_code = advertised_code();
            const std::uint8_t h0 = mem[ 0 ], h1 = mem[ 1 ];
            const std::size_t body_at = 2 + gap();
            auto              broke   = [&]( const char* what ) {
                if ( v.broken++ == 0 )
                    v.reason = what;
            };
            const bool grey_len = ( h1 & 0xc0 ) != 0 && ( h1 & 0x3f ) == 34;  // RFU bits (4.x) / length 98..226 (5.x)
            if ( ( h0 & 0x0f ) != 5 )
                broke( "pdu-type" );
            if ( ( h1 & 0x3f ) != 34 )
                broke( "length-field" );
            if ( mem.size() != body_at + 34 )
                broke( "received-size" );
            v.sized        = mem.size() == body_at + 34;
            bool params_ok = false;
            if ( v.sized )
            {
                const std::uint8_t* body = &mem[ body_at ];
                std::copy( body, body + 6, v.init.b );
                v.init.random = h0 & 0x40;
                if ( !std::equal( m.own.b, m.own.b + 6, body + 6 ) )
                    broke( "adva" );
                if ( bool( h0 & 0x80 ) != m.own.random )
                    broke( "rxadd" );
                if ( adv_code == 1 && !( m.target_valid && v.init == m.target ) )
                    broke( "not-the-directed-target" );
                if ( !m.in_conn_filter( v.init ) )
                    broke( "connection-filter" );
                params_ok = lldata_always_valid( parse_lldata( body + 12 ) );
            }
            if ( adv_code != 0 && adv_code != 1 )
                broke( "advertising-type-not-connectable" );
            if ( v.broken == 0 && grey_len )
                v.reason = "length-field-rfu-bits";  // valid for a 4.x receiver (RFU bits are ignored), too long for a 5.x receiver
            else if ( v.broken == 0 && !params_ok )
                v.reason = "parameters-not-asserted";
            v.must_connect     = v.broken == 0 && params_ok && !grey_len;
            v.must_not_connect = v.broken > 0;
            return v;
        }

        // known finding of C22 (if listed as open with exclude=F-22b): ( latency + 1 ) * 2 * interval overflows the 32 bit
        // microseconds of delta_time (assert in delta_time::operator*=); such parameters are replaced by latency 499
        void avoid_latency_overflow( std::vector< std::uint8_t >& mem )
        {
            const std::size_t body_at = 2 + gap();
            if ( !excl_overflow || mem.size() != body_at + 34 )
                return;
            std::uint8_t* l = &mem[ body_at + 12 ];
            if ( ( std::uint64_t( get16( l + 12 ) ) + 1 ) * get16( l + 10 ) * 2500 > 0xffffffffull )
            {
                l[ 12 ]      = 0xf3;
                l[ 13 ]      = 0x01;
                rep.excluded = true;
            }
        }

        void deliver( std::vector< std::uint8_t > mem, const char* kind )
        {
            avoid_latency_overflow( mem );
            const verdict     v      = judge( mem );
            const std::string sig    = verif::cat( "reason=", v.broken == 0 ? ( v.must_connect ? "none" : v.reason ) : v.reason, " ", cfg_sig() );
            const std::size_t cb_before = cb_log().size();
            dev->adv_received( mem );
            radio_log&        L         = dev->log();
            const bool        connected = L.evts.size() != seen_evt;

            if ( v.must_connect )
                V_CHECK_SIG( connected, "conn.valid-request-ignored", sig, where(), "a valid connect request from ", verif::hex( v.init.b, 6 ), v.init.random ? " (random)" : " (public)",
                    " was not answered with a connection (advertising PDU type ", advertised_code(), ")" );
            if ( v.must_not_connect )
                V_CHECK_SIG( !connected, "conn.invalid-request-accepted", sig, where(), "a connection was entered although: ", v.reason, " (", v.broken,
                    " aspect(s) wrong); PDU ", verif::hex( mem ) );

            labels.insert( std::string( kind ) + ( v.broken == 0 ? ( v.must_connect ? ":valid" : ":0:" + v.reason ) : v.broken == 1 ? ":1:" + v.reason : ":n-aspects" ) );
            if ( v.broken == 1 )
                ++one_aspect;

            if ( connected )
            {
                ++accepted;
                settle( 0, 1, "", "", "a connection was entered" );
                V_CHECK_SIG( cb_log().size() == cb_before + 1 && cb_log().back().what == "requested", "conn.callback", sig, where(), "expected exactly the connection requested callback" );
                const cb_entry& e = cb_log().back();
                V_CHECK_SIG( from_dev( e.remote ) == v.init && from_dev( e.local ) == m.own, "conn.reported-addresses", sig, where(), "connection reported between ",
                    verif::hex( from_dev( e.local ).b, 6 ), " and ", verif::hex( from_dev( e.remote ).b, 6 ), e.remote.is_random() ? " (random)" : " (public)", "; InitA was ",
                    verif::hex( v.init.b, 6 ), v.init.random ? " (random)" : " (public)" );
                // the central never shows up
                int guard = 0;
                while ( dev->log().pending == P_EVT && ++guard < 100 )
                {
                    dev->conn_timeout();
                    if ( dev->log().pending == P_EVT )
                        settle( 0, 1, "", "", "connection event timed out" );
                }
                V_CHECK( guard < 100, "conn.attempt-never-ends", where(), "no connection attempt timeout after 100 missed connection events" );
                settle_start( "the connection attempt timed out" );
            }
            else
            {
                ++rejected;
                V_CHECK_SIG( cb_log().size() == cb_before, "conn.callback", sig, where(), "a connection callback was called without a connection" );
                settle( 1, 0, "adv.stalled-after-request", sig, "the received PDU did not lead to a connection" );
            }
        }

        void run()
        {
            const caps& c = dev->cap();
            cb_log().clear();
            rep.label( "cfg=" + c.name );
            m.own = from_dev( dev->local_address() );

            for ( step = 0; step != cs.ops.size(); ++step )
            {
                const Op& o = cs.ops[ step ];
                switch ( o.kind )
                {
                case O_OWN:
                    if ( m.ran || o.a % 3 == 0 )
                        break;
                    {
                        addr_t a;
                        std::copy( o.bytes.begin(), o.bytes.begin() + 6, a.b );
                        a.random = o.a % 3 == 2;
                        dev->local_address( a.dev() );
                        m.own = a;
                    }
                    break;

                case O_RUN:
                    if ( m.ran )
                        break;
                    rep.label( m.own.random ? "own=random" : "own=public" );
                    dev->run();
                    m.ran = true;
                    settle_start( "run() was called" );
                    break;

                case O_T:
                    if ( !adv_pending() )
                        break;
                    dev->adv_timeout();
                    settle( 1, 0, "adv.missing-advertisement", "", "the advertisement timed out" );
                    break;

                case O_SCAN: {
                    if ( !adv_pending() )
                        break;
                    const addr_t scanner = peer( o.a );
                    const bool   got = dev->in_scan_filter( scanner.dev() ), expected = m.in_scan_filter( scanner );
                    V_CHECK_SIG( got == expected, "scan.filter", verif::cat( "filter=", m.sfilter, " listed=", m.wl.count( scanner ) ), where(), "is_scan_request_in_filter( ",
                        verif::hex( scanner.b, 6 ), scanner.random ? " random" : " public", " ) is ", got, "; scan filter ", m.sfilter ? "on" : "off", ", white list ",
                        m.wl.count( scanner ) ? "contains" : "does not contain", " the scanner" );
                    labels.insert( expected ? "scan:answered" : "scan:filtered" );
                    // the radio answers (or not) and reports the end of the advertisement
                    dev->adv_timeout();
                    settle( 1, 0, "adv.missing-advertisement", "", "the advertisement ended with a scan request" );
                }
                break;

                case O_REQ: {
                    if ( !adv_pending() )
                        break;
                    bool force = false;
                    if ( excl_stall )
                    {
                        // known finding F-25b: an otherwise acceptable request with unacceptable parameters ends advertising
                        const verdict v = judge( build_req( o, false ) );
                        if ( v.broken == 0 && !v.must_connect )
                        {
                            force        = true;
                            rep.excluded = true;
                        }
                    }
                    deliver( build_req( o, force ), "req" );
                }
                break;

                case O_RAW: {
                    if ( !adv_pending() )
                        break;
                    std::vector< std::uint8_t > mem = o.bytes;
                    if ( mem.size() < 2 + gap() )
                        mem.resize( 2 + gap(), 0 );  // a radio always delivers the header in the layout of the radio
                    if ( excl_stall )
                    {
                        const verdict v = judge( mem );
                        if ( v.broken == 0 && !v.must_connect )
                            break;
                    }
                    deliver( mem, "raw" );
                }
                break;

                case O_WLADD:
                case O_WLREM: {
                    if ( !c.wl_size )
                        break;
                    const addr_t a = peer( o.a );
                    if ( o.kind == O_WLADD )
                    {
                        const bool expected = m.wl.count( a ) || m.wl.size() < static_cast< std::size_t >( c.wl_size );
                        const bool got      = dev->wl_add( a.dev() );
                        V_CHECK( got == expected, "wl.add-result", where(), "add_to_white_list returned ", got );
                        if ( expected )
                            m.wl.insert( a );
                    }
                    else
                    {
                        const bool expected = m.wl.count( a ) != 0;
                        const bool got      = dev->wl_remove( a.dev() );
                        V_CHECK( got == expected, "wl.remove-result", where(), "remove_from_white_list returned ", got );
                        m.wl.erase( a );
                    }
                    settle_quiet( "only the white list was changed" );
                }
                break;

                case O_WLCLEAR:
                    if ( !c.wl_size )
                        break;
                    dev->wl_clear();
                    m.wl.clear();
                    settle_quiet( "only the white list was changed" );
                    break;

                case O_CFILTER:
                    if ( !c.wl_size )
                        break;
                    dev->conn_filter( o.a != 0 );
                    m.cfilter = o.a != 0;
                    settle_quiet( "only the filter was changed" );
                    break;

                case O_SFILTER:
                    if ( !c.wl_size )
                        break;
                    dev->scan_filter( o.a != 0 );
                    m.sfilter = o.a != 0;
                    settle_quiet( "only the filter was changed" );
                    break;

                case O_DADDR: {
                    if ( !c.has_type( T_DIRECTED ) )
                        break;
                    const bool was_valid = m.target_valid;
                    m.target             = peer( o.a );
                    m.target_valid       = true;
                    m.targets_ever.insert( m.target );
                    const bool busy = dev->log().pending != P_IDLE;
                    dev->directed_address( m.target.dev() );
                    if ( m.ran && !was_valid && m.type_prop == T_DIRECTED )
                        settle_start( "the directed advertising address was set", busy );
                    else
                        settle_quiet( "only the directed advertising address was changed" );
                }
                break;

                case O_TYPE: {
                    const int t = ( ( o.a % 4 ) + 4 ) % 4;
                    if ( !c.multi() || !c.has_type( t ) )
                        break;
                    if ( t == T_DIRECTED && !m.target_valid )
                        break;
                    if ( m.ran && dev->log().pending == P_IDLE )
                    {
                        // waiting for the directed advertising address: not specified what a change of the type does now
                        labels.insert( "skip:type-change-while-waiting-for-target" );
                        break;
                    }
                    dev->change_type( t );
                    m.type_prop = t;
                    settle_quiet( "only the advertising type was changed" );
                    labels.insert( std::string( "change-to-" ) + type_name( t ) );
                }
                break;
                }
            }

            for ( auto& l : labels )
                rep.label( l );
            rep.label_if( m.cfilter && !m.wl.empty(), "connection-filter-on" );
            rep.label_if( accepted > 0, "some-accepted" );
            rep.label_if( accepted == 0 && rejected == 0, "no-request" );
            rep.nontrivial = one_aspect > 0;
        }
    };

    void run( const Case& c, verif::Report& rep )
    {
        Runner r( c, rep );
        r.run();
    }
}

// bluetoe does not allocate; a small quarantine keeps the page fault load of 16 parallel workers low
extern "C" const char* __asan_default_options() { return "quarantine_size_mb=8"; }

int main( int argc, char** argv )
{
    verif::Harness< Case > h{ gen_case, to_text, from_text, run };
    return verif::run_main( argc, argv, h );
}
