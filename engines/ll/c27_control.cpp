// C27: link control PDUs get the specified responses (DESIGN.md section 4, C27)
//
// Generated: a link layer configuration, connection parameters and a history of
//   pdu   an LL control PDU (every opcode x length x payload; several per connection event with md=1; instants are
//         placed relative to the connection event counter of the event the PDU is sent in)
//   idle  n connection events with empty PDUs         miss  n connection events without reception (timeout)
//   noack the central does not acknowledge for n events (the peripheral's transmit buffer fills, received PDUs queue)
//   app   remote_versions_request / connection_parameter_update_request / initiating_connection_parameter_request /
//         phy_update_request (only while the reference model has no own procedure outstanding)
// Oracle (reference table written from Core Vol 6 Part B 2.4.2 / 5.1, not from bluetoe):
//   * the stream of control PDUs the peripheral transmits is matched in order against the responses the received stream
//     requires: a request gets its response, unknown / wrong length gets LL_UNKNOWN_RSP(opcode) (a wrong length may also
//     end the link), LL_UNKNOWN_RSP / LL_REJECT_IND / LL_REJECT_EXT_IND never get an answer, a single LL_VERSION_IND is
//     sent as response per connection, LL_FEATURE_RSP carries supported AND offered;
//   * a peripheral initiated procedure that is not answered ends the link with reason 0x22 not earlier than 40 s after
//     the request was queued and not later than the second radio callback 40 s after it was transmitted; an answer in
//     time prevents that; no link ends without a cause the model knows.
#include "verif.hpp"

#include "c27_llbase.hpp"

llh::cb_t llh::g_cb;

namespace {

    using namespace llh;

    // ------------------------------------------------------------------------------------------ configurations
    std::uint8_t v_open = 42;
    std::uint8_t v_prot = 17;

    using srv_plain = bluetoe::server< bluetoe::service< bluetoe::service_uuid16< 0x1815 >,
        bluetoe::characteristic< bluetoe::characteristic_uuid16< 0x2A01 >, bluetoe::bind_characteristic_value< decltype( v_open ), &v_open >, bluetoe::notify > > >;

    using srv_enc = bluetoe::server< bluetoe::service< bluetoe::service_uuid16< 0x1815 >,
        bluetoe::characteristic< bluetoe::characteristic_uuid16< 0x2A01 >, bluetoe::bind_characteristic_value< decltype( v_prot ), &v_prot >, bluetoe::requires_encryption >,
        bluetoe::characteristic< bluetoe::characteristic_uuid16< 0x2A02 >, bluetoe::bind_characteristic_value< decltype( v_open ), &v_open >, bluetoe::notify > > >;

    struct acb_t
    {
        unsigned fired = 0;
        void     ll_remote_connection_parameter_request( std::uint16_t, std::uint16_t, std::uint16_t, std::uint16_t ) { ++fired; }
    } acb;

    using ll0 = ll::link_layer< srv_plain, verif_radio, callbacks_option, address_option >;
    using ll1 = ll::link_layer< srv_enc, verif_radio, callbacks_option, address_option, ll::desired_connection_parameters< 8, 80, 0, 4, 50, 400 >,
        ll::buffer_sizes< 200, 200 > >;
    using ll2 = ll::link_layer< srv_plain, verif_radio, callbacks_option, address_option, ll::asynchronous_connection_parameter_request< acb_t, acb >,
        bluetoe::l2cap::signaling_channel<>, ll::buffer_sizes< 100, 100 > >;

    template < class LL >
    struct dev_async : dev_impl< LL >
    {
        void async_reply( bool pos, unsigned a, unsigned b, unsigned c, unsigned e, unsigned reason ) override
        {
            if ( pos )
                this->d.connection_parameters_request_reply( a, b, c, e );
            else
                this->d.connection_parameters_request_negative_reply( static_cast< std::uint8_t >( reason ) );
        }
    };

    struct config
    {
        const char*                                  name;
        bool                                         security, async;
        std::function< std::unique_ptr< dev_if >() > make;
    };

    const std::vector< config >& configs()
    {
        static const std::vector< config > c = {
            { "plain", false, false, [] { return std::unique_ptr< dev_if >( new dev_impl< ll0 >() ); } },
            { "security+desired-params", true, false, [] { return std::unique_ptr< dev_if >( new dev_impl< ll1 >() ); } },
            { "async-params+signaling", false, true, [] { return std::unique_ptr< dev_if >( new dev_async< ll2 >() ); } },
        };
        return c;
    }

    // ------------------------------------------------------------------------------------------ case
    enum { OP_PDU, OP_IDLE, OP_MISS, OP_NOACK, OP_APP };
    enum { APP_VER, APP_CPR, APP_ICPR, APP_PHY };
    constexpr int no_rel = -100000;

    struct Op
    {
        int      kind   = OP_IDLE;
        int      opcode = 0;
        bytes    body;            // payload after the opcode
        int      rel = no_rel;    // instant = event counter + rel for the instant carrying PDUs
        bool     md  = false;     // the next pdu op is sent in the same connection event
        int      ar  = 1;         // async configuration: 1 = positive reply, 0 = negative reply of the application
        int      n   = 1;
        int      app = APP_VER;
        unsigned a = 6, b = 6, c = 0, e = 300;
    };

    struct Case
    {
        bool              strict_radio = false;   // replay of F-27b: the radio behaves like the hardware bindings when the receive ring is full
        int               cfg = 0;
        conn_params       p;
        std::vector< Op > ops;
    };

    // LL control PDU payload lengths (opcode included) by the specification, 0 = opcode not defined / reserved
    int spec_len( int opcode )
    {
        static const int len[] = { 12, 8, 2, 23, 13, 1, 1, 2, 9, 9, 1, 1, 6, 2, 9, 24, 24, 3, 1, 1, 9, 9, 3, 3, 5, 3, 2, 1, 35, 2, 2 };
        return opcode >= 0 && opcode < static_cast< int >( sizeof len / sizeof len[ 0 ] ) ? len[ opcode ] : 0;
    }

    // opcodes whose meaning is "response" or "reject": nothing in the specification demands an answer to them
    bool response_class( int opcode )
    {
        switch ( opcode )
        {
        case 0x04: case 0x06: case 0x07: case 0x09: case 0x0B: case 0x0D: case 0x10: case 0x11: case 0x13: case 0x15: case 0x17: case 0x1B: case 0x1E:
        case 0x20: case 0x24:
            return true;
        }
        return false;
    }

    void put16( bytes& b, std::size_t off, unsigned v )
    {
        if ( off + 1 < b.size() )
        {
            b[ off ]     = static_cast< std::uint8_t >( v );
            b[ off + 1 ] = static_cast< std::uint8_t >( v >> 8 );
        }
    }

    Op make_pdu( int shape, bytes raw, int k1, int k2, const conn_params& up, bool md, int ar )
    {
        Op o;
        o.kind = OP_PDU;
        o.md   = md;
        o.ar   = ar;
        raw.resize( 26 );
        auto take = [&]( std::size_t n ) { return bytes( raw.begin(), raw.begin() + static_cast< long >( n ) ); };
        switch ( shape )
        {
        case 0:   // LL_PING_REQ
            o.opcode = 0x12;
            break;
        case 1:   // LL_FEATURE_REQ
            o.opcode = 0x08;
            o.body   = take( 8 );
            break;
        case 2:   // LL_VERSION_IND
            o.opcode    = 0x0C;
            o.body      = take( 5 );
            o.body[ 0 ] = static_cast< std::uint8_t >( 4 + k1 % 9 );
            break;
        case 3:   // LL_PHY_REQ
            o.opcode = 0x16;
            o.body   = { static_cast< std::uint8_t >( k1 & 7 ), static_cast< std::uint8_t >( k2 & 7 ) };
            break;
        case 4:   // LL_CONNECTION_PARAM_REQ, valid parameters
        case 5:   // ... random parameters
            o.opcode = 0x0F;
            o.body   = take( 23 );
            if ( shape == 4 )
            {
                put16( o.body, 0, up.interval );
                put16( o.body, 2, up.interval + static_cast< unsigned >( k1 % 3 ) );
                put16( o.body, 4, up.latency );
                put16( o.body, 6, up.timeout );
            }
            break;
        case 6: {   // known opcode, wrong length
            static const int known[] = { 0x00, 0x01, 0x02, 0x03, 0x08, 0x0A, 0x0C, 0x0F, 0x12, 0x16, 0x18, 0x0D, 0x11, 0x06, 0x0B };
            o.opcode                 = known[ k1 % 15 ];
            int len                  = 1 + k2 % 27;
            if ( len == spec_len( o.opcode ) )
                len = len == 27 ? 26 : len + 1;
            o.body = take( static_cast< std::size_t >( len - 1 ) );
            if ( o.opcode == 0x00 || o.opcode == 0x01 || o.opcode == 0x18 )
                o.rel = 2 + k2 % 6;
        }
        break;
        case 7: {   // opcode that is not supported (request class), any length
            static const int unk[] = { 0x05, 0x0E, 0x14, 0x19, 0x1A, 0x1C, 0x1D, 0x1F, 0x21, 0x22, 0x23, 0x25, 0x26, 0x27, 0x28, 0x29, 0x2A, 0x2B, 0x2C, 0x2D, 0x2E, 0x2F, 0x30 };
            o.opcode               = unk[ k1 % 23 ];
            const int sl           = spec_len( o.opcode );
            const int len          = ( k2 & 1 ) && sl > 0 && sl <= 27 ? sl : 1 + ( k2 / 2 ) % 27;
            o.body                 = take( static_cast< std::size_t >( len - 1 ) );
        }
        break;
        case 8: {   // response class opcode
            static const int rsp[] = { 0x04, 0x09, 0x10, 0x13, 0x15, 0x17, 0x1B, 0x1E, 0x20, 0x24 };
            o.opcode               = rsp[ k1 % 10 ];
            const int sl           = spec_len( o.opcode );
            const int len          = ( k2 & 1 ) && sl > 0 ? sl : 1 + ( k2 / 2 ) % 27;
            o.body                 = take( static_cast< std::size_t >( len - 1 ) );
        }
        break;
        case 9: {   // well formed reject / unknown response, often naming an opcode the peripheral can have sent
            static const int named[] = { 0x0F, 0x16, 0x0C, 0x0F, 0x16, 0x0C, 0x14, 0x03 };
            const int        n       = k2 % 9 == 8 ? raw[ 0 ] : named[ k2 % 8 ];
            switch ( k1 % 3 )
            {
            case 0: o.opcode = 0x0D; o.body = { raw[ 1 ] }; break;
            case 1: o.opcode = 0x11; o.body = { static_cast< std::uint8_t >( n ), raw[ 1 ] }; break;
            default: o.opcode = 0x07; o.body = { static_cast< std::uint8_t >( n ) }; break;
            }
        }
        break;
        case 10:   // LL_UNKNOWN_RSP with a wrong length
            o.opcode = 0x07;
            o.body   = take( static_cast< std::size_t >( k1 % 2 ? 0 : 2 + k2 % 20 ) );
            break;
        case 11:   // LL_CONNECTION_UPDATE_IND
            o.opcode    = 0x00;
            o.body      = take( 11 );
            o.body[ 0 ] = static_cast< std::uint8_t >( up.win_size );
            put16( o.body, 1, up.win_offset );
            put16( o.body, 3, up.interval );
            put16( o.body, 5, up.latency );
            put16( o.body, 7, up.timeout );
            o.rel = 2 + k1 % 8;
            break;
        case 12:   // LL_CHANNEL_MAP_IND
            o.opcode = 0x01;
            o.body   = take( 7 );
            o.body[ 0 ] |= 3;
            o.body[ 4 ] &= 0x1f;
            o.rel = 2 + k1 % 8;
            break;
        case 13:   // LL_PHY_UPDATE_IND
            o.opcode = 0x18;
            o.body   = { static_cast< std::uint8_t >( k1 % 3 ), static_cast< std::uint8_t >( ( k1 / 3 ) % 3 ), 0, 0 };
            o.rel    = 2 + k2 % 8;
            break;
        case 14:   // encryption procedure PDUs
            switch ( k1 % 4 )
            {
            case 0: o.opcode = 0x03; o.body = take( 22 ); break;
            case 1: o.opcode = 0x06; break;
            case 2: o.opcode = 0x0A; break;
            default: o.opcode = 0x0B; break;
            }
            break;
        case 15:   // LL_TERMINATE_IND
            o.opcode = 0x02;
            o.body   = { raw[ 0 ] };
            break;
        default:   // anything
            o.opcode = raw[ 0 ];
            o.body   = take( static_cast< std::size_t >( k1 % 27 ) );
            // well formed connection updates / channel maps with arbitrary parameters belong to C21 / C22
            if ( ( o.opcode == 0x00 && o.body.size() == 11 ) || ( o.opcode == 0x01 && o.body.size() == 7 ) || ( o.opcode == 0x18 && o.body.size() == 4 ) )
                o.opcode = 0x19;
            break;
        }
        return o;
    }

    rc::Gen< Op > gen_pdu()
    {
        return rc::gen::map(
            rc::gen::tuple(
                rc::gen::weightedElement< int >( { { 5, 0 }, { 6, 1 }, { 5, 2 }, { 4, 3 }, { 4, 4 }, { 2, 5 }, { 14, 6 }, { 8, 7 }, { 5, 8 }, { 8, 9 }, { 3, 10 }, { 5, 11 },
                    { 2, 12 }, { 4, 13 }, { 4, 14 }, { 1, 15 }, { 4, 16 } } ),
                rc::gen::container< bytes >( 26, rc::gen::arbitrary< std::uint8_t >() ), verif::range< int >( 0, 255 ), verif::range< int >( 0, 255 ), gen_params( true ),
                rc::gen::weightedElement< int >( { { 3, 0 }, { 2, 1 } } ), verif::range< int >( 0, 1 ) ),
            []( const std::tuple< int, bytes, int, int, conn_params, int, int >& t ) {
                return make_pdu( std::get< 0 >( t ), std::get< 1 >( t ), std::get< 2 >( t ), std::get< 3 >( t ), std::get< 4 >( t ), std::get< 5 >( t ) != 0, std::get< 6 >( t ) );
            } );
    }

    rc::Gen< Op > gen_op( const conn_params& p )
    {
        const long per_40s = 40000000l / static_cast< long >( p.interval * 1250ul * ( p.latency + 1 ) );
        auto       simple  = []( int kind, rc::Gen< int > n ) {
            return rc::gen::map( std::move( n ), [ kind ]( int v ) {
                Op o;
                o.kind = kind;
                o.n    = v;
                return o;
            } );
        };
        auto app = rc::gen::map( rc::gen::tuple( rc::gen::weightedElement< int >( { { 3, APP_VER }, { 2, APP_CPR }, { 2, APP_ICPR }, { 2, APP_PHY } } ), verif::range< int >( 0, 255 ),
                                      gen_params( true ) ),
            []( const std::tuple< int, int, conn_params >& t ) {
                Op o;
                o.kind = OP_APP;
                o.app  = std::get< 0 >( t );
                if ( o.app == APP_PHY )
                {
                    o.a = 1 + std::get< 1 >( t ) % 2;
                    o.b = ( std::get< 1 >( t ) / 2 ) % 3;
                }
                else
                {
                    o.a = std::get< 2 >( t ).interval;
                    o.b = o.a + std::get< 1 >( t ) % 3;
                    o.c = std::get< 2 >( t ).latency;
                    o.e = std::get< 2 >( t ).timeout;
                }
                return o;
            } );
        return rc::gen::weightedOneOf< Op >( {
            { 56, gen_pdu() },
            { 12, simple( OP_IDLE, verif::range< int >( 1, 5 ) ) },
            { 7, simple( OP_IDLE, rc::gen::map( verif::range< int >( -3, 3 ), [ per_40s ]( int d ) { return static_cast< int >( std::max< long >( 1, std::min< long >( 6000, per_40s + d ) ) ); } ) ) },
            { 2, simple( OP_IDLE, rc::gen::map( verif::range< int >( 1, 3 ), [ per_40s ]( int d ) { return static_cast< int >( std::max< long >( 1, std::min< long >( 6000, per_40s * d / 4 ) ) ); } ) ) },
            { 3, simple( OP_MISS, verif::range< int >( 1, 3 ) ) },
            { 5, simple( OP_NOACK, verif::range< int >( 1, 4 ) ) },
            { 10, app },
        } );
    }

    rc::Gen< Case > gen_case()
    {
        return rc::gen::mapcat( rc::gen::tuple( verif::range< int >( 0, static_cast< int >( configs().size() ) - 1 ), gen_params( true ) ),
            []( const std::tuple< int, conn_params >& t ) {
                const int         cfg = std::get< 0 >( t );
                const conn_params p   = std::get< 1 >( t );
                return rc::gen::map( rc::gen::container< std::vector< Op > >( gen_op( p ) ), [ cfg, p ]( std::vector< Op > ops ) {
                    Case c;
                    c.cfg = cfg;
                    c.p   = p;
                    c.ops = std::move( ops );
                    return c;
                } );
            } );
    }

    std::string to_text( const Case& c );
    void        showValue( const Case& c, std::ostream& os ) { os << to_text( c ); }

    std::string to_text( const Case& c )
    {
        std::ostringstream os;
        if ( c.strict_radio )
            os << "param strict-radio=1\n";
        os << "cfg " << c.cfg << " " << params_text( c.p ) << "  # " << configs()[ c.cfg ].name << "\n";
        for ( auto& o : c.ops )
        {
            switch ( o.kind )
            {
            case OP_PDU:
                os << "pdu op=0x" << std::hex << o.opcode << std::dec << " body=" << verif::hex( o.body ) << " rel=" << ( o.rel == no_rel ? std::string( "-" ) : std::to_string( o.rel ) )
                   << " md=" << o.md << " ar=" << o.ar << "\n";
                break;
            case OP_IDLE: os << "idle " << o.n << "\n"; break;
            case OP_MISS: os << "miss " << o.n << "\n"; break;
            case OP_NOACK: os << "noack " << o.n << "\n"; break;
            case OP_APP:
                if ( o.app == APP_VER )
                    os << "app ver\n";
                else if ( o.app == APP_PHY )
                    os << "app phy " << o.a << " " << o.b << "\n";
                else
                    os << "app " << ( o.app == APP_CPR ? "cpr " : "icpr " ) << o.a << " " << o.b << " " << o.c << " " << o.e << "\n";
                break;
            }
        }
        return os.str();
    }

    Case from_text( const std::string& text )
    {
        Case         c;
        verif::Lines L( text );
        for ( auto& l : L.lines )
        {
            Op o;
            if ( l[ 0 ] == "param" )
            {
                c.strict_radio = kvi( l, "strict-radio", 0 ) != 0;
                continue;
            }
            if ( l[ 0 ] == "cfg" )
            {
                c.cfg = static_cast< int >( verif::tok_int( l, 1 ) ) % static_cast< int >( configs().size() );
                c.p   = params_from( l );
                continue;
            }
            else if ( l[ 0 ] == "pdu" )
            {
                o.kind              = OP_PDU;
                o.opcode            = static_cast< int >( kvi( l, "op", 0x12 ) ) & 0xff;
                o.body              = verif::unhex( kv( l, "body", "-" ) );
                const std::string r = kv( l, "rel", "-" );
                o.rel               = r == "-" ? no_rel : static_cast< int >( std::strtol( r.c_str(), nullptr, 0 ) );
                o.md                = kvi( l, "md", 0 ) != 0;
                o.ar                = static_cast< int >( kvi( l, "ar", 1 ) );
                if ( o.body.size() > 26 )
                    o.body.resize( 26 );
            }
            else if ( l[ 0 ] == "idle" || l[ 0 ] == "miss" || l[ 0 ] == "noack" )
            {
                o.kind = l[ 0 ] == "idle" ? OP_IDLE : l[ 0 ] == "miss" ? OP_MISS : OP_NOACK;
                o.n    = static_cast< int >( std::max< long >( 1, verif::tok_int( l, 1, 1 ) ) );
            }
            else if ( l[ 0 ] == "app" )
            {
                o.kind               = OP_APP;
                const std::string w  = verif::tok_str( l, 1, "ver" );
                o.app                = w == "cpr" ? APP_CPR : w == "icpr" ? APP_ICPR : w == "phy" ? APP_PHY : APP_VER;
                o.a                  = static_cast< unsigned >( verif::tok_int( l, 2, 6 ) );
                o.b                  = static_cast< unsigned >( verif::tok_int( l, 3, 6 ) );
                o.c                  = static_cast< unsigned >( verif::tok_int( l, 4, 0 ) );
                o.e                  = static_cast< unsigned >( verif::tok_int( l, 5, 300 ) );
            }
            else
                continue;
            c.ops.push_back( o );
        }
        return c;
    }

    // ------------------------------------------------------------------------------------------ reference model
    std::string pdu_text( const bytes& p )
    {
        return p.empty() ? std::string( "(empty)" ) : verif::cat( "opcode 0x", verif::hex( p.data(), 1 ), " len ", p.size(), " [", verif::hex( p ), "]" );
    }

    struct Expect
    {
        enum what_t { UNKNOWN_RSP, FEATURE_RSP, VERSION_IND, PING_RSP, PHY_RSP, PARAM_RSP, ENC_RSP, ENC_FOLLOW, START_ENC_RSP, PAUSE_ENC_RSP, UNSUPPORTED } what;
        int      req_opcode;
        bool     optional;      // zero or one PDU of this form
        bool     floating;      // may be overtaken by later responses (asynchronous application reply)
        bool     or_closed;     // the link may end instead
        unsigned sup_lo = 0, must_lo = 0, sup_rest = 0;   // FEATURE_RSP
        std::string describe() const
        {
            static const char* n[] = { "LL_UNKNOWN_RSP", "LL_FEATURE_RSP", "LL_VERSION_IND", "LL_PING_RSP", "LL_PHY_RSP", "LL_CONNECTION_PARAM_RSP or LL_REJECT_EXT_IND(0x0f)",
                "LL_ENC_RSP", "LL_START_ENC_REQ or a reject of LL_ENC_REQ", "LL_START_ENC_RSP", "LL_PAUSE_ENC_RSP", "LL_UNKNOWN_RSP or a reject" };
            return verif::cat( n[ what ], " for the received opcode 0x", std::hex, req_opcode, std::dec, optional ? " (optional)" : "" );
        }
        bool unknown_rsp( const bytes& o ) const { return o.size() == 2 && o[ 0 ] == 0x07 && o[ 1 ] == req_opcode; }
        bool reject_of( const bytes& o, int op ) const { return ( o.size() == 3 && o[ 0 ] == 0x11 && o[ 1 ] == op ) || ( o.size() == 2 && o[ 0 ] == 0x0D ); }
        bool matches( const bytes& o ) const
        {
            switch ( what )
            {
            case UNKNOWN_RSP: return unknown_rsp( o );
            case UNSUPPORTED: return unknown_rsp( o ) || reject_of( o, req_opcode );
            case FEATURE_RSP:
                if ( o.size() != 9 || o[ 0 ] != 0x09 )
                    return false;
                if ( ( o[ 1 ] & ~sup_lo ) != 0 || ( must_lo & ~o[ 1 ] ) != 0 )
                    return false;
                if ( ( o[ 2 ] & ~sup_rest ) != 0 )
                    return false;
                for ( std::size_t i = 3; i != 9; ++i )
                    if ( o[ i ] != 0 )
                        return false;
                return true;
            case VERSION_IND: return o.size() == 6 && o[ 0 ] == 0x0C;
            case PING_RSP: return o.size() == 1 && o[ 0 ] == 0x13;
            case PHY_RSP: return ( o.size() == 3 && o[ 0 ] == 0x17 ) || reject_of( o, 0x16 );
            case PARAM_RSP: return ( o.size() == 24 && o[ 0 ] == 0x10 ) || ( o.size() == 3 && o[ 0 ] == 0x11 && o[ 1 ] == 0x0F );
            case ENC_RSP: return o.size() == 13 && o[ 0 ] == 0x04;
            case ENC_FOLLOW: return ( o.size() == 1 && o[ 0 ] == 0x05 ) || reject_of( o, 0x03 );
            case START_ENC_RSP: return ( o.size() == 1 && o[ 0 ] == 0x06 ) || unknown_rsp( o ) || reject_of( o, 0x06 );
            case PAUSE_ENC_RSP: return ( o.size() == 1 && o[ 0 ] == 0x0B ) || unknown_rsp( o ) || reject_of( o, 0x0A );
            }
            return false;
        }
    };

    struct Own   // procedure initiated by the application of the peripheral
    {
        int           kind        = -1;       // APP_VER, APP_CPR (also ICPR), APP_PHY; -1 none
        bool          started     = false;    // the request PDU was seen on the air
        std::uint64_t t_q = 0, t_tx = 0;
        bool          maybe       = false;    // a PDU that ends the procedure was delivered
        bool          certain     = false;    // ... and the application callbacks show that it was processed
        std::uint64_t t_certain   = 0;
        bool          unconstrained = false;
        unsigned      late        = 0;
        unsigned      called_at   = 0;
    };

    constexpr std::uint64_t T_PRT = 40000000ull;

    void run( const Case& c, verif::Report& rep )
    {
        const config& cf    = configs()[ c.cfg ];
        const bool    avoid = verif::opt_has( "avoid", "F-21c" );
        const bool    trace = verif::opt( "trace" ) == "1";
        auto          flag  = []( const char* id ) { return verif::opt_has( "exclude", id ) || verif::opt_has( "avoid", id ); };
        const bool    answer_phy = flag( "F-27a" );
        const bool    no_foreign_answers = flag( "F-27c" );
        cbs()               = cb_state();
        acb                 = acb_t();
        v_open              = 42;
        v_prot              = 17;
        auto    dev         = cf.make();
        central cen( *dev );
        cen.lenient_when_rx_full = ( verif::opt_has( "avoid", "F-27b" ) || verif::opt_has( "exclude", "F-27b" ) ) && !c.strict_radio;
        dev->run();
        const unsigned sup = static_cast< unsigned >( dev->features() );

        // per connection reference state
        std::deque< Expect >       expect;
        Own                        own;
        std::vector< std::uint64_t > unsure_lo;     // own procedures whose end the model could not determine: 0x22 tolerated after
        unsigned                   app_ver_to_send = 0, late_cpr = 0, late_phy = 0;
        bool                       ver_seen = false, unknown_seen = false, old_version_seen = false, enc_req_seen = false;
        unsigned                   offered_acc = 0xff;
        std::set< std::string >    close_causes;
        bool                       instant_pending = false, update_pending = false;
        std::uint16_t              instant         = 0;
        bool                       big_burst_of_callbacks = false;
        // evidence: delivered PDUs that produce an application callback, in order, per callback kind
        struct cb_pdu
        {
            unsigned gen;    // generation of the own procedure that was outstanding when the PDU was delivered (0: none)
            bool     ends;   // ... and the PDU is an answer to it
        };
        std::deque< cb_pdu >       q_rejected, q_unknown;     // delivered PDUs that produce ll_rejected / ll_unknown, in order
        unsigned                   version_delivered_gen = 0;
        unsigned                   own_gen = 0;               // counts the procedures the application started
        std::deque< int >          q_phy_now;                 // PHY update indications without change
        std::size_t                cb_seen = 0, tx_seen = 0;
        unsigned                   total_events = 0;
        int                        noack_left   = 0;
        int                        consecutive_missed = 0;   // kept below the supervision timeout by construction
        unsigned                   async_fired_seen = 0;
        int                        async_answer = 1;
        bool                       own_hint = false;

        // coverage
        bool nt_wrong_len = false, nt_state = false;
        std::set< std::string > labels;

        bool carry_enc = false;
        auto new_connection = [&]() {
            expect.clear();
            if ( carry_enc )
            {
                // F-28b: the follow up of an LL_ENC_REQ of the last connection is sent on this one
                expect.push_back( Expect{ Expect::ENC_FOLLOW, 0x03, true, true, false } );
            }
            own = Own();
            unsure_lo.clear();
            app_ver_to_send = late_cpr = late_phy = 0;
            ver_seen = unknown_seen = old_version_seen = enc_req_seen = false;
            offered_acc     = 0xff;
            close_causes.clear();
            instant_pending = false;
            q_rejected.clear();
            q_unknown.clear();
            q_phy_now.clear();
            version_delivered_gen = 0;
            big_burst_of_callbacks = false;
        };

        auto ensure_connected = [&]() -> bool {
            if ( cen.connected() )
                return true;
            for ( int i = 0; i != 3 && !cen.connected(); ++i )
                cen.connect( c.p );
            if ( cen.connected() )
                new_connection();
            // callbacks of the connect request are not a subject of this property
            cb_seen = cbs().log.size();
            return cen.connected();
        };

        // an own procedure ends (as far as the reference can tell)
        auto resolve_own = [&]( bool keep_unsure ) {
            if ( own.kind >= 0 && keep_unsure )
                unsure_lo.push_back( own.t_q + T_PRT );
            own = Own();
        };

        // ---- what the reference expects for one PDU the peripheral took
        auto on_delivered = [&]( const Op& o, std::uint16_t counter ) {
            const bool own_started = own.started || own_hint;
            {
                // a PDU that ends a procedure crosses the request of the application that is queued, but not on the air yet:
                // the specification does not say whether it answers that request
                const std::size_t l = 1 + o.body.size();
                if ( own.kind >= 0 && !own_started
                    && ( ( o.opcode == 0x00 && l == 12 ) || ( o.opcode == 0x0C && l == 6 ) || ( o.opcode == 0x07 && l == 2 ) || ( o.opcode == 0x11 && l == 3 ) || ( o.opcode == 0x0D && l == 2 )
                        || ( o.opcode == 0x18 && l == 5 ) ) )
                {
                    own.unconstrained = true;
                    labels.insert( "own:request-crossed-by-an-answer" );
                }
            }
            const int  len       = 1 + static_cast< int >( o.body.size() );
            const int  op        = o.opcode;
            const int  sl        = spec_len( op );
            const bool right_len = sl == len;
            // supported by this configuration (from the documentation of the link layer / the feature mask it advertises)
            const bool sec       = cf.security;
            bool       supported = false;
            switch ( op )
            {
            case 0x00: case 0x01: case 0x02: case 0x07: case 0x08: case 0x0C: case 0x0D: case 0x0F: case 0x11: case 0x12: case 0x16: case 0x18: supported = true; break;
            case 0x03: case 0x06: case 0x0A: case 0x0B: supported = sec; break;
            }
            const bool state = own.kind >= 0 || instant_pending || enc_req_seen || ver_seen || noack_left > 0;
            if ( state )
                nt_state = true;
            labels.insert( own.kind >= 0 ? "state:own-procedure-pending" : "state:no-own-procedure" );
            if ( instant_pending )
                labels.insert( "state:instant-pending" );
            if ( enc_req_seen )
                labels.insert( "state:after-enc-req" );
            if ( ver_seen )
                labels.insert( "state:after-version-exchange" );
            if ( noack_left > 0 )
                labels.insert( "state:transmit-blocked" );

            auto push = [&]( Expect::what_t w, bool optional = false, bool or_closed = false ) {
                Expect e{ w, op, optional, false, or_closed };
                expect.push_back( e );
            };

            if ( op == 0x07 )
            {
                // LL_UNKNOWN_RSP of any length: never answered
                labels.insert( right_len ? "pdu:unknown-rsp" : "pdu:unknown-rsp-wrong-length" );
                if ( right_len )
                {
                    unknown_seen = true;
                    const bool ends = own.kind >= 0 && own_started
                        && ( ( own.kind == APP_CPR && o.body[ 0 ] == 0x0F ) || ( own.kind == APP_PHY && o.body[ 0 ] == 0x16 ) || ( own.kind == APP_VER && o.body[ 0 ] == 0x0C ) );
                    q_unknown.push_back( cb_pdu{ own.kind >= 0 ? own_gen : 0u, ends && own.kind != APP_VER } );
                    if ( ends )
                        own.maybe = true;
                }
                else
                    nt_wrong_len = true;
                return;
            }
            if ( supported && !right_len )
            {
                nt_wrong_len = true;
                labels.insert( "pdu:known-opcode-wrong-length" );
                close_causes.insert( "wrong-length" );
                if ( response_class( op ) )
                    push( Expect::UNKNOWN_RSP, true );
                else
                    push( Expect::UNKNOWN_RSP, false, true );
                return;
            }
            if ( !supported )
            {
                labels.insert( response_class( op ) ? "pdu:unsolicited-response-opcode" : "pdu:unsupported-opcode" );
                if ( response_class( op ) )
                    push( Expect::UNKNOWN_RSP, true );
                else if ( op == 0x03 || op == 0x0A )
                    push( Expect::UNSUPPORTED );
                else
                    push( Expect::UNKNOWN_RSP );
                return;
            }
            // supported opcode with its specified length
            switch ( op )
            {
            case 0x00:   // LL_CONNECTION_UPDATE_IND
            case 0x01:   // LL_CHANNEL_MAP_IND
            case 0x18:   // LL_PHY_UPDATE_IND
            {
                labels.insert( op == 0x00 ? "pdu:connection-update" : op == 0x01 ? "pdu:channel-map" : "pdu:phy-update" );
                close_causes.insert( "instant" );
                bool defer = true;
                if ( op == 0x18 )
                {
                    const bool valid = o.body[ 0 ] <= 2 && o.body[ 1 ] <= 2;
                    if ( !valid )
                    {
                        push( Expect::UNKNOWN_RSP, true );
                        defer = false;
                    }
                    else if ( o.body[ 0 ] == 0 && o.body[ 1 ] == 0 )
                    {
                        defer = false;
                        q_phy_now.push_back( 1 );
                    }
                    if ( valid && own.kind == APP_PHY && own_started )
                        own.maybe = true;
                }
                if ( op == 0x00 )
                {
                    close_causes.insert( "update-parameters" );
                    if ( own.kind == APP_CPR && own_started )
                        own.maybe = true;
                }
                if ( defer && o.rel != no_rel && o.rel >= 1 && o.rel < 30000 )
                {
                    instant_pending = true;
                    update_pending  = op == 0x00;
                    instant         = static_cast< std::uint16_t >( counter + o.rel );
                }
            }
            break;
            case 0x02:
                labels.insert( "pdu:terminate" );
                close_causes.insert( "terminate" );
                if ( o.body[ 0 ] == 0x22 )
                    close_causes.insert( "terminate-with-0x22" );
                break;
            case 0x03:
                labels.insert( "pdu:enc-req" );
                enc_req_seen = true;
                // LL_START_ENC_REQ / the reject follows LL_ENC_RSP, but may be overtaken by the responses to later PDUs
                push( Expect::ENC_RSP );
                push( Expect::ENC_FOLLOW, true );
                expect.back().floating = true;
                break;
            case 0x06:
                labels.insert( "pdu:start-enc-rsp" );
                push( Expect::START_ENC_RSP, true );
                break;
            case 0x0A:
                labels.insert( "pdu:pause-enc-req" );
                push( Expect::PAUSE_ENC_RSP, true );
                break;
            case 0x0B:
                labels.insert( "pdu:pause-enc-rsp" );
                push( Expect::UNKNOWN_RSP, true );
                break;
            case 0x08: {
                labels.insert( "pdu:feature-req" );
                const unsigned offered = o.body[ 0 ];
                offered_acc &= offered;
                Expect e{ Expect::FEATURE_RSP, op, false, false, false };
                e.sup_lo   = sup & offered & 0xff;
                e.must_lo  = sup & offered_acc & 0xff & ~( ( unknown_seen || old_version_seen ) ? 0x02u : 0u );
                e.sup_rest = ( sup >> 8 ) & 0xff;
                expect.push_back( e );
            }
            break;
            case 0x0C:
                if ( !ver_seen )
                {
                    labels.insert( "pdu:version-ind-first" );
                    ver_seen              = true;
                    version_delivered_gen = own.kind >= 0 ? own_gen : 0u;
                    if ( o.body[ 0 ] <= 6 )
                        old_version_seen = true;
                    push( Expect::VERSION_IND );
                    if ( own.kind == APP_VER && own_started )
                        own.maybe = true;
                    else if ( own.kind == APP_VER )
                        own.unconstrained = true;   // the exchange is over before the request of the application is sent
                }
                else
                {
                    labels.insert( "pdu:version-ind-repeated" );
                    push( Expect::UNKNOWN_RSP, true );
                    // a repeated version indication is no defined answer to a repeated request of the application
                    if ( own.kind == APP_VER )
                        own.unconstrained = true;
                }
                break;
            case 0x0D:
            case 0x11: {
                labels.insert( "pdu:reject" );
                const bool ends = own.kind >= 0 && own_started
                    && ( op == 0x0D || ( own.kind == APP_CPR && o.body[ 0 ] == 0x0F ) || ( own.kind == APP_PHY && o.body[ 0 ] == 0x16 ) || ( own.kind == APP_VER && o.body[ 0 ] == 0x0C ) );
                // certain only for the answers the specification defines
                q_rejected.push_back( cb_pdu{ own.kind >= 0 ? own_gen : 0u, ends && ( own.kind != APP_VER ) && !( op == 0x0D && own.kind == APP_PHY ) } );
                if ( ends )
                    own.maybe = true;
            }
            break;
            case 0x0F: {
                labels.insert( "pdu:connection-param-req" );
                bool outstanding = false;
                for ( auto& x : expect )
                    outstanding = outstanding || ( x.what == Expect::PARAM_RSP && x.floating );
                Expect e{ Expect::PARAM_RSP, op, cf.async && outstanding, cf.async, false };
                expect.push_back( e );
                async_answer = o.ar;
            }
            break;
            case 0x12:
                labels.insert( "pdu:ping-req" );
                push( Expect::PING_RSP );
                break;
            case 0x16:
                labels.insert( "pdu:phy-req" );
                push( Expect::PHY_RSP );
                break;
            }
        };

        // ---- after every radio callback: look at what the peripheral transmitted and told the application
        std::function< void( std::size_t ) > after_callback;
        after_callback = [&]( std::size_t op_index ) {
            const std::uint64_t now = cen.now_us;
            // PDUs of the peripheral
            for ( ; tx_seen < cen.tx.size(); ++tx_seen )
            {
                const tx_rec& r = cen.tx[ tx_seen ];
                if ( r.llid != 3 || r.payload.empty() || r.conn != cen.conn_no )
                    continue;
                const bytes& o  = r.payload;
                const int    op = o[ 0 ];
                if ( trace )
                    std::cerr << "  t=" << r.t_us / 1000 << "ms step " << r.step << " tx " << pdu_text( o ) << "\n";
                auto start_own  = [&]() {
                    own.started = true;
                    own.t_tx    = r.t_first_us;
                    labels.insert( own.kind == APP_VER ? "own:version-request-sent" : own.kind == APP_CPR ? "own:connection-param-req-sent" : "own:phy-req-sent" );
                };
                if ( op == 0x0F && o.size() == 24 && own.kind == APP_CPR && !own.started )
                {
                    start_own();
                    continue;
                }
                if ( ( op == 0x0F && o.size() == 24 && late_cpr > 0 ) || ( op == 0x16 && o.size() == 3 && late_phy > 0 ) )
                {
                    // a request the reference stopped waiting for: it is not tracked, a later 0x22 is tolerated
                    --( op == 0x0F ? late_cpr : late_phy );
                    unsure_lo.push_back( 0 );
                    labels.insert( "own:request-sent-very-late" );
                    continue;
                }
                if ( op == 0x16 && o.size() == 3 && own.kind == APP_PHY && !own.started )
                {
                    start_own();
                    continue;
                }
                // match against the expected responses: in order; optional ones may be absent, floating ones may be overtaken
                bool matched = false;
                // LL_VERSION_IND on behalf of remote_versions_request() can not be told from the response: it is taken as the
                // request of the application, unless the response is the very next PDU the reference waits for
                const bool own_version_possible = op == 0x0C && o.size() == 6 && app_ver_to_send > 0;
                for ( std::size_t idx = 0; idx < expect.size() && !matched; ++idx )
                {
                    if ( expect[ idx ].matches( o ) )
                    {
                        expect.erase( expect.begin() + static_cast< long >( idx ) );
                        // the optional responses that were skipped did not come (if this LL_VERSION_IND may be the request of the
                        // application, they may still come)
                        for ( std::size_t j = idx; j-- > 0 && !own_version_possible; )
                            if ( !expect[ j ].floating )
                                expect.erase( expect.begin() + static_cast< long >( j ) );
                        matched = true;
                    }
                    else if ( !expect[ idx ].floating && !expect[ idx ].optional )
                        break;
                }
                if ( matched )
                    continue;
                if ( op == 0x0C && o.size() == 6 && app_ver_to_send > 0 )
                {
                    // LL_VERSION_IND on behalf of remote_versions_request() (counted separately, DESIGN.md section 9)
                    --app_ver_to_send;
                    if ( own.kind == APP_VER && !own.started )
                        start_own();
                    continue;
                }
                const std::string exp = expect.empty() ? std::string( "no PDU" ) : expect.front().describe();
                verif::fail( "control.response", verif::cat( "op ", op_index, ": the peripheral transmitted ", pdu_text( o ), " but the received control PDUs require ", exp ),
                    verif::cat( "oracle=response got=0x", verif::hex( o.data(), 1 ) ) );
            }

            // application callbacks
            unsigned in_this = 0;
            bool     closed  = false;
            unsigned reason  = 0;
            for ( ; cb_seen < cbs().log.size(); ++cb_seen )
            {
                const cb_entry& e = cbs().log[ cb_seen ];
                ++in_this;
                if ( trace )
                    std::cerr << "  t=" << now / 1000 << "ms step " << e.step << " callback " << cb_name( e.kind ) << " arg 0x" << std::hex << e.arg << std::dec << "\n";
                switch ( e.kind )
                {
                case CB_CLOSED:
                    closed = true;
                    reason = e.arg;
                    break;
                case CB_VERSION:
                    if ( own.kind >= 0 && version_delivered_gen != own_gen )
                        own.unconstrained = true;   // delivered before the procedure was started, handled after
                    else if ( own.kind == APP_VER && own.started && !own.certain )
                    {
                        own.certain   = true;
                        own.t_certain = now;
                    }
                    break;
                case CB_REJECTED:
                case CB_UNKNOWN: {
                    auto& q = e.kind == CB_REJECTED ? q_rejected : q_unknown;
                    if ( !q.empty() )
                    {
                        const cb_pdu f = q.front();
                        q.pop_front();
                        if ( own.kind >= 0 && f.gen == own_gen && f.ends && own.started && !own.certain )
                        {
                            own.certain   = true;
                            own.t_certain = now;
                        }
                        else if ( own.kind >= 0 && f.gen != own_gen )
                        {
                            // the PDU was delivered before this procedure was started, but handled after (transmit path was
                            // blocked): for the peripheral it crosses the request
                            own.unconstrained = true;
                            labels.insert( "own:request-crossed-by-an-answer" );
                        }
                    }
                }
                break;
                case CB_CHANGED:
                    if ( own.kind == APP_CPR && own.started && own.maybe && !own.certain )
                    {
                        own.certain   = true;
                        own.t_certain = now;
                    }
                    break;
                case CB_PHY:
                    if ( own.kind == APP_PHY && own.started && own.maybe && !own.certain )
                    {
                        own.certain   = true;
                        own.t_certain = now;
                    }
                    break;
                default: break;
                }
            }
            if ( in_this >= 4 )
                big_burst_of_callbacks = true;
            if ( in_this >= 3 )
                labels.insert( "burst:3-or-more-callbacks-in-one-event" );

            // asynchronous application: answer the connection parameter request now
            if ( cf.async && acb.fired != async_fired_seen )
            {
                async_fired_seen = acb.fired;
                dev->async_reply( async_answer != 0, 24, 40, 0, 200, 0x3B );
                labels.insert( async_answer ? "async:positive-reply" : "async:negative-reply" );
            }

            // end of the link?
            if ( !cen.connected() )
            {
                const bool have_reason = closed;
                if ( have_reason && reason == 0x22 )
                {
                    bool ok = false;
                    std::string why = "no procedure of the peripheral was outstanding";
                    if ( own.kind >= 0 )
                    {
                        // (a request that is queued, but kept from the air by a blocked transmit path, has its timer running)
                        if ( own.unconstrained || big_burst_of_callbacks )
                            ok = true;
                        else if ( now < own.t_q + T_PRT )
                            why = verif::cat( "only ", ( now - own.t_q ) / 1000, " ms after the request was queued" );
                        else if ( own.certain && own.t_certain < own.t_q + T_PRT )
                            why = verif::cat( "the procedure was answered ", ( own.t_certain - own.t_q ) / 1000, " ms after the request was queued" );
                        else
                            ok = true;
                        if ( ok )
                            labels.insert( own.maybe ? "timeout:closed-0x22-answer-late-or-not-processed" : "timeout:closed-0x22-unanswered" );
                    }
                    for ( auto lo : unsure_lo )
                        if ( now >= lo )
                            ok = true;
                    if ( !ok && !close_causes.count( "wrong-length" ) && !close_causes.count( "terminate-with-0x22" ) )
                        verif::fail( "control.timeout-spurious", verif::cat( "op ", op_index, ": link closed with reason 0x22 (response timeout) at ", now / 1000, " ms: ", why ),
                            "oracle=timeout-spurious" );
                }
                else if ( have_reason )
                {
                    if ( close_causes.empty() )
                        verif::fail( "control.closed-without-cause", verif::cat( "op ", op_index, ": link closed with reason 0x", std::hex, reason, std::dec,
                                                                        " although nothing the central sent or withheld ends a connection" ),
                            "oracle=closed-without-cause" );
                    labels.insert( "closed:by-central-pdu" );
                }
                else
                    labels.insert( "closed:without-callback" );
                carry_enc = false;
                if ( flag( "F-28b" ) )
                    for ( auto& e : expect )
                        carry_enc = carry_enc || e.what == Expect::ENC_FOLLOW;
                if ( carry_enc )
                {
                    rep.excluded = true;
                    labels.insert( "excluded:F-28b-enc-req-in-the-last-event-of-a-connection" );
                }
                new_connection();
                return;
            }

            if ( own.kind >= 0 && !own.started && total_events > own.called_at + 12 )
            {
                // not on the air yet (transmit path blocked, refused later, sent on the signalling channel): stop waiting
                if ( own.kind == APP_CPR )
                    ++late_cpr;
                if ( own.kind == APP_PHY )
                    ++late_phy;
                // the peripheral may have queued the request long ago: its response timer may expire 40 s after the call
                resolve_own( true );
            }

            // the response timeout of an own procedure
            if ( own.kind >= 0 && own.started )
            {
                if ( own.certain )
                {
                    labels.insert( own.t_certain < own.t_q + T_PRT ? "timeout:answered-in-time" : "timeout:answered-late" );
                    if ( own.t_certain < own.t_q + T_PRT )
                        resolve_own( false );
                    else
                        resolve_own( true );
                }
                else if ( !own.unconstrained && !own.maybe && !big_burst_of_callbacks && now >= own.t_tx + T_PRT )
                {
                    ++own.late;
                    V_CHECK_SIG( own.late < 2, "control.timeout-missing", verif::cat( "oracle=timeout-missing proc=", own.kind == APP_VER ? "version" : own.kind == APP_CPR ? "conn-param" : "phy" ),
                        "op ", op_index, ": the ", own.kind == APP_VER ? "version exchange" : own.kind == APP_CPR ? "connection parameter request" : "PHY update",
                        " procedure of the peripheral was transmitted at ", own.t_tx / 1000, " ms and never answered; at ", now / 1000,
                        " ms (second radio callback after 40 s) the link is still up" );
                }
                else if ( own.maybe && !own.certain && now >= own.t_tx + T_PRT + 4ull * c.p.interval * 1250ull * ( c.p.latency + 1 ) )
                {
                    // delivered answer whose processing the reference could not observe: stop tracking
                    resolve_own( true );
                }
            }
        };

        // ---- one connection event
        Op phy_answer;
        phy_answer.kind   = OP_PDU;
        phy_answer.opcode = 0x18;
        phy_answer.body   = { 0, 0, 0, 0 };
        phy_answer.rel    = 4;
        std::function< void( std::vector< const Op* >, std::size_t ) > do_event;
        do_event = [&]( std::vector< const Op* > burst_ops, std::size_t op_index ) {
            if ( !ensure_connected() )
                return;
            if ( answer_phy && own.kind == APP_PHY && own.started && !own.maybe
                && cen.next_event_time() + 3ull * dev->rs().evt.interval_us * ( c.p.latency + 1 ) >= own.t_q + T_PRT )
            {
                // F-27a: the PHY update procedure has no response timeout; the central answers before it would expire
                rep.excluded = true;
                labels.insert( "excluded:F-27a-phy-request-answered-by-construction" );
                burst_ops.insert( burst_ops.begin(), &phy_answer );
            }
            const std::uint16_t counter = dev->event_counter();
            std::vector< pdu >  burst;
            for ( auto* o : burst_ops )
            {
                pdu p{ 3, {} };
                p.payload.push_back( static_cast< std::uint8_t >( o->opcode ) );
                p.payload.insert( p.payload.end(), o->body.begin(), o->body.end() );
                if ( o->rel != no_rel )
                {
                    const unsigned inst = static_cast< std::uint16_t >( counter + o->rel );
                    if ( o->opcode == 0x00 && p.payload.size() == 12 )
                        put16( p.payload, 10, inst );
                    if ( o->opcode == 0x01 && p.payload.size() == 8 )
                        put16( p.payload, 6, inst );
                    if ( o->opcode == 0x18 && p.payload.size() == 5 )
                        put16( p.payload, 3, inst );
                }
                burst.push_back( p );
            }
            const bool ack = noack_left <= 0;
            const auto res = cen.event( burst, ack );
            ++total_events;
            consecutive_missed = 0;
            if ( trace )
                std::cerr << "event t=" << cen.now_us / 1000 << "ms counter " << counter << " burst " << burst_ops.size() << " delivered " << res.delivered
                          << ( ack ? "" : " (no ack)" ) << ( res.link_closed ? " LINK CLOSED" : "" ) << "\n";
            // the request of an own procedure that went out in this very event counts as transmitted for the PDUs of this event
            own_hint = false;
            if ( own.kind >= 0 && !own.started )
            {
                unsigned version_rsp_due = 0, version_on_air = 0;
                for ( auto& e : expect )
                    version_rsp_due += e.what == Expect::VERSION_IND;
                for ( std::size_t k = tx_seen; k < cen.tx.size(); ++k )
                {
                    const tx_rec& r = cen.tx[ k ];
                    if ( r.llid != 3 || r.payload.empty() || r.conn != cen.conn_no )
                        continue;
                    if ( own.kind == APP_CPR && r.payload[ 0 ] == 0x0F && r.payload.size() == 24 )
                        own_hint = true;
                    if ( own.kind == APP_PHY && r.payload[ 0 ] == 0x16 && r.payload.size() == 3 )
                        own_hint = true;
                    if ( r.payload[ 0 ] == 0x0C && r.payload.size() == 6 )
                        ++version_on_air;
                }
                if ( own.kind == APP_VER && version_on_air > version_rsp_due )
                    own_hint = true;
            }
            for ( unsigned i = 0; i != res.delivered && i < burst_ops.size(); ++i )
                on_delivered( *burst_ops[ i ], counter );
            own_hint = false;
            if ( burst_ops.size() >= 3 )
                labels.insert( "burst:3-or-more-pdus-in-one-event" );
            if ( res.delivered < burst_ops.size() )
                labels.insert( "receive-buffer-full" );
            if ( noack_left > 0 )
                --noack_left;
            if ( instant_pending && cen.connected() && static_cast< std::int16_t >( dev->event_counter() - instant ) > 0 )
                instant_pending = false;
            after_callback( op_index );
        };

        constexpr unsigned max_events = 12000;

        // ---- the history
        for ( std::size_t i = 0; i < c.ops.size(); ++i )
        {
            const Op& o = c.ops[ i ];
            switch ( o.kind )
            {
            case OP_PDU: {
                // F-27c: the single response timer is stopped by PDUs that end *another* procedure than the one that is
                // outstanding; under the exclusion the central does not send those while an own procedure is outstanding
                auto foreign_answer = [&]( const Op& x ) {
                    if ( !no_foreign_answers || own.kind < 0 )
                        return false;
                    const std::size_t len = 1 + x.body.size();
                    if ( x.opcode == 0x00 && len == 12 )
                        return own.kind != APP_CPR;
                    if ( x.opcode == 0x0C && len == 6 )
                        return own.kind != APP_VER && !ver_seen;
                    if ( ( x.opcode == 0x07 && len == 2 ) || ( x.opcode == 0x11 && len == 3 ) )
                        return x.body[ 0 ] == 0x0F && own.kind != APP_CPR;
                    return false;
                };
                if ( foreign_answer( o ) )
                {
                    rep.excluded = true;
                    labels.insert( "excluded:F-27c-answer-to-another-procedure" );
                    break;
                }
                std::vector< const Op* > burst{ &o };
                auto instant_carrier = []( const Op& x ) { return x.opcode == 0x00 || x.opcode == 0x01 || x.opcode == 0x18; };
                while ( burst.size() < 6 && c.ops[ i ].md && i + 1 < c.ops.size() && c.ops[ i + 1 ].kind == OP_PDU && !foreign_answer( c.ops[ i + 1 ] )
                        && !( avoid && ( instant_carrier( c.ops[ i ] ) || instant_carrier( c.ops[ i + 1 ] ) ) ) )
                    burst.push_back( &c.ops[ ++i ] );
                if ( avoid && instant_carrier( o ) && cen.connected() )
                {
                    // the PDU is handled in the event it is sent in: nothing queued in either direction
                    noack_left = 0;
                    for ( int k = 0, quiet = 0; k != 24 && quiet < 2 && cen.connected() && total_events < max_events; ++k )
                    {
                        do_event( {}, i );
                        quiet = cen.last_event_quiet ? quiet + 1 : 0;
                    }
                }
                if ( avoid && instant_pending )
                {
                    // F-21c: nothing but empty PDUs until the instant is reached
                    rep.excluded = true;
                    labels.insert( "excluded:F-21c-traffic-held-back-until-the-instant" );
                    for ( int k = 0; k != 40 && instant_pending && cen.connected() && total_events < max_events; ++k )
                        do_event( {}, i );
                }
                if ( total_events < max_events )
                    do_event( burst, i );
            }
            break;
            case OP_IDLE:
                for ( int k = 0; k != o.n && total_events < max_events; ++k )
                    do_event( {}, i );
                break;
            case OP_MISS:
                if ( !ensure_connected() )
                    break;
                for ( int k = 0; k != o.n && consecutive_missed < 3 && cen.connected(); ++k )
                {
                    ++consecutive_missed;
                    cen.missed();
                    if ( instant_pending && cen.connected() && static_cast< std::int16_t >( dev->event_counter() - instant ) > 0 )
                        instant_pending = false;
                    after_callback( i );
                }
                labels.insert( "missed-events" );
                break;
            case OP_NOACK:
                noack_left = std::min( o.n, 6 );
                break;
            case OP_APP: {
                if ( !ensure_connected() || own.kind >= 0 )
                    break;
                if ( no_foreign_answers && instant_pending && update_pending && o.app != APP_CPR && o.app != APP_ICPR )
                {
                    // F-27c: the connection update that is pending (sent before this request) would stop the response timer of this procedure
                    rep.excluded = true;
                    labels.insert( "excluded:F-27c-answer-to-another-procedure" );
                    break;
                }
                bool ok = false;
                switch ( o.app )
                {
                case APP_VER: ok = dev->ver(); break;
                case APP_CPR: ok = dev->cpr( o.a, o.b, o.c, o.e ); break;
                case APP_ICPR: ok = dev->icpr( o.a, o.b, o.c, o.e ); break;
                case APP_PHY: ok = dev->phy( o.a, o.b ); break;
                }
                if ( ok )
                {
                    own      = Own();
                    ++own_gen;
                    own.kind = o.app == APP_ICPR ? APP_CPR : o.app;
                    // the request can not be queued before the connection event that follows this call
                    own.t_q         = cen.anchor_us;
                    own.called_at   = total_events;
                    if ( own.kind == APP_VER )
                    {
                        ++app_ver_to_send;
                        if ( ver_seen )
                            own.unconstrained = true;   // the version exchange took place already: no answer is defined
                    }
                    if ( own.kind == APP_CPR && ( unknown_seen || old_version_seen ) )
                        own.unconstrained = true;       // the request may go out on the L2CAP signalling channel instead
                    if ( own.kind == APP_CPR && instant_pending && update_pending )
                        own.unconstrained = true;       // a connection update of the central is pending: it can not be told from an answer
                }
                labels.insert( ok ? "app:request-accepted" : "app:request-refused" );
            }
            break;
            }
        }

        // ---- drain: every response that is still due has to show up
        noack_left = 0;
        for ( int k = 0; k != 60 && cen.connected() && total_events < max_events + 100; ++k )
        {
            bool due = false;
            for ( auto& e : expect )
                due = due || !e.optional;
            if ( !due && k >= 2 )
                break;
            do_event( {}, c.ops.size() );
        }
        if ( cen.connected() )
            for ( auto& e : expect )
                if ( !e.optional )
                    verif::fail( "control.response-missing",
                        verif::cat( "the central sent opcode 0x", std::hex, e.req_opcode, std::dec, " and never got ", e.describe(),
                            cen.rx_full_on_empty >= 3 ? " (receive and transmit ring are full: the acknowledgement of the central can not be received any more)" : "" ),
                        verif::cat( "oracle=response-missing", cen.rx_full_on_empty >= 3 ? " deadlock=rx-full" : "" ) );

        if ( cen.rx_full_rescued )
        {
            rep.excluded = true;
            labels.insert( "excluded:F-27b-receive-ring-full" );
        }
        rep.nontrivial = nt_wrong_len || nt_state;
        for ( auto& l : labels )
            rep.label( l );
        rep.label( verif::cat( "cfg:", cf.name ) );
    }
}

int main( int argc, char** argv )
{
    verif::Harness< Case > h;
    h.gen       = gen_case;
    h.to_text   = to_text;
    h.from_text = from_text;
    h.run       = run;
    return verif::run_main( argc, argv, h );
}
