// C24: advertising uses exactly the enabled channels at the configured rate (DESIGN.md section 4, C24)
//
// Generated: a link layer configuration (channel map option, interval option, start option, advertising types, PDU
// layout) and a history of application calls (start/stop/count, channel map edits between advertising periods,
// interval changes, advertising type changes, directed target) interleaved with what the radio reports (advertisement
// timed out, unrelated PDU received, connect request, connection events, loss of the connection).
// Oracle: a reference advertiser written from the Core specification (Vol 6 Part B 4.4.2) and the documentation
// comments of advertising.hpp, run over the log of schedule_advertisment() calls of the harness radio.
#include "verif.hpp"

#include "c24_dev.hpp"

#include <set>

namespace {

    using namespace c24;

    // ------------------------------------------------------------------------------------------ configurations
    struct config
    {
        std::string                                     name;
        std::function< std::unique_ptr< device_if >() > make;
    };

    template < class Cfg, template < std::size_t, std::size_t, class > class Radio, class... Opts >
    config make_cfg( const std::string& name, bool gap, unsigned fixed_interval, bool explicit_types = true )
    {
        using LL = ll::link_layer< server_t, Radio, callbacks_opt, Opts... >;
        return config{ name, [=] { return std::unique_ptr< device_if >( new device_impl< LL, Cfg >( name, gap, fixed_interval, explicit_types ) ); } };
    }

    const std::vector< config >& configs()
    {
        static const std::vector< config > c = {
            // 0: everything variable, default advertising type
            make_cfg< cfg< true, true, true, 0 >, radio, ll::variable_advertising_channel_map, ll::variable_advertising_interval,
                ll::no_auto_start_advertising >( "vmap-vint-noauto", false, 0, false ),
            // 1: all defaults
            make_cfg< cfg< false, false, false, 0 >, radio >( "defaults", false, 100, false ),
            // 2: four advertising types, everything variable
            make_cfg< cfg< true, true, true, 0, T_UNDIRECTED, T_DIRECTED, T_SCANNABLE, T_NONCONN >, radio, ll::variable_advertising_channel_map,
                ll::variable_advertising_interval, ll::no_auto_start_advertising, ll::connectable_undirected_advertising,
                ll::connectable_directed_advertising, ll::scannable_undirected_advertising, ll::non_connectable_undirected_advertising >(
                "vmap-vint-noauto-multi4", false, 0 ),
            // 3: scannable, fixed interval of 30 ms, gap layout
            make_cfg< cfg< true, false, true, 0, T_SCANNABLE >, radio_gap, ll::variable_advertising_channel_map, ll::no_auto_start_advertising,
                ll::advertising_interval< 30 >, ll::scannable_undirected_advertising >( "vmap-int30-noauto-scannable-gap", true, 30 ),
            // 4: two types, automatic start, gap layout
            make_cfg< cfg< true, true, false, 0, T_UNDIRECTED, T_SCANNABLE >, radio_gap, ll::variable_advertising_channel_map,
                ll::variable_advertising_interval, ll::connectable_undirected_advertising, ll::scannable_undirected_advertising >(
                "vmap-vint-auto-multi2-gap", true, 0 ),
        };
        return c;
    }

    // ------------------------------------------------------------------------------------------ case
    enum op_kind { O_RUN, O_T, O_START, O_STARTN, O_STOP, O_ADD, O_REM, O_IVAL, O_TYPE, O_DADDR, O_CONN, O_EVT, O_DROP, O_RX, O_KINDS };
    const char* const op_names[] = { "run", "t", "start", "startn", "stop", "add", "rem", "ival", "type", "daddr", "conn", "evt", "drop", "rx" };

    struct Op
    {
        int kind;
        int a;
    };

    struct Case
    {
        int               cfg;
        std::vector< Op > ops;
    };

    using Ops = std::vector< Op >;

    rc::Gen< int > gen_interval()
    {
        return rc::gen::weightedOneOf< int >( { { 6, rc::gen::element( 20, 21, 30, 100, 1000, 10239, 10240 ) }, { 5, verif::range< int >( 20, 10240 ) },
            { 1, rc::gen::element( 0, 19, 10241, 65535 ) } } );
    }

    rc::Gen< Op > gen_config_op()
    {
        return rc::gen::weightedOneOf< Op >( {
            { 5, rc::gen::map( verif::range< int >( 37, 39 ), []( int c ) { return Op{ O_ADD, c }; } ) },
            { 6, rc::gen::map( verif::range< int >( 37, 39 ), []( int c ) { return Op{ O_REM, c }; } ) },
            { 3, rc::gen::map( gen_interval(), []( int v ) { return Op{ O_IVAL, v }; } ) },
            { 2, rc::gen::map( verif::range< int >( 0, 3 ), []( int v ) { return Op{ O_TYPE, v }; } ) },
            { 2, rc::gen::map( verif::range< int >( 0, 5 ), []( int v ) { return Op{ O_DADDR, v }; } ) },
        } );
    }

    rc::Gen< Op > gen_start_op()
    {
        return rc::gen::weightedOneOf< Op >( { { 3, rc::gen::just( Op{ O_START, 0 } ) },
            { 3, rc::gen::map( verif::range< int >( 1, 10 ), []( int k ) { return Op{ O_STARTN, k }; } ) } } );
    }

    rc::Gen< Op > gen_timeouts()
    {
        return rc::gen::map( verif::range< int >( 1, 7 ), []( int n ) { return Op{ O_T, n }; } );
    }

    // a phrase is a short, meaningful sequence; the case is the concatenation of phrases
    rc::Gen< Ops > gen_phrase()
    {
        auto few_cfg = rc::gen::resize( 3, rc::gen::container< Ops >( gen_config_op() ) );
        return rc::gen::weightedOneOf< Ops >( {
            { 30, rc::gen::map( gen_timeouts(), []( Op o ) { return Ops{ o }; } ) },
            { 6, rc::gen::map( gen_start_op(), []( Op o ) { return Ops{ o }; } ) },
            { 4, rc::gen::just( Ops{ Op{ O_STOP, 0 } } ) },
            { 6, rc::gen::map( gen_config_op(), []( Op o ) { return Ops{ o }; } ) },
            { 3, rc::gen::map( verif::range< int >( 0, 2 ), []( int v ) { return Ops{ Op{ O_RX, v } }; } ) },
            { 3, rc::gen::map( verif::range< int >( 0, 5 ), []( int v ) { return Ops{ Op{ O_CONN, v } }; } ) },
            { 2, rc::gen::just( Ops{ Op{ O_EVT, 0 } } ) },
            { 2, rc::gen::just( Ops{ Op{ O_DROP, 0 } } ) },
            // stop, let the advertisement in flight end, reconfigure, start again
            { 8, rc::gen::map( rc::gen::tuple( few_cfg, gen_start_op(), verif::range< int >( 0, 3 ) ),
                     []( const std::tuple< Ops, Op, int >& t ) {
                         Ops r{ Op{ O_STOP, 0 }, Op{ O_T, 1 } };
                         r.insert( r.end(), std::get< 0 >( t ).begin(), std::get< 0 >( t ).end() );
                         r.push_back( std::get< 1 >( t ) );
                         if ( std::get< 2 >( t ) )
                             r.push_back( Op{ O_T, std::get< 2 >( t ) * 2 } );
                         return r;
                     } ) },
            // a connection; reconfigure while connected; lose the connection
            { 5, rc::gen::map( rc::gen::tuple( verif::range< int >( 0, 5 ), verif::range< int >( 0, 2 ), few_cfg, verif::range< int >( 0, 2 ) ),
                     []( const std::tuple< int, int, Ops, int >& t ) {
                         Ops r{ Op{ O_CONN, std::get< 0 >( t ) } };
                         for ( int i = 0; i != std::get< 1 >( t ); ++i )
                             r.push_back( Op{ O_EVT, 0 } );
                         r.insert( r.end(), std::get< 2 >( t ).begin(), std::get< 2 >( t ).end() );
                         if ( std::get< 3 >( t ) == 1 )
                             r.push_back( Op{ O_START, 0 } );
                         if ( std::get< 3 >( t ) == 2 )
                             r.push_back( Op{ O_STARTN, 4 } );
                         r.push_back( Op{ O_DROP, 0 } );
                         return r;
                     } ) },
        } );
    }

    rc::Gen< Case > gen_case()
    {
        auto prefix = rc::gen::resize( 4, rc::gen::container< Ops >( rc::gen::weightedOneOf< Op >( { { 3, gen_config_op() }, { 2, gen_start_op() } } ) ) );
        auto body   = rc::gen::container< std::vector< Ops > >( gen_phrase() );
        return rc::gen::map( rc::gen::tuple( verif::range< int >( 0, static_cast< int >( configs().size() ) - 1 ), prefix, body ),
            []( const std::tuple< int, Ops, std::vector< Ops > >& t ) {
                Case c{ std::get< 0 >( t ), std::get< 1 >( t ) };
                c.ops.push_back( Op{ O_RUN, 0 } );
                for ( auto& p : std::get< 2 >( t ) )
                    c.ops.insert( c.ops.end(), p.begin(), p.end() );
                return c;
            } );
    }

    std::string to_text( const Case& c )
    {
        std::ostringstream os;
        os << "cfg " << c.cfg << "  # " << configs()[ c.cfg ].name << "\n";
        for ( auto& o : c.ops )
        {
            os << op_names[ o.kind ];
            if ( o.kind != O_RUN && o.kind != O_START && o.kind != O_STOP && o.kind != O_EVT && o.kind != O_DROP )
                os << " " << o.a;
            os << "\n";
        }
        return os.str();
    }

    Case from_text( const std::string& t )
    {
        Case         c{ 0, {} };
        verif::Lines L( t );
        for ( auto& l : L.lines )
        {
            if ( l[ 0 ] == "cfg" )
            {
                c.cfg = static_cast< int >( verif::tok_int( l, 1 ) ) % static_cast< int >( configs().size() );
                continue;
            }
            for ( int k = 0; k != O_KINDS; ++k )
                if ( l[ 0 ] == op_names[ k ] )
                    c.ops.push_back( Op{ k, static_cast< int >( verif::tok_int( l, 1, k == O_T ? 1 : 0 ) ) } );
        }
        return c;
    }

    // ------------------------------------------------------------------------------------------ reference advertiser
    std::string map_text( unsigned map )
    {
        std::string r = "{";
        for ( unsigned i = 0; i != 3; ++i )
            if ( map & ( 1u << i ) )
                r += ( r.size() > 1 ? "," : "" ) + std::to_string( 37 + i );
        return r + "}";
    }

    unsigned lowest( unsigned map )
    {
        for ( unsigned i = 0; i != 3; ++i )
            if ( map & ( 1u << i ) )
                return 37 + i;
        return 0;
    }

    unsigned highest( unsigned map )
    {
        for ( unsigned i = 3; i != 0; --i )
            if ( map & ( 1u << ( i - 1 ) ) )
                return 37 + i - 1;
        return 0;
    }

    // next enabled channel after `ch` in ascending order, wrapping to the lowest one
    unsigned next_enabled( unsigned map, unsigned ch )
    {
        for ( unsigned c = ch + 1; c <= 39; ++c )
            if ( map & ( 1u << ( c - 37 ) ) )
                return c;
        return lowest( map );
    }

    unsigned popcount3( unsigned map ) { return ( map & 1 ) + ( ( map >> 1 ) & 1 ) + ( ( map >> 2 ) & 1 ); }

    struct Model
    {
        const caps& c;
        bool        ran  = false;
        bool        conn = false;
        bool        want;                 // the application wants advertising
        bool        cnt_active = false;   // start_advertising( count ) in force
        bool        cnt_mid    = false;   // ... and given while an advertisement was in flight
        unsigned    cnt_target = 0, cnt_sent = 0;
        unsigned    map = 7;
        unsigned    ival_ms;              // configured interval; 0: unknown (an out of range value was requested)
        unsigned    ival_lo, ival_hi;     // values in force during the current advertising event
        int         type_prop;            // advertising type requested last
        bool        target_valid = false;
        addr_t      target{};
        // observation
        bool          in_period = false;  // an advertising period is running (a PDU was scheduled and not yet answered / stopped)
        unsigned      last_ch   = 0;
        std::uint64_t event_sum = 0;      // sum of `when` since the first PDU of the current event
        unsigned      pdus_in_period = 0;
        bool          period_ended_mid_event = false;

        explicit Model( const caps& cc ) : c( cc ), want( !cc.no_auto ), ival_ms( cc.var_interval ? 100 : cc.fixed_interval_ms ), type_prop( cc.types[ 0 ] )
        {
            ival_lo = ival_hi = ival_ms;
        }

        bool should_advertise() const { return ran && !conn && want && ( type_prop != T_DIRECTED || target_valid ); }
        // the advertisement in flight is the last one of its period (stopped, or the count is used up)
        bool chain_ending() const { return !should_advertise() || ( cnt_active && cnt_sent >= cnt_target ); }
        void reset_interval_window()
        {
            ival_lo = ival_ms ? ival_ms : 20;
            ival_hi = ival_ms ? ival_ms : 10240;
        }
    };

    struct Runner
    {
        const Case&    cs;
        verif::Report& rep;
        std::unique_ptr< device_if > dev;
        Model          m;
        std::size_t    seen_adv = 0, seen_evt = 0, seen_cb = 0;
        std::size_t    step = 0;
        bool           excl_b, excl_c;
        // statistics
        std::set< unsigned > maps_used;
        bool           two_channel_pdu = false, map_changed_between_periods = false, map_edit_since_period = false;
        bool           any_period = false;
        std::set< std::string > labels;

        Runner( const Case& c, verif::Report& r )
            : cs( c ), rep( r ), dev( configs()[ c.cfg ].make() ), m( dev->cap() ), excl_b( verif::opt_has( "exclude", "F-24b" ) ),
              excl_c( verif::opt_has( "exclude", "F-24c" ) )
        {
        }

        std::string where() const { return verif::cat( "step ", step, " (", op_names[ cs.ops[ step ].kind ], " ", cs.ops[ step ].a, "): " ); }

        bool radio_adv_pending() { return dev->log().pending == P_ADV; }

        // ---- checks on one newly scheduled advertisement
        void check_adv( const adv_rec& a, bool first_of_period )
        {
            V_CHECK( !a.while_busy, "adv.schedule-while-radio-busy", where(),
                "schedule_advertisment() called while the radio still had an advertisement / connection event scheduled" );
            V_CHECK( a.channel >= 37 && a.channel <= 39, "adv.channel-range", where(), "advertisement on channel ", a.channel );
            V_CHECK_SIG( m.map & ( 1u << ( a.channel - 37 ) ), "adv.disabled-channel", verif::cat( "map=", m.map, " ch=", a.channel ), where(),
                "advertisement on channel ", a.channel, " which is not in the channel map ", map_text( m.map ) );
            V_CHECK( !a.adv.empty(), "adv.empty-pdu", where(), "advertisement scheduled without advertising data" );

            if ( first_of_period )
            {
                if ( m.period_ended_mid_event )
                    labels.insert( "restart-after-incomplete-event" );
                // known finding F-24b (if listed as open): a restart goes on with the channel of the last advertisement
                if ( a.channel != lowest( m.map ) && excl_b && any_period && !map_edit_since_period )
                    rep.excluded = true;
                else
                    V_CHECK_SIG( a.channel == lowest( m.map ), "adv.period-start-channel", verif::cat( "map=", m.map, " ch=", a.channel ), where(),
                        "the first advertising event after a (re)start begins on channel ", a.channel, ", the lowest enabled channel of ",
                        map_text( m.map ), " is ", lowest( m.map ) );
                m.event_sum      = 0;
                m.pdus_in_period = 0;
                m.reset_interval_window();
                if ( any_period && map_edit_since_period )
                    map_changed_between_periods = true;
                map_edit_since_period = false;
                any_period            = true;
            }
            else
            {
                const unsigned expected = next_enabled( m.map, m.last_ch );
                V_CHECK_SIG( a.channel == expected, "adv.channel-order", verif::cat( "map=", m.map, " ch=", a.channel, " prev=", m.last_ch ), where(),
                    "advertisement on channel ", a.channel, " follows the one on ", m.last_ch, "; with the channel map ", map_text( m.map ),
                    " the next one has to be on ", expected );
                if ( expected <= m.last_ch )
                {
                    // first PDU of the next advertising event
                    const std::uint64_t dist = m.event_sum + a.when_us;
                    V_CHECK_SIG( dist >= std::uint64_t( m.ival_lo ) * 1000 && dist <= std::uint64_t( m.ival_hi ) * 1000 + 10000, "adv.event-interval",
                        verif::cat( "dist=", dist ), where(), "consecutive advertising events are ", dist, " us apart; the advertising interval is ",
                        m.ival_lo, m.ival_lo != m.ival_hi ? verif::cat( "..", m.ival_hi ) : std::string(), " ms (+ 0..10 ms)" );
                    m.event_sum = 0;
                    m.reset_interval_window();
                }
                else
                {
                    V_CHECK( a.when_us <= 10000, "adv.in-event-delay", where(), "PDUs of one advertising event are ", a.when_us, " us apart (max. 10 ms)" );
                    m.event_sum += a.when_us;
                }
            }
            m.last_ch   = a.channel;
            m.in_period = true;
            ++m.pdus_in_period;
            if ( m.cnt_active )
                ++m.cnt_sent;
            maps_used.insert( m.map );
            if ( popcount3( m.map ) == 2 )
                two_channel_pdu = true;
        }

        void end_period()
        {
            if ( m.in_period )
                m.period_ended_mid_event = m.last_ch != highest( m.map );
            m.in_period = false;
        }

        // ---- after a stimulus: what did the link layer schedule?
        // expect_adv: -1 do not care, 0 none, 1 exactly one;  first: the new advertisement (if any) starts a period
        void settle( int expect_adv, int expect_evt, bool first, const char* why )
        {
            radio_log&        L       = dev->log();
            const std::size_t new_adv = L.advs.size() - seen_adv, new_evt = L.evts.size() - seen_evt;
            V_CHECK( new_adv + new_evt <= 1, "adv.double-schedule", where(), new_adv, " advertisements and ", new_evt,
                " connection events were scheduled by one call (", why, ")" );
            if ( new_adv )
                V_CHECK_SIG( !L.advs.back().while_busy, "adv.schedule-while-radio-busy", verif::cat( "op=", op_names[ cs.ops[ step ].kind ] ), where(),
                    "schedule_advertisment() was called while the radio still had an advertisement / connection event scheduled" );
            if ( expect_adv == 0 )
                V_CHECK_SIG( new_adv == 0, "adv.unexpected-advertisement", verif::cat( "op=", op_names[ cs.ops[ step ].kind ] ), where(), "an advertisement on channel ",
                    L.advs.back().channel, " was scheduled although ", why );
            if ( expect_adv == 1 )
                V_CHECK_SIG( new_adv == 1, "adv.missing-advertisement", verif::cat( "op=", op_names[ cs.ops[ step ].kind ] ), where(), "no advertisement was scheduled although ", why );
            if ( expect_evt == 0 )
                V_CHECK( new_evt == 0, "adv.unexpected-connection-event", where(), "a connection event was scheduled (", why, ")" );
            if ( expect_evt == 1 )
                V_CHECK( new_evt == 1, "adv.missing-connection-event", where(), "no connection event was scheduled (", why, ")" );
            if ( new_adv )
                check_adv( L.advs.back(), first );
            if ( new_evt )
                V_CHECK( !L.evts.back().while_busy, "adv.schedule-while-radio-busy", where(), "schedule_connection_event() called while the radio was busy" );
            seen_adv = L.advs.size();
            seen_evt = L.evts.size();
        }

        // a stimulus that may start a period (run, start, directed address, end of a connection)
        void settle_period_start( bool radio_was_busy, const char* what )
        {
            if ( radio_was_busy )
            {
                // the advertisement in flight will be followed by the next one; nothing may be scheduled on top of it
                settle( 0, 0, false, "an advertisement is still in flight" );
                return;
            }
            if ( m.should_advertise() )
                settle( 1, 0, true, what );
            else
                settle( 0, 0, true, "advertising is not enabled" );
        }

        // the advertisement in flight ended without a connection
        void settle_continue()
        {
            const std::size_t before  = dev->log().advs.size();
            const unsigned    prev_ch = m.last_ch;
            if ( !m.should_advertise() )
            {
                // stopped: nothing more, or (tolerated) the rest of the current advertising event
                settle( -1, 0, false, "advertising was stopped" );
                if ( dev->log().advs.size() != before )
                    V_CHECK( dev->log().advs.back().channel > prev_ch, "adv.continues-after-stop", where(), "a new advertising event (channel ",
                        dev->log().advs.back().channel, ") was started although advertising was stopped" );
                else
                    end_period();
                return;
            }
            if ( m.cnt_active )
            {
                if ( m.cnt_sent >= m.cnt_target )
                {
                    settle( 0, 0, false, verif::cat( "start_advertising( ", m.cnt_target, " ) was given and ", m.cnt_sent, " advertisements were sent since" ).c_str() );
                    count_done();
                    return;
                }
                if ( m.cnt_mid && m.cnt_sent + 1 == m.cnt_target )
                {
                    // the advertisement that was in flight when the count was given may or may not be counted
                    settle( -1, 0, false, "count given while advertising" );
                    if ( dev->log().advs.size() == before )
                        count_done();
                    return;
                }
            }
            settle( 1, 0, false, "advertising is enabled" );
        }

        void count_done()
        {
            labels.insert( "count-exhausted" );
            m.cnt_active = false;
            m.want       = false;
            end_period();
        }

        std::vector< std::uint8_t > connect_request( const addr_t& init )
        {
            const addr_t                own = from_dev( dev->local_address() );
            std::vector< std::uint8_t > body( init.b, init.b + 6 );
            body.insert( body.end(), own.b, own.b + 6 );
            const auto lld = default_lldata();
            body.insert( body.end(), lld.begin(), lld.end() );
            const std::uint8_t h0 = static_cast< std::uint8_t >( 0x05 | ( init.random ? 0x40 : 0 ) | ( own.random ? 0x80 : 0 ) );
            return to_memory( h0, 34, body, dev->cap().hdr_gap() );
        }

        unsigned advertised_code() { return dev->log().advs.back().adv[ 0 ] & 0x0f; }

        void after_connection_lost()
        {
            m.conn = false;
            settle_period_start( false, "the connection ended and advertising is enabled" );
        }

        void run()
        {
            const caps& c = dev->cap();
            cb_log().clear();
            rep.label( "cfg=" + c.name );

            for ( step = 0; step != cs.ops.size(); ++step )
            {
                const Op& o = cs.ops[ step ];
                switch ( o.kind )
                {
                case O_RUN:
                    if ( m.ran )
                        break;
                    dev->run();
                    m.ran = true;
                    settle_period_start( false, "run() was called and advertising is enabled" );
                    break;

                case O_T:
                    for ( int i = 0; i < std::max( 1, std::min( o.a, 16 ) ); ++i )
                    {
                        if ( !radio_adv_pending() )
                            break;
                        dev->adv_timeout();
                        settle_continue();
                    }
                    break;

                case O_RX: {
                    if ( !radio_adv_pending() )
                        break;
                    const addr_t                own = from_dev( dev->local_address() );
                    std::vector< std::uint8_t > pdu;
                    if ( o.a % 3 == 0 )
                    {
                        // scan request to another device
                        const addr_t                scanner = peer( 0 ), other = peer( 4 );
                        std::vector< std::uint8_t > body( scanner.b, scanner.b + 6 );
                        body.insert( body.end(), other.b, other.b + 6 );
                        pdu = to_memory( 0x03, 12, body, c.hdr_gap() );
                    }
                    else if ( o.a % 3 == 1 )
                        pdu = to_memory( 0x0f, 0x00, {}, 0 );
                    else
                    {
                        // connect request to somebody else
                        pdu = connect_request( peer( 2 ) );
                        pdu[ 2 + c.hdr_gap() + 6 + 2 ] ^= 0x10;
                    }
                    ( void )own;
                    dev->adv_received( pdu );
                    settle_continue();
                    labels.insert( "rx-unrelated" );
                }
                break;

                case O_START:
                case O_STARTN: {
                    if ( !c.no_auto )
                        break;
                    const bool busy = radio_adv_pending();
                    if ( busy && m.chain_ending() && excl_c )
                    {
                        // known finding F-24c: let the advertisement in flight end first
                        dev->adv_timeout();
                        settle_continue();
                        rep.excluded = true;
                    }
                    const bool busy2    = radio_adv_pending();
                    const bool ending   = m.chain_ending();
                    const bool was_want = m.want;
                    if ( o.kind == O_START )
                    {
                        dev->start();
                        m.cnt_active = false;
                    }
                    else
                    {
                        const unsigned n = static_cast< unsigned >( std::max( 1, o.a ) );
                        dev->start_n( n );
                        m.cnt_active = true;
                        m.cnt_target = n;
                        m.cnt_sent   = 0;
                        m.cnt_mid    = busy2;
                        labels.insert( busy2 ? "count-while-advertising" : "count" );
                    }
                    m.want = true;
                    ( void )was_want;
                    if ( busy2 && ending )
                        labels.insert( "restart-while-in-flight" );
                    if ( m.ran && !m.conn )
                        settle_period_start( busy2, "start_advertising() was called" );
                    else
                        settle( 0, 0, false, m.conn ? "the device is connected" : "run() was not called yet" );
                }
                break;

                case O_STOP:
                    if ( !c.no_auto )
                        break;
                    dev->stop();
                    m.want       = false;
                    m.cnt_active = false;
                    settle( 0, 0, false, "stop_advertising() was called" );
                    if ( !radio_adv_pending() )
                        end_period();
                    labels.insert( "stop" );
                    break;

                case O_ADD:
                case O_REM: {
                    if ( !c.var_map )
                        break;
                    const unsigned ch = 37 + static_cast< unsigned >( o.a + 2 ) % 3;  // 37..39 -> same value
                    if ( radio_adv_pending() )
                    {
                        labels.insert( "skip:map-edit-while-advertising" );
                        break;
                    }
                    const unsigned bit = 1u << ( ch - 37 );
                    if ( o.kind == O_REM && ( m.map & ~bit ) == 0 )
                    {
                        labels.insert( "skip:map-would-be-empty" );
                        break;
                    }
                    const unsigned old = m.map;
                    if ( o.kind == O_ADD )
                    {
                        dev->add_channel( ch );
                        m.map |= bit;
                    }
                    else
                    {
                        dev->rem_channel( ch );
                        m.map &= ~bit;
                    }
                    if ( m.map != old )
                    {
                        map_edit_since_period    = true;
                        m.period_ended_mid_event = false;  // documented: the map edit restarts with the first channel
                    }
                    settle( 0, 0, false, "only the channel map was changed" );
                }
                break;

                case O_IVAL:
                    if ( !c.var_interval )
                        break;
                    dev->interval_ms( static_cast< unsigned >( o.a ) );
                    if ( o.a >= 20 && o.a <= 10240 )
                    {
                        m.ival_ms = static_cast< unsigned >( o.a );
                        m.ival_lo = std::min( m.ival_lo, m.ival_ms );
                        m.ival_hi = std::max( m.ival_hi, m.ival_ms );
                        labels.insert( "interval-change" );
                    }
                    else
                    {
                        // not documented what an out of range request does: any legal interval is accepted from now on
                        m.ival_ms = 0;
                        m.ival_lo = 20;
                        m.ival_hi = 10240;
                        labels.insert( "interval-out-of-range" );
                    }
                    settle( 0, 0, false, "only the interval was changed" );
                    break;

                case O_TYPE: {
                    const int t = ( ( o.a % 4 ) + 4 ) % 4;
                    if ( !c.multi() || !c.has_type( t ) )
                        break;
                    if ( t == T_DIRECTED && !m.target_valid )
                    {
                        labels.insert( "skip:directed-without-target" );
                        break;
                    }
                    dev->change_type( t );
                    m.type_prop = t;
                    settle( 0, 0, false, "only the advertising type was changed" );
                    labels.insert( std::string( "change-to-" ) + type_name( t ) );
                }
                break;

                case O_DADDR: {
                    if ( !c.has_type( T_DIRECTED ) )
                        break;
                    const bool busy      = dev->log().pending != P_IDLE;
                    const bool was_valid = m.target_valid;
                    dev->directed_address( peer( o.a ).dev() );
                    m.target_valid = true;
                    m.target       = peer( o.a );
                    if ( m.ran && !m.conn && !was_valid && m.type_prop == T_DIRECTED )
                        settle_period_start( busy, "the directed advertising address was set" );
                    else
                        settle( 0, 0, false, "only the directed advertising address was changed" );
                }
                break;

                case O_CONN: {
                    if ( !radio_adv_pending() )
                        break;
                    const unsigned code = advertised_code();
                    addr_t         init = peer( o.a );
                    if ( code == 1 )
                        init = m.target;  // the configured directed advertising address
                    dev->adv_received( connect_request( init ) );
                    if ( code == 0 || code == 1 )
                    {
                        settle( 0, 1, false, "a valid connect request was received" );
                        m.conn = true;
                        end_period();
                        if ( c.no_auto )
                        {
                            m.want       = false;
                            m.cnt_active = false;
                        }
                        labels.insert( "connected" );
                    }
                    else
                        settle_continue();
                }
                break;

                case O_EVT:
                    if ( dev->log().pending != P_EVT )
                        break;
                    dev->conn_event_empty();
                    if ( dev->log().pending == P_EVT )
                        settle( 0, 1, false, "connection event" );
                    else
                        after_connection_lost();
                    break;

                case O_DROP: {
                    if ( dev->log().pending != P_EVT )
                        break;
                    int guard = 0;
                    while ( dev->log().pending == P_EVT && ++guard < 20000 )
                    {
                        dev->conn_timeout();
                        if ( dev->log().pending == P_EVT )
                            settle( 0, 1, false, "connection event timed out" );
                    }
                    V_CHECK( guard < 20000, "adv.connection-never-ends", where(), "the connection survived 20000 missed connection events" );
                    after_connection_lost();
                    labels.insert( "connection-lost" );
                }
                break;
                }
            }

            for ( unsigned mp : maps_used )
                rep.label( "map=" + map_text( mp ) );
            for ( auto& l : labels )
                rep.label( l );
            rep.label_if( map_changed_between_periods, "map-change-between-periods" );
            rep.label_if( dev->log().advs.size() >= 30, "pdus>=30" );
            rep.label_if( dev->log().advs.empty(), "no-advertisement" );
            rep.nontrivial = two_channel_pdu || map_changed_between_periods;
        }
    };

    void run( const Case& c, verif::Report& rep )
    {
        Runner r( c, rep );
        r.run();
    }
}

// bluetoe does not allocate; a small quarantine keeps the page fault load of 16 parallel workers low
extern "C" const char* __asan_default_options() { return "quarantine_size_mb=8"; }

int main( int argc, char** argv )
{
    verif::Harness< Case > h{ gen_case, to_text, from_text, run };
    return verif::run_main( argc, argv, h );
}
